import os
import sys

_here = os.path.dirname(os.path.abspath(__file__))
if sys.path and os.path.abspath(sys.path[0] or '.') == _here:
    del sys.path[0]

import re
import warnings

import numpy as np
from scipy.constants import c, h, e, k as kB, pi
from scipy.integrate import quad
from scipy.optimize import minimize_scalar
from scipy.special import erfc

warnings.simplefilter('ignore')

import opticomlib.utils as U

FAILS = []


def check(cond, clause):
    if not cond:
        FAILS.append(clause)
        print('FAIL:', clause)
        return False
    return True


def raises(exc, fn, *a, **kw):
    try:
        fn(*a, **kw)
    except exc:
        return True
    except Exception:
        return False
    return False


def Qr(x):
    return 0.5 * erfc(np.asarray(x, dtype=float) / np.sqrt(2.0))


# ---------------------------------------------------------------- C19
def c19_units():
    rng = np.random.default_rng(1901)
    x = 10 ** rng.uniform(-15, 15, 4000)
    y = 10 ** rng.uniform(-15, 15, 4000)
    d = rng.uniform(-300, 300, 4000)

    check(np.allclose(U.idb(U.db(x)), x, rtol=1e-12, atol=0), 'C19 idb(db(x)) = x (array)')
    check(np.allclose(U.idbm(U.dbm(x)), x, rtol=1e-12, atol=0), 'C19 idbm(dbm(x)) = x (array)')
    check(np.allclose(U.db(U.idb(d)), d, rtol=1e-12, atol=1e-10), 'C19 db(idb(d)) = d (array)')
    check(np.allclose(U.dbm(U.idbm(d)), d, rtol=1e-12, atol=1e-10), 'C19 dbm(idbm(d)) = d (array)')
    check(np.allclose(U.db(x * y), U.db(x) + U.db(y), rtol=1e-12, atol=1e-10), 'C19 db(x*y) = db(x)+db(y)')
    check(np.allclose(U.dbm(x), U.db(x) + 30, rtol=1e-12, atol=1e-10), 'C19 dbm(x) = db(x)+30')
    check(np.shape(U.db(x)) == x.shape and np.shape(U.dbm(x)) == x.shape, 'C19 db/dbm keep the array shape')
    check(np.shape(U.idb(d)) == d.shape and np.shape(U.idbm(d)) == d.shape, 'C19 idb/idbm keep the array shape')

    ok = True
    for xv, dv in zip(x[:300], d[:300]):
        xv = float(xv)
        dv = float(dv)
        ok &= np.isclose(float(U.idb(U.db(xv))), xv, rtol=1e-12, atol=0)
        ok &= np.isclose(float(U.idbm(U.dbm(xv))), xv, rtol=1e-12, atol=0)
        ok &= np.isclose(float(U.db(U.idb(dv))), dv, rtol=1e-12, atol=1e-10)
        ok &= np.isclose(float(U.dbm(U.idbm(dv))), dv, rtol=1e-12, atol=1e-10)
        ok &= np.isclose(float(U.dbm(xv)), float(U.db(xv)) + 30, rtol=1e-12, atol=1e-10)
    check(ok, 'C19 db/dbm/idb/idbm compositions on scalars')
    check(np.allclose(U.db([1, 10, 100]), [0, 10, 20]) and np.allclose(U.dbm((1e-3, 1)), [0, 30]),
          'C19 db/dbm on lists and tuples')
    check(float(U.db(1)) == 0.0 and np.isclose(float(U.dbm(1)), 30.0) and np.isclose(float(U.idbm(0)), 1e-3),
          'C19 db(1) = 0, dbm(1) = 30, idbm(0) = 1e-3')

    for f in (U.db, U.dbm):
        check(raises(ValueError, f, -1.0), f'C19 {f.__name__}(-1.0) raises ValueError')
        check(raises(ValueError, f, -3), f'C19 {f.__name__}(-3) raises ValueError')
        check(raises(ValueError, f, [1.0, -2.0]), f'C19 {f.__name__}([1,-2]) raises ValueError')
        check(raises(ValueError, f, np.array([-1e-30, 2.0])), f'C19 {f.__name__}(array with negative) raises ValueError')
        check(raises(ValueError, f, (3, -1)), f'C19 {f.__name__}(tuple with negative) raises ValueError')


def c19_Q_gaus_rcos():
    rng = np.random.default_rng(1902)
    x = np.sort(rng.uniform(-9, 9, 5000))
    q = U.Q(x)
    check(np.allclose(q + U.Q(-x), 1.0, rtol=0, atol=1e-15), 'C19 Q(x)+Q(-x) = 1')
    check(np.all(np.diff(q) <= 0), 'C19 Q decreasing')
    check(float(U.Q(0)) == 0.5 and float(U.Q(0.0)) == 0.5, 'C19 Q(0) = 1/2')
    check(np.allclose(q, Qr(x), rtol=1e-13, atol=0), 'C19 Q equals erfc form')
    check(np.isclose(float(U.Q(1.3)), float(Qr(1.3)), rtol=1e-13), 'C19 Q scalar')
    check(np.allclose(U.Q([0, 1, 2]), Qr([0, 1, 2]), rtol=1e-13), 'C19 Q list')

    for mu, std in [(None, None), (0.0, 1.0), (2.5, 0.3), (-4.0, 7.0), (1e3, 1e-3)]:
        m = 0.0 if mu is None else mu
        s = 1.0 if std is None else std
        t = np.linspace(m - 12 * s, m + 12 * s, 200001)
        area = np.trapz(U.gaus(t, mu, std), t)
        check(abs(area - 1) < 1e-9, f'C19 gaus integrates to one (mu={mu}, std={std})')
        ref = np.exp(-0.5 * ((t - m) / s) ** 2) / (s * np.sqrt(2 * pi))
        check(np.allclose(U.gaus(t, mu, std), ref, rtol=1e-12, atol=0), f'C19 gaus closed form (mu={mu}, std={std})')
    check(np.isclose(float(U.gaus(0, 0, 1)), 0.3989422804014327, rtol=1e-14), 'C19 gaus scalar')

    for _ in range(120):
        alpha = float(rng.choice([0.0, 0.1, 0.25, 0.5, 0.75, 1.0, rng.uniform(0.01, 1.0)]))
        T = float(rng.choice([1.0, 2.0, 0.5, 1e-9, rng.uniform(0.1, 10)]))
        f = np.concatenate([rng.uniform(-2 / T, 2 / T, 400), [0.0, 1 / (2 * T), -1 / (2 * T)]])
        Hf = U.rcos(f, alpha, T)
        ok = np.shape(Hf) == f.shape and np.all(Hf >= 0) and np.all(Hf <= 1)
        check(ok, f'C19 rcos in [0,1] (alpha={alpha}, T={T})')
        check(np.array_equal(Hf, U.rcos(-f, alpha, T)), f'C19 rcos even (alpha={alpha}, T={T})')
        beyond = np.abs(f) > (1 + alpha) / (2 * T) * (1 + 1e-12)
        check(np.all(Hf[beyond] == 0), f'C19 rcos vanishes beyond (1+alpha)/(2T) (alpha={alpha}, T={T})')
        flat = np.abs(f) <= (1 - alpha) / (2 * T) * (1 - 1e-12)
        check(np.all(Hf[flat] == 1), f'C19 rcos flat top (alpha={alpha}, T={T})')
        if alpha > 0:
            check(abs(float(U.rcos(1 / (2 * T), alpha, T)) - 0.5) < 1e-12, f'C19 rcos(1/(2T)) = 1/2 scalar (alpha={alpha}, T={T})')
            check(abs(float(U.rcos(np.array([1 / (2 * T)]), alpha, T)[0]) - 0.5) < 1e-12,
                  f'C19 rcos(1/(2T)) = 1/2 array (alpha={alpha}, T={T})')
            f0 = (1 - alpha) / (2 * T)
            ref = np.where(np.abs(f) <= f0, 1.0,
                           np.where(np.abs(f) <= (1 + alpha) / (2 * T),
                                    0.5 * (1 + np.cos(pi * T / alpha * (np.abs(f) - f0))), 0.0))
            check(np.allclose(Hf, ref, rtol=0, atol=1e-12), f'C19 rcos closed form (alpha={alpha}, T={T})')
        for fv in f[:25]:
            sv = float(U.rcos(float(fv), alpha, T))
            ok = 0 <= sv <= 1 and sv == float(U.rcos(-float(fv), alpha, T))
            check(ok, f'C19 rcos scalar in [0,1] and even (alpha={alpha}, T={T}, x={fv})')
            check(abs(sv - float(U.rcos(np.array([fv]), alpha, T)[0])) < 1e-12, 'C19 rcos scalar = array value')
    check(np.allclose(U.rcos([0.0, 0.5, 0.75, 2.0], 0.5, 1.0), [1, 0.5, 0, 0], atol=1e-12), 'C19 rcos on a list')


def c19_dec2bin():
    ok = True
    for d in range(0, 17):
        w = 2 ** np.arange(d - 1, -1, -1, dtype=np.int64)
        for v in range(2 ** d):
            b = U.dec2bin(v, d)
            if len(b) != d or int(np.dot(np.asarray(b, dtype=np.int64), w)) != v or not np.all((np.asarray(b) == 0) | (np.asarray(b) == 1)):
                ok = False
                print('dec2bin', v, d, b)
                break
        if not ok:
            break
        for v in (2 ** d, 2 ** d + 1, 2 ** (d + 1), 2 ** 20 + 3):
            if not raises(ValueError, U.dec2bin, v, d):
                ok = False
                print('dec2bin no ValueError', v, d)
    check(ok, 'C19 dec2bin exhaustive d <= 16')
    ok = True
    for d in (1, 3, 8, 16):
        for v in (0, 1, 2 ** d - 1, (2 ** d) // 3):
            b = U.dec2bin(np.int64(v), d)
            ok &= ''.join(str(int(t)) for t in b) == format(v, f'0{d}b')
    check(ok, 'C19 dec2bin numpy integer input')
    check(list(U.dec2bin(5)) == [0, 0, 0, 0, 0, 1, 0, 1], 'C19 dec2bin default 8 digits')


def _render(arr, kind, sep, rowsep, imag):
    def one(v):
        if kind == 'int':
            return str(int(v))
        if kind == 'float':
            return f'{float(v):.6f}'
        re_, im_ = v.real, v.imag
        return f'{re_:.4f}{im_:+.4f}{imag}'
    if arr.ndim == 1:
        return sep.join(one(v) for v in arr)
    return rowsep.join(sep.join(one(v) for v in row) for row in arr)


def c19_str2array():
    rng = np.random.default_rng(1903)
    ok = True
    for _ in range(400):
        kind = rng.choice(['int', 'float', 'complex'])
        shape = (int(rng.integers(1, 7)),) if rng.random() < 0.5 else (int(rng.integers(2, 4)), int(rng.integers(1, 7)))
        if kind == 'int':
            a = rng.integers(-999, 1000, shape)
            if np.all((a == 0) | (a == 1)):
                a.flat[0] = 7
            if np.all(np.isin(np.abs(a), [0, 1, 10, 11, 100, 101, 110, 111])) and np.all(a >= 0):
                a.flat[0] = 7
        elif kind == 'float':
            a = np.round(rng.uniform(-100, 100, shape), 6)
        else:
            a = np.round(rng.uniform(-100, 100, shape), 4) + 1j * np.round(rng.uniform(-100, 100, shape), 4)
        sep = str(rng.choice([',', ' ', ', ']))
        rowsep = str(rng.choice([';', '; ']))
        imag = str(rng.choice(['i', 'j']))
        s = _render(a, kind, sep, rowsep, imag)
        r = U.str2array(s)
        want = {'int': np.integer, 'float': np.floating, 'complex': np.complexfloating}[kind]
        if r.shape != a.shape or not np.issubdtype(r.dtype, want) or not np.allclose(r, a, rtol=0, atol=1e-12):
            ok = False
            print('str2array', repr(s), r, a)
        for dt in (float, complex) if kind != 'complex' else (complex,):
            rr = U.str2array(s, dt)
            if rr.dtype != np.dtype(dt) or rr.shape != a.shape or not np.allclose(rr, a, rtol=0, atol=1e-12):
                ok = False
                print('str2array dtype', repr(s), dt, rr)
    check(ok, 'C19 str2array inverts the textual form / honours dtype')

    ok = True
    for _ in range(200):
        shape = (int(rng.integers(1, 7)),) if rng.random() < 0.5 else (int(rng.integers(2, 4)), int(rng.integers(1, 7)))
        b = rng.integers(0, 2, shape)
        sep = str(rng.choice(['', ',', ' ']))
        if b.ndim == 1:
            s = sep.join(str(v) for v in b)
        else:
            s = ';'.join(sep.join(str(v) for v in row) for row in b)
        r = U.str2array(s)
        ok &= r.dtype == np.dtype(bool) and r.shape == b.shape and np.array_equal(r, b.astype(bool))
        r = U.str2array(s, bool)
        ok &= r.dtype == np.dtype(bool) and np.array_equal(r, b.astype(bool))
    check(ok, 'C19 str2array bit patterns digit by digit')
    check(np.array_equal(U.str2array('10 100 1000'), [1, 0, 1, 0, 0, 1, 0, 0, 0]), 'C19 str2array bit pattern groups')
    check(np.array_equal(U.str2array('1 0 1 10', dtype=int), [1, 0, 1, 10]) and U.str2array('1 0 1 10', dtype=int).dtype.kind == 'i',
          'C19 str2array 0/1 text with int dtype')
    check(np.array_equal(U.str2array('1 0 1 10', dtype=float), [1.0, 0.0, 1.0, 10.0]), 'C19 str2array 0/1 text with float dtype')
    check(np.array_equal(U.str2array('10;11', dtype=complex), [[10 + 0j], [11 + 0j]]), 'C19 str2array 0/1 text with complex dtype 2-D')
    for bad in ('1 2 a', '1e3', '1,2;x', '0x10', '1 2 k', '3*4', '1_000', '(1,2)'):
        check(raises(ValueError, U.str2array, bad), f'C19 str2array({bad!r}) raises ValueError')


_PREFIX = {'f': -15, 'p': -12, 'n': -9, 'u': -6, 'μ': -6, 'µ': -6, 'm': -3, '': 0, 'k': 3, 'M': 6, 'G': 9, 'T': 12}


def _si_ok(x, unit, prec, out):
    if not isinstance(out, str):
        return False
    m = re.fullmatch(r'(-?\d+(?:\.\d+)?) (.?)' + re.escape(unit), out)
    if not m:
        return False
    mant = float(m.group(1))
    if m.group(2) not in _PREFIX:
        return False
    p = _PREFIX[m.group(2)]
    digits = len(m.group(1).split('.')[1]) if '.' in m.group(1) else 0
    if digits != prec:
        return False
    if abs(mant * 10.0 ** p - x) > (0.5 * 10.0 ** (-prec)) * 10.0 ** p * (1 + 1e-9) + 1e-12 * x:
        return False
    raw = x / 10.0 ** p
    if x < 1e15 and not (1 - 1e-12 <= raw < 1000 * (1 + 1e-12)):
        return False
    if x < 1e15 and raw >= 1000 and p != 12:
        return False
    return True


def c19_si():
    rng = np.random.default_rng(1904)
    xs = list(10 ** rng.uniform(-15, 15, 3000))
    for p in range(-15, 16):
        xs += [10.0 ** p, float(f'1e{p}'), float(f'1e{p}') * (1 + 1e-9), float(f'9.99e{p}'), float(f'2.5e{p}'), float(f'5e{p}')]
    for p in range(-12, 16, 3):
        xs.append(np.nextafter(float(f'1e{p}'), 0))
    xs += [1e15, 3e16, 4.2e17]
    xs = [x for x in xs if x >= 1e-15]
    ok = True
    for x in xs:
        for unit in ('s', 'Hz', 'm'):
            out = U.si(x, unit)
            if not _si_ok(x, unit, 1, out):
                ok = False
                print('si', x, unit, repr(out))
        for prec in (0, 2, 4):
            out = U.si(x, 'W', prec)
            if not _si_ok(x, 'W', prec, out):
                ok = False
                print('si', x, prec, repr(out))
    check(ok, 'C19 si mantissa + SI prefix gives back x')
    check(_si_ok(2e-3, 's', 1, U.si(2e-3)), 'C19 si default unit')
    for x in (7, 1000, 10 ** 9, np.float64(3.3e-7), np.int64(52)):
        check(_si_ok(float(x), 'Hz', 1, U.si(x, 'Hz')), f'C19 si on {type(x).__name__}')
    check(U.si(0.002, 's').startswith('2.0 m') and U.si(1e9, 'Hz') == '1.0 GHz', 'C19 si documented examples')


# ---------------------------------------------------------------- C18
def c18_shortest_int():
    rng = np.random.default_rng(1801)
    ok = True
    for it in range(600):
        n = int(rng.choice([2, 3, 5, 10, 37, 100, 1000, 5000]))
        kind = it % 4
        if kind == 0:
            data = rng.normal(0, 1, n)
        elif kind == 1:
            data = np.round(rng.normal(0, 2, n))
        elif kind == 2:
            data = rng.integers(0, 4, n).astype(float) * 0.25
        else:
            data = np.round(np.sin(np.linspace(0, 20, n)) * 8) / 8
        p = float(rng.choice([rng.uniform(0.01, 99.99), 50.0, 99.99, 90.0, 10.0]))
        lag = int(len(data) * p / 100)
        if lag < 1 or lag >= n:
            continue
        res = U.shortest_int(data.copy(), p)
        if len(res) != 2:
            ok = False
            print('shortest_int len', res)
            continue
        lo, hi = res
        d = np.sort(data)
        widths = d[lag:] - d[:-lag]
        good = lo <= hi
        good &= bool(np.any((d[:-lag] == lo) & (d[lag:] == hi)))
        good &= (hi - lo) == widths.min()
        good &= np.count_nonzero((data >= lo) & (data <= hi)) >= lag + 1
        if not good:
            ok = False
            print('shortest_int', n, p, lag, res)
    check(ok, 'C18 shortest_int shortest covering interval, lag order statistics apart')
    d = np.array([0., 0., 0., 1., 5., 5., 5., 5., 9.])
    lo, hi = U.shortest_int(d, 34)
    check(lo == hi == 5.0, 'C18 shortest_int ties example')
    lo, hi = U.shortest_int(list(rng.normal(0, 1, 101)), 50)
    check(lo <= hi, 'C18 shortest_int on a list')
    lo, hi = U.shortest_int(rng.normal(0, 1, 200))
    check(lo <= hi, 'C18 shortest_int default percent')


def c18_adc():
    from opticomlib.devices import ADC
    rng = np.random.default_rng(1802)
    ok = True
    cases = []
    for n_s in (2, 3, 10, 257, 4096, 10000, 20011, 2 ** 17):
        t = np.arange(n_s)
        cases += [
            rng.normal(0, 1, n_s),
            rng.uniform(-3, 5, n_s),
            2.5 * np.sin(2 * pi * t / 97.3 + 0.3) + 1.0,
            np.round(rng.normal(0, 3, n_s)) / 2,
        ]
    for sig in cases:
        if np.ptp(sig) == 0:
            continue
        for n in sorted(set([1, 2, 12, int(rng.integers(3, 12))])):
            V_min, V_max = (float(v) for v in U.shortest_int(sig.copy(), 99.99))
            if V_max == V_min:
                continue
            step = (V_max - V_min) / (2 ** n - 1)
            for otype in ('n', 'v'):
                out = ADC(sig.copy(), n=n, otype=otype)
                y = np.asarray(out.signal)
                good = y.shape == sig.shape
                good &= len(np.unique(y)) <= 2 ** n
                if otype == 'n':
                    good &= bool(np.all(y == np.round(y))) and y.min() >= 0 and y.max() <= 2 ** n - 1
                    inside = (sig >= V_min) & (sig <= V_max)
                    good &= bool(np.all(np.abs(y[inside] * step + V_min - sig[inside]) <= step / 2 * (1 + 1e-9) + 1e-12))
                    good &= bool(np.all(y[sig > V_max] == 2 ** n - 1)) and bool(np.all(y[sig < V_min] == 0))
                else:
                    tol = 1e-9 * max(abs(V_min), abs(V_max), 1.0)
                    good &= y.min() >= V_min - tol and y.max() <= V_max + tol
                    inside = (sig >= V_min) & (sig <= V_max)
                    good &= bool(np.all(np.abs(y[inside] - sig[inside]) <= step / 2 * (1 + 1e-9) + tol))
                if not good:
                    ok = False
                    print('ADC', len(sig), n, otype)
    check(ok, 'C18 ADC n-bit quantiser')


# ---------------------------------------------------------------- C13
def _model(P_avg, M, ER, amplify, G, NF, BW_opt, r, BW_el, R_L, T, NF_el, f0):
    er = 10 ** (ER / 10) if np.isfinite(ER) else np.inf
    p_avg = 10 ** (P_avg / 10 - 3)
    p_on = p_avg * M / (1 + (M - 1) / er)
    p_off = p_on / er
    if amplify:
        g = 10 ** (G / 10)
        pase = 10 ** (NF / 10) * h * f0 * (g - 1) * BW_opt
        l = BW_el / BW_opt
    else:
        g, pase, l = 1.0, 0.0, 1.0
    mu_ase = r * pase * R_L
    mu = r * g * np.array([p_off, p_on]) * R_L + mu_ase
    S = (4 * kB * T * BW_el * R_L * 10 ** (NF_el / 10) + 2 * e * mu * BW_el * R_L
         + 2 * mu_ase * (mu - mu_ase) * l + mu_ase ** 2 * (1 - l / 2) * l)
    return mu, mu_ase, S, pase


def _ber_ref(mu, S, modulation, M, decision):
    s = np.sqrt(S)
    if modulation == 'ook':
        f = lambda x: 0.5 * (Qr((mu[1] - x) / s[1]) + Qr((x - mu[0]) / s[0]))
        grid = f(np.linspace(mu[0], mu[1], 5000)).min()
        fine = minimize_scalar(f, bounds=(mu[0], mu[1]), method='bounded', options={'xatol': 1e-14 * max(mu[1], 1e-30)}).fun
        return grid, min(fine, grid)
    k = M / 2 / (M - 1)
    if decision == 'hard':
        f = lambda x: 1 - Qr((x - mu[1]) / s[1]) * (1 - Qr((x - mu[0]) / s[0])) ** (M - 1)
        grid = f(np.linspace(mu[0], mu[1], 5000)).min()
        return grid * k, None
    val = 1 - quad(lambda x: (1 - Qr((mu[1] - mu[0] + s[1] * x) / s[0])) ** (M - 1) * np.exp(-x ** 2 / 2), -np.inf, np.inf)[0] / np.sqrt(2 * pi)
    return val * k, None


def _rand_rx(rng):
    amplify = bool(rng.random() < 0.6)
    BW_el = float(10 ** rng.uniform(8, 10.3))
    kw = dict(
        ER=float(rng.choice([np.inf, rng.uniform(3, 40), 3.0, 10.0])),
        amplify=amplify,
        r=float(rng.uniform(0.05, 1.0)),
        BW_el=BW_el,
        R_L=float(10 ** rng.uniform(1, 4)),
        T=float(rng.choice([rng.uniform(0, 400), 300.0, 0.0, 400.0])),
        NF_el=float(rng.choice([0.0, rng.uniform(0, 10)])),
    )
    if amplify:
        kw.update(G=float(rng.uniform(0, 40)), NF=float(rng.uniform(3, 10)), BW_opt=BW_el * float(rng.uniform(1.01, 50)))
    return kw


def c13_receiver_model():
    rng = np.random.default_rng(1301)
    wl = 1550e-9
    f0 = c / wl
    ok_levels = ok_var = ok_pase = ok_ber = ok_mono = ok_vec = True
    for it in range(140):
        kw = _rand_rx(rng)
        mod = 'ook' if it % 3 == 0 else 'ppm'
        M = 2 if mod == 'ook' else int(2 ** rng.integers(1, 9))
        dec = None if mod == 'ook' else ('hard' if it % 2 else 'soft')
        P = float(rng.uniform(-50, 0))
        edfa = {k_: kw.get(k_) for k_ in ('G', 'NF', 'BW_opt')}
        mu_r, mu_ase_r, S_r, pase_r = _model(P, M, kw['ER'], kw['amplify'], edfa['G'], edfa['NF'], edfa['BW_opt'],
                                             kw['r'], kw['BW_el'], kw['R_L'], kw['T'], kw['NF_el'], f0)

        pa = U.p_ase(kw['amplify'], wl, edfa['G'], edfa['NF'], edfa['BW_opt'])
        ok_pase &= bool(np.isclose(float(pa), pase_r, rtol=1e-12, atol=0))

        mu, mu_ase = U.average_voltages(P, mod, M if mod == 'ppm' else None, kw['ER'], kw['amplify'], wl,
                                        edfa['G'], edfa['NF'], edfa['BW_opt'], kw['r'], kw['R_L'])
        ok_levels &= np.shape(mu) == (2,) and bool(np.allclose(mu, mu_r, rtol=1e-12, atol=0)) and bool(np.isclose(float(mu_ase), mu_ase_r, rtol=1e-12, atol=0))

        S = U.noise_variances(P, mod, M if mod == 'ppm' else None, kw['ER'], kw['amplify'], wl, edfa['G'], edfa['NF'],
                              edfa['BW_opt'], kw['r'], kw['BW_el'], kw['R_L'], kw['T'], kw['NF_el'])
        ok_var &= np.shape(S) == (2,) and bool(np.allclose(S, S_r, rtol=1e-12, atol=0))
        S_kw = U.noise_variances(P_avg=P, modulation=mod, M=M, wavelength=wl, **kw)
        ok_var &= bool(np.allclose(S_kw, S_r, rtol=1e-12, atol=0))

        if it < 90:
            ber = float(U.theory_BER(P, mod, M if mod == 'ppm' else None, dec, None, kw['ER'], kw['amplify'], f0,
                                     edfa['G'], edfa['NF'], edfa['BW_opt'], kw['r'], kw['BW_el'], kw['R_L'], kw['T'], kw['NF_el']))
            ref, fine = _ber_ref(mu_r, S_r, mod, M, dec)
            good = bool(np.isclose(ber, ref, rtol=1e-6, atol=1e-13 if dec == 'soft' else 1e-300)) and 0 <= ber <= M / (2 * (M - 1)) * (1 + 1e-12)
            if fine is not None and fine > 1e-250:
                good &= ber >= fine * (1 - 1e-9) and ber <= fine * 1.05
            if not good:
                ok_ber = False
                print('theory_BER', mod, M, dec, P, kw, ber, ref, fine)

        if it < 40:
            Ps = np.linspace(-50, 0, 21)
            bers = U.theory_BER(Ps, mod, M if mod == 'ppm' else None, dec, f0=f0, **kw)
            ok_vec &= np.shape(bers) == Ps.shape
            one = float(U.theory_BER(float(Ps[7]), mod, M if mod == 'ppm' else None, dec, f0=f0, **kw))
            ok_vec &= bool(np.isclose(float(bers[7]), one, rtol=1e-9, atol=1e-300))
            slack = 1e-9 if dec != 'soft' else 1e-6
            big = bers > 1e-12
            inc = np.diff(bers) > slack * bers[:-1]
            if np.any(inc & big[:-1]):
                ok_mono = False
                print('theory_BER monotone', mod, M, dec, kw, bers)
    check(ok_pase, 'C13 p_ase = nf*h*f0*(g-1)*BW_opt')
    check(ok_levels, 'C13 average_voltages ON/OFF levels from P_avg, M, ER')
    check(ok_var, 'C13 noise_variances thermal + shot + sig-ASE + ASE-ASE')
    check(ok_ber, 'C13 theory_BER equals the error integral on the model levels and variances')
    check(ok_vec, 'C13 theory_BER vectorises element-wise')
    check(ok_mono, 'C13 theory_BER decreases with received power')
    check(float(U.p_ase(False)) == 0, 'C13 p_ase unamplified is zero')

    P = -30.0
    b = float(U.theory_BER(P, 'ook'))
    mu_r, _, S_r, _ = _model(P, 2, np.inf, False, None, None, None, 1.0, 5e9, 50, 300, 0, 193.4145e12)
    check(np.isclose(b, _ber_ref(mu_r, S_r, 'ook', 2, None)[0], rtol=1e-9), 'C13 theory_BER defaults (unamplified OOK)')
    b = float(U.theory_BER(-35.0, 'ook', amplify=True, G=25, NF=5, BW_opt=50e9))
    mu_r, _, S_r, _ = _model(-35.0, 2, np.inf, True, 25, 5, 50e9, 1.0, 5e9, 50, 300, 0, 193.4145e12)
    check(np.isclose(b, _ber_ref(mu_r, S_r, 'ook', 2, None)[0], rtol=1e-9), 'C13 theory_BER default f0 (amplified OOK)')
    b = float(U.theory_BER(-35.0, 'ook', threshold=0.4, amplify=True, G=25, NF=5, BW_opt=50e9))
    x = 0.4 * mu_r[1] + 0.6 * mu_r[0]
    s = np.sqrt(S_r)
    check(np.isclose(b, 0.5 * (Qr((mu_r[1] - x) / s[1]) + Qr((x - mu_r[0]) / s[0])), rtol=1e-9), 'C13 theory_BER fixed threshold')


def c13_optimum_threshold():
    rng = np.random.default_rng(1302)
    ok = True
    for _ in range(2000):
        mu0 = float(rng.uniform(-1, 1))
        s0 = float(10 ** rng.uniform(-3, 0))
        s1 = s0 * float(10 ** rng.uniform(-1, 1))
        if abs(s1 - s0) < 1e-6 * s0:
            continue
        mu1 = mu0 + float(rng.uniform(0.05, 20)) * max(s0, s1)
        mod = 'ook' if rng.random() < 0.5 else 'ppm'
        M = 2 if mod == 'ook' else int(2 ** rng.integers(1, 9))
        th = float(U.optimum_threshold(mu0, mu1, s0 ** 2, s1 ** 2, mod, None if mod == 'ook' else M))
        th2 = float(U.optimum_threshold(0.0, mu1 - mu0, s0 ** 2, s1 ** 2, mod, None if mod == 'ook' else M)) + mu0
        if not np.isfinite(th):
            continue
        lhs = np.log(M - 1) - 0.5 * ((th - mu0) / s0) ** 2 - np.log(s0)
        rhs = -0.5 * ((th - mu1) / s1) ** 2 - np.log(s1)
        if not np.isclose(lhs, rhs, rtol=1e-6, atol=1e-6):
            ok = False
            print('optimum_threshold', mu0, mu1, s0, s1, M, th, lhs, rhs)
        if not np.isclose(th, th2, rtol=1e-9, atol=1e-9 * (abs(mu0) + abs(mu1))):
            ok = False
            print('optimum_threshold shift', mu0, mu1, s0, s1, M, th, th2)
    check(ok, 'C13 optimum_threshold solves (M-1) N(r;mu0,S0) = N(r;mu1,S1), shift invariant')


def main():
    for fn in (c19_units, c19_Q_gaus_rcos, c19_dec2bin, c19_str2array, c19_si,
               c18_shortest_int, c18_adc, c13_receiver_model, c13_optimum_threshold):
        try:
            fn()
        except Exception as ex:
            import traceback
            traceback.print_exc()
            check(False, f'{fn.__name__} crashed: {type(ex).__name__}: {ex}')
    if FAILS:
        print(f'{len(FAILS)} clause(s) failed')
        sys.exit(1)
    print('PASS')


if __name__ == '__main__':
    main()
