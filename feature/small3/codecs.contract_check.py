import sys
import os

_here = os.path.dirname(os.path.abspath(__file__))
if sys.path and os.path.abspath(sys.path[0] or '.') == _here:
    sys.path.pop(0)

import itertools
import warnings

import numpy as np
from scipy.optimize import minimize_scalar
from scipy.stats import norm

import opticomlib
from opticomlib import ook, ppm
from opticomlib.typing import gv, binary_sequence, electrical_signal, optical_signal, eye
from opticomlib.devices import DAC, MZM, PD, PRBS
from opticomlib.utils import Q, optimum_threshold

warnings.simplefilter('ignore')

FAILS = []


def check(clause, cond, detail=''):
    if not cond:
        FAILS.append(f'{clause}: {detail}')
        print('FAIL', clause, detail)
        return False
    return True


def raises(exc, f, *a, **k):
    try:
        f(*a, **k)
    except exc:
        return True
    except Exception as e:
        return False
    return False


ORDERS = [2, 4, 8, 16, 32, 64, 128, 256]


# ----------------------------------------------------------------------------- C12
def expected_encoding(bits, M):
    k = int(np.log2(M))
    n = len(bits) // k
    out = np.zeros(n * M, dtype=int)
    for i in range(n):
        v = 0
        for b in bits[i * k:(i + 1) * k]:
            v = 2 * v + int(b)
        out[i * M + v] = 1
    return out


def c12_encoder_decoder():
    for M in ORDERS:
        k = int(np.log2(M))
        for n in range(k, 13):
            for bits in itertools.product((0, 1), repeat=n):
                if n > 8 and hash((bits, M)) % 7:
                    continue
                exp = expected_encoding(bits, M)
                enc = ppm.PPM_ENCODER(list(bits), M)
                if not check('C12.encoder', isinstance(enc, binary_sequence) and np.array_equal(np.asarray(enc.data).astype(int), exp), f'M={M} bits={bits}'):
                    return
                dec = ppm.PPM_DECODER(enc, M)
                if not check('C12.roundtrip', np.array_equal(np.asarray(dec.data).astype(int), np.array(bits[:n // k * k])), f'M={M} bits={bits}'):
                    return
    rng = np.random.default_rng(1)
    for M in ORDERS:
        k = int(np.log2(M))
        bits = rng.integers(0, 2, 997)
        exp = expected_encoding(bits, M)
        txt = ''.join(map(str, bits))
        kinds = [txt, list(bits), tuple(bits), bits, bits.astype(bool), bits.astype(float), binary_sequence(bits)]
        for inp in kinds:
            enc = ppm.PPM_ENCODER(inp, M)
            check('C12.encoder.containers', np.array_equal(np.asarray(enc.data).astype(int), exp), f'M={M} {type(inp)}')
        etxt = ''.join(map(str, exp))
        for inp in [etxt, list(exp), tuple(exp), exp, exp.astype(bool), exp.astype(float), binary_sequence(exp)]:
            dec = ppm.PPM_DECODER(inp, M)
            check('C12.decoder.containers', np.array_equal(np.asarray(dec.data).astype(int), bits[:997 // k * k]), f'M={M} {type(inp)}')


def hdd_ok(inp, out, M):
    inp = np.asarray(inp).astype(int).reshape(-1, M)
    out = np.asarray(out).astype(int).reshape(-1, M)
    if out.shape != inp.shape:
        return False
    if not np.all(out.sum(axis=1) == 1):
        return False
    one = inp.sum(axis=1) == 1
    if not np.array_equal(out[one], inp[one]):
        return False
    many = inp.sum(axis=1) > 1
    if not np.all((out[many] & inp[many]).sum(axis=1) == 1):
        return False
    return True


def c12_hdd():
    for M in (2, 4, 8):
        for n in range(M, 17, M):
            for pat in itertools.product((0, 1), repeat=n):
                if n > 8 and hash((pat, M)) % 11:
                    continue
                for seed in (0, 1, 2):
                    np.random.seed(seed)
                    out = ppm.HDD(list(pat), M)
                    if not check('C12.HDD', isinstance(out, binary_sequence) and hdd_ok(pat, out.data, M), f'M={M} pat={pat} seed={seed}'):
                        return
    rng = np.random.default_rng(2)
    for M in ORDERS:
        for seed in range(5):
            np.random.seed(seed)
            pat = (rng.random(64 * M) < 1.5 / M).astype(int)
            for inp in [''.join(map(str, pat)), list(pat), tuple(pat), pat, pat.astype(bool), binary_sequence(pat)]:
                out = ppm.HDD(inp, M)
                check('C12.HDD.random', hdd_ok(pat, out.data, M), f'M={M} seed={seed} {type(inp)}')
            valid = expected_encoding(rng.integers(0, 2, 50 * int(np.log2(M))), M)
            check('C12.HDD.identity', np.array_equal(np.asarray(ppm.HDD(valid, M).data).astype(int), valid), f'M={M}')
    for M in (0, -1, -4, 3, 5, 6, 7, 12, 100):
        check('C12.HDD.reject_order', raises(ValueError, ppm.HDD, [0] * 840, M), f'M={M}')
        check('C12.SDD.reject_order', raises(ValueError, ppm.SDD, np.zeros(840 * gv.sps), M), f'M={M}')
    for M in (2, 4, 8, 16):
        check('C12.HDD.reject_length', raises(ValueError, ppm.HDD, [0] * (3 * M + 1), M), f'M={M}')
        check('C12.SDD.reject_length', raises(ValueError, ppm.SDD, np.zeros((3 * M + 1) * gv.sps), M), f'M={M}')
        check('C12.SDD.reject_length', raises(ValueError, ppm.SDD, np.zeros(3 * M * gv.sps + 1), M), f'M={M} partial slot')


def c12_sdd():
    rng = np.random.default_rng(3)
    for sps in (4, 7, 16, 33, 64):
        gv(sps=sps, R=1e9)
        for M in (2, 4, 8, 16, 64, 256):
            nsym = 12
            x = rng.normal(0, 1, nsym * M * sps)
            energy = x.reshape(-1, sps).sum(axis=1).reshape(-1, M)
            exp = np.zeros((nsym, M), dtype=int)
            exp[np.arange(nsym), energy.argmax(axis=1)] = 1
            for inp in (x, electrical_signal(x), electrical_signal(x * 0.5, x * 0.5)):
                out = ppm.SDD(inp, M)
                check('C12.SDD.argmax', isinstance(out, binary_sequence) and np.array_equal(np.asarray(out.data).astype(int), exp.ravel()), f'M={M} sps={sps}')
            cw = expected_encoding(rng.integers(0, 2, nsym * int(np.log2(M))), M)
            for shape in ('nrz', 'gaussian', 'rect'):
                try:
                    w = DAC(cw, pulse_shape=shape)
                except Exception:
                    continue
                out = ppm.SDD(w, M)
                check('C12.SDD.identity', np.array_equal(np.asarray(out.data).astype(int), cw), f'M={M} sps={sps} {shape}')
    gv(sps=16, R=1e9)


# ----------------------------------------------------------------------------- C13
def ook_err(r, mu, s0, s1):
    return 0.5 * (norm.sf((mu - r) / s1) + norm.sf(r / s0))


def c13_ook_theory():
    rng = np.random.default_rng(4)
    for _ in range(300):
        s = 10 ** rng.uniform(-3, 1)
        mu = s * rng.uniform(0.05, 20)
        v = float(ook.theory_BER(mu, s, s))
        ref = norm.sf(mu / 2 / s)
        grid = np.linspace(0, mu, 1000)
        coarse = ook_err(grid, mu, s, s).min()
        check('C13.ook.equal_sigma', ref * (1 - 1e-9) - 1e-300 <= v <= coarse * (1 + 1e-9) + 1e-300, f'mu={mu} s={s} v={v} ref={ref}')
    for _ in range(300):
        s0, s1 = 10 ** rng.uniform(-3, 1, 2)
        mu = max(s0, s1) * rng.uniform(0.05, 20)
        v = float(ook.theory_BER(mu, s0, s1))
        grid = np.linspace(0, mu, 1000)
        vals = ook_err(grid, mu, s0, s1)
        coarse = vals.min()
        i = int(vals.argmin())
        lo, hi = grid[max(i - 1, 0)], grid[min(i + 1, 999)]
        true = min(minimize_scalar(ook_err, bounds=(lo, hi), args=(mu, s0, s1), method='bounded', options={'xatol': 1e-14 * mu}).fun, coarse)
        check('C13.ook.grid_min', true * (1 - 1e-9) - 1e-300 <= v <= coarse * (1 + 1e-9) + 1e-300, f'mu={mu} s0={s0} s1={s1} v={v} true={true} coarse={coarse}')
        check('C13.ook.bound', v <= 0.5 + 1e-12, f'{v}')
    mus = np.linspace(0.01, 20, 200)
    for s0, s1 in ((1, 1), (0.3, 1), (1, 0.2)):
        v = ook.theory_BER(mus * max(s0, s1), s0, s1)
        check('C13.ook.vectorise', isinstance(v, np.ndarray) and v.shape == mus.shape and np.allclose(v, [float(ook.theory_BER(m * max(s0, s1), s0, s1)) for m in mus], rtol=1e-12, atol=0), '')
        check('C13.ook.monotone', np.all(np.diff(v) <= 1e-15), f's0={s0} s1={s1}')
    v = ook.theory_BER(np.array([1.0, 2.0, 3.0]), np.array([0.1, 0.3, 0.2]), np.array([0.2, 0.1, 0.5]))
    check('C13.ook.vectorise.elementwise', np.allclose(v, [float(ook.theory_BER(1.0, 0.1, 0.2)), float(ook.theory_BER(2.0, 0.3, 0.1)), float(ook.theory_BER(3.0, 0.2, 0.5))], rtol=1e-12, atol=0), '')


def c13_ppm_theory():
    rng = np.random.default_rng(5)
    for _ in range(60):
        s0, s1 = 10 ** rng.uniform(-2, 0.5, 2)
        mu = max(s0, s1) * rng.uniform(0.05, 12)
        v = float(ppm.theory_BER(mu, s0, s1, 2, 'soft'))
        ref = norm.sf(mu / np.hypot(s0, s1))
        check('C13.ppm.soft_M2', abs(v - ref) <= 1e-7 * ref + 3e-8, f'mu={mu} s0={s0} s1={s1} v={v} ref={ref}')
    for M in ORDERS:
        for _ in range(6):
            s0, s1 = 10 ** rng.uniform(-1, 0.3, 2)
            mus = np.sort(max(s0, s1) * rng.uniform(0.05, 10, 8))
            soft = ppm.theory_BER(mus, s0, s1, M, 'soft')
            hard = ppm.theory_BER(mus, s0, s1, M, 'hard')
            bound = M / (2 * (M - 1))
            check('C13.ppm.soft_le_hard', np.all(soft <= hard * (1 + 1e-7) + 1e-10), f'M={M} s0={s0} s1={s1}')
            check('C13.ppm.bound', np.all(soft <= bound + 1e-9) and np.all(hard <= bound + 1e-9), f'M={M}')
            check('C13.ppm.monotone', np.all(np.diff(soft) <= 1e-9) and np.all(np.diff(hard) <= 1e-12), f'M={M}')
            check('C13.ppm.vectorise', np.allclose(hard, [float(ppm.theory_BER(m, s0, s1, M, 'hard')) for m in mus], rtol=1e-12, atol=0)
                  and np.allclose(soft, [float(ppm.theory_BER(m, s0, s1, M, 'soft')) for m in mus], rtol=1e-9, atol=1e-12), f'M={M}')
    check('C13.ppm.reject_order', raises(ValueError, ppm.theory_BER, 1, 0.1, 0.1, 5, 'hard'), '')


def c13_estimators():
    rng = np.random.default_rng(6)
    for _ in range(150):
        s0 = 10 ** rng.uniform(-2, 0)
        s1 = s0 * 2 ** rng.uniform(-2, 2)
        d = min(s0, s1) * rng.uniform(1, 20)
        mu0 = rng.uniform(-2, 2)
        e0 = eye(mu0=0.0, mu1=d, s0=s0, s1=s1)
        e1 = eye(mu0=mu0, mu1=mu0 + d, s0=s0, s1=s1)
        step = d / 999

        th = ook.THRESHOLD_EST(e1)
        check('C13.ook.threshold.range', mu0 <= th <= mu0 + d, f'{th}')
        ref = optimum_threshold(mu0, mu0 + d, s0 ** 2, s1 ** 2, 'ook')
        if mu0 < ref < mu0 + d:
            check('C13.ook.threshold.root', abs(th - ref) <= step, f'th={th} ref={ref} step={step}')
        es = eye(mu0=mu0, mu1=mu0 + d, s0=s0, s1=s0)
        check('C13.ook.threshold.midpoint', abs(ook.THRESHOLD_EST(es) - (mu0 + d / 2)) <= step, '')
        b0 = ook.BER_analizer('estimator', eye_obj=e0)
        b1 = ook.BER_analizer('estimator', eye_obj=e1)
        t = float(ook.theory_BER(d, s0, s1))
        g = np.linspace(0, d, 1000)
        gv_ = ook_err(g, d, s0, s1)
        i = int(gv_.argmin())
        true = min(minimize_scalar(ook_err, bounds=(g[max(i - 1, 0)], g[min(i + 1, 999)]), args=(d, s0, s1), method='bounded', options={'xatol': 1e-14 * d}).fun, gv_.min())
        slack = (gv_.min() - true) + 1e-9 * t + 1e-300
        check('C13.ook.estimator.shift', abs(b0 - b1) <= slack + 1e-6 * b0, f'{b0} {b1}')
        check('C13.ook.estimator.theory', abs(b0 - t) <= slack and b0 >= true * (1 - 1e-9), f'{b0} {t} {true}')

        for M in (2, 4, 16, 256):
            th = ppm.THRESHOLD_EST(e1, M)
            check('C13.ppm.threshold.range', mu0 <= th <= mu0 + d, f'{th}')
            grid = np.linspace(mu0, mu0 + d, 1000)
            f = lambda r: 1 - norm.sf((r - mu0 - d) / s1) * norm.cdf((r - mu0) / s0) ** (M - 1)
            check('C13.ppm.threshold.optimal', f(th) <= f(grid).min() + 1e-14, f'M={M} th={th} d={d} s0={s0} s1={s1}')
            for dec, alt in (('hard', 'Hard'), ('soft', 'SOFT')):
                b0 = ppm.BER_analizer('estimator', eye_obj=e0, M=M, decision=dec)
                b1 = ppm.BER_analizer('estimator', eye_obj=e1, M=M, decision=dec)
                b2 = ppm.BER_analizer('estimator', eye_obj=e1, M=M, decision=alt)
                t = float(ppm.theory_BER(d, s0, s1, M, dec))
                check('C13.ppm.estimator.theory', abs(b0 - t) <= 1e-6 * t + 1e-9, f'M={M} {dec} {b0} {t}')
                check('C13.ppm.estimator.shift', abs(b0 - b1) <= 1e-6 * t + 1e-9, f'M={M} {dec} {b0} {b1}')
                check('C13.ppm.estimator.case', b1 == b2, f'M={M} {alt}')
    e = eye(mu0=0.0, mu1=1.0, s0=0.1, s1=0.1)
    check('C13.ppm.estimator.default_soft_or_hard', ppm.BER_analizer('estimator', eye_obj=e, M=4) <= float(ppm.theory_BER(1.0, 0.1, 0.1, 4, 'hard')) * (1 + 1e-9), '')
    check('C13.ppm.estimator.reject', raises(ValueError, ppm.BER_analizer, 'estimator', eye_obj=e, M=4, decision='hi'), '')


# ----------------------------------------------------------------------------- C03
def link(bits, sps, shape, two_pol=False, Vpi=5.0, P=1e-3, r=1.0, R_load=50.0, bw=0.8, pol='x'):
    gv(sps=sps, R=1e9)
    v = DAC(bits, Vout=Vpi, pulse_shape=shape)
    if two_pol:
        cw = optical_signal(np.ones((2, v.len())) * np.sqrt(P / 2))
    else:
        cw = optical_signal(np.ones(v.len()) * np.sqrt(P))
    o = MZM(cw, v, bias=Vpi, Vpi=Vpi, ER_dB=20.0, pol=pol)
    return PD(o, BW=bw * gv.R, r=r, R_load=R_load, include_noise='ase-only', i_dark=0)


def c03_counter():
    rng = np.random.default_rng(7)
    for mod in (ook, ppm):
        for n in (32, 100, 1000):
            tx = rng.integers(0, 2, n)
            for k in (0, 1, 7, n // 2, n):
                rx = tx.copy()
                idx = rng.choice(n, k, replace=False)
                rx[idx] ^= 1
                exp = k / n
                forms = [(tx, rx), (binary_sequence(tx), binary_sequence(rx)), (binary_sequence(tx), rx), (tx, binary_sequence(rx)),
                         (list(tx), tuple(rx)), (''.join(map(str, tx)), binary_sequence(rx))]
                for a, b in forms:
                    try:
                        got = mod.BER_analizer('counter', Tx=a, Rx=b)
                    except Exception as e:
                        got = repr(e)
                    check('C03.counter', got == exp, f'{mod.__name__} n={n} k={k} {type(a).__name__}/{type(b).__name__} got={got}')


def c03_dsp():
    rng = np.random.default_rng(8)
    cases = [(16, 'nrz', False, 'x'), (8, 'gaussian', False, 'x'), (9, 'nrz', True, 'x'), (32, 'gaussian', True, 'y'), (5, 'nrz', False, 'x'), (64, 'nrz', False, 'x')]
    for sps, shape, two, pol in cases:
        for kind in ('prbs', 'random'):
            if kind == 'prbs':
                bits = np.asarray(PRBS(order=7).data).astype(int)
            else:
                bits = rng.integers(0, 2, 256)
            y = link(bits, sps, shape, two, pol=pol, P=10 ** rng.uniform(-5, -2), r=rng.uniform(0.5, 1), R_load=10 ** rng.uniform(1, 3))
            rx, e, th = ook.DSP(y)
            check('C03.ook.DSP', np.array_equal(np.asarray(rx.data).astype(int), bits), f'sps={sps} {shape} two={two} {kind}')
            check('C03.ook.DSP.counter', ook.BER_analizer('counter', Tx=bits, Rx=rx) == 0, f'sps={sps}')
            mid = SAMPLE_MID(y, sps, bits)
            check('C03.link.midpoint', mid, f'sps={sps} {shape} two={two} {kind}')
    for sps, shape, two, pol in cases[:4]:
        for M in (2, 4, 8, 16):
            k = int(np.log2(M))
            bits = rng.integers(0, 2, 96 * k)
            sym = ppm.PPM_ENCODER(bits, M)
            y = link(sym, sps, shape, two, pol=pol)
            for dec in ('soft', 'hard'):
                rx = ppm.DSP(y, M, decision=dec)
                check('C03.ppm.DSP', np.array_equal(np.asarray(rx.data).astype(int), bits), f'sps={sps} {shape} M={M} {dec}')
                check('C03.ppm.DSP.counter', ppm.BER_analizer('counter', Tx=bits, Rx=rx) == 0, f'sps={sps} M={M}')
            rx = ppm.DSP(y, M)
            check('C03.ppm.DSP.default', np.array_equal(np.asarray(rx.data).astype(int), bits), f'sps={sps} {shape} M={M}')
    gv(sps=16, R=1e9)


def SAMPLE_MID(y, sps, bits):
    s = np.asarray(y.signal).real
    if y.noise is not None:
        s = s + np.asarray(y.noise).real
    samp = s[sps // 2::sps]
    thr = 0.5 * (samp.max() + samp.min())
    return np.array_equal((samp > thr).astype(int), np.asarray(bits).astype(int))


# ----------------------------------------------------------------------------- optional features
def features():
    e = eye(mu0=0.0, mu1=1.0, s0=0.1, s1=0.12)
    for alt, dec in (('hdd', 'hard'), ('SDD', 'soft')):
        try:
            v = ppm.BER_analizer('estimator', eye_obj=e, M=8, decision=alt)
        except ValueError:
            print('skip: decision spelling', alt)
            continue
        check('feature.decision_spelling', v == ppm.BER_analizer('estimator', eye_obj=e, M=8, decision=dec), alt)
    tx = np.array([0, 1, 1, 0, 1, 0, 0, 1, 1, 1])
    rx = np.array([1, 0, 1, 0, 1, 0, 0, 1, 1, 0])
    base = ook.BER_analizer('counter', Tx=tx, Rx=binary_sequence(rx))
    check('feature.skip.absent', base == 0.3, f'{base}')
    got = ook.BER_analizer('counter', Tx=tx, Rx=binary_sequence(rx), skip=2)
    if got == base:
        print('skip: counter skip option')
    else:
        check('feature.skip', got == 1 / 8, f'{got}')
        check('feature.skip.zero', ook.BER_analizer('counter', Tx=binary_sequence(tx), Rx=rx, skip=0) == 0.3, '')
    for f in (ppm.PPM_ENCODER, ppm.PPM_DECODER):
        for M in (3, 6, 12):
            try:
                f([0, 1] * 12, M)
                print('skip: order validation in', f.__name__, M)
            except ValueError:
                pass
            except Exception as ex:
                print('note:', f.__name__, M, type(ex).__name__)


def main():
    gv(sps=16, R=1e9)
    c12_encoder_decoder()
    c12_hdd()
    c12_sdd()
    c13_ook_theory()
    c13_ppm_theory()
    c13_estimators()
    c03_counter()
    c03_dsp()
    features()
    if FAILS:
        print(f'{len(FAILS)} clause checks failed; first: {FAILS[0]}')
        sys.exit(1)
    print('PASS')


if __name__ == '__main__':
    main()
