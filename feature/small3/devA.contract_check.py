import sys, os

if sys.path and os.path.abspath(sys.path[0] or os.getcwd()) == os.path.dirname(os.path.abspath(__file__)):
    sys.path.pop(0)

import inspect
import warnings
import numpy as np

from opticomlib import gv, binary_sequence, electrical_signal, optical_signal
from opticomlib.devices import PRBS, DAC, LASER, PM, MZM, SAMPLER

FAILS = []


def check(cond, clause):
    if not cond:
        FAILS.append(clause)
        print("FAIL:", clause)
        if len(FAILS) > 20:
            sys.exit(1)


def raises(exc, f, *a, **k):
    try:
        with warnings.catch_warnings():
            warnings.simplefilter("ignore")
            f(*a, **k)
    except exc:
        return True
    except Exception:
        return False
    return False


# ----------------------------------------------------------------- C04
TAPS = {7: 6, 9: 5, 11: 9, 15: 14, 20: 3, 23: 18, 31: 28}


def ref_prbs(n, seed, length):
    t = TAPS[n]
    s = seed % (1 << n)
    if s == 0:
        s = 1
    a = [(s >> j) & 1 for j in range(n - 1, -1, -1)]  # a[-(n-1)] .. a[0]
    while len(a) < n - 1 + length:
        a.append(a[-n] ^ a[-t])
    return np.array(a[n - 1 : n - 1 + length], dtype=np.uint8)


def c04():
    rng = np.random.default_rng(404)
    for n in TAPS:
        seeds = [1, (1 << n) - 1, 2, 1 << (n - 1), -1, -5, (1 << n) + 3, 3 * (1 << n) + 77, -(1 << (n + 2)) + 9]
        seeds += [int(rng.integers(1, 1 << n)) for _ in range(6)]
        seeds += [int(rng.integers(-(1 << 40), 1 << 40)) for _ in range(4)]
        for s in seeds:
            if s % (1 << n) == 0:
                continue
            L = int(rng.integers(1, 400))
            with warnings.catch_warnings():
                warnings.simplefilter("error")
                out = PRBS(n, len=L, seed=s)
            check(isinstance(out, binary_sequence), f"C04 PRBS{n} returns binary_sequence")
            check(out.len() == L and np.array_equal(out.data, ref_prbs(n, s, L)), f"C04 PRBS{n} recurrence seed={s} len={L}")
            # resumption, any split
            cuts = sorted(set(int(c) for c in rng.integers(1, L, size=3))) if L > 1 else []
            parts, state, prev = [], s, 0
            for c in cuts + [L]:
                if c == prev:
                    continue
                o, state = PRBS(n, len=c - prev, seed=state, return_seed=True)
                parts.append(o.data)
                prev = c
            check(np.array_equal(np.concatenate(parts), out.data), f"C04 PRBS{n} resumption seed={s} len={L} cuts={cuts}")
        # default seed / default length
        o = PRBS(n, len=50)
        check(np.array_equal(o.data, ref_prbs(n, (1 << n) - 1, 50)), f"C04 PRBS{n} default seed")
        # zero seeds
        for z in (0, 1 << n, -(1 << n), 5 * (1 << n)):
            with warnings.catch_warnings(record=True) as w:
                warnings.simplefilter("always")
                o = PRBS(n, len=40, seed=z)
            check(len(w) >= 1, f"C04 PRBS{n} seed={z} warns")
            check(np.array_equal(o.data, ref_prbs(n, 1, 40)), f"C04 PRBS{n} seed={z} replaced by 1")
        check(raises((TypeError, ValueError), PRBS, n, len=0), f"C04 PRBS{n} len=0 rejected")
        check(raises((TypeError, ValueError), PRBS, n, len=-3), f"C04 PRBS{n} len<0 rejected")
        check(raises((TypeError, ValueError), PRBS, n, len=2.5), f"C04 PRBS{n} len float rejected")
        check(raises((TypeError, ValueError), PRBS, n, len="20"), f"C04 PRBS{n} len str rejected")
    for bad in (0, 1, 8, 10, 13, 32, -7):
        check(raises(ValueError, PRBS, bad, len=10), f"C04 order={bad} raises ValueError")

    # full periods
    for n in (7, 9, 11, 15, 20):
        P = (1 << n) - 1
        s = int(rng.integers(1, 1 << n))
        o, st = PRBS(n, len=P, seed=s, return_seed=True)
        check(st == s, f"C04 PRBS{n} state returns to the seed after 2^n-1")
        check(int(o.data.sum()) == 1 << (n - 1), f"C04 PRBS{n} ones per period")
        # visits every non-zero state once: windows of n bits all distinct
        d = np.concatenate([o.data, o.data[: n - 1]]).astype(np.int64)
        code = np.zeros(P, dtype=np.int64)
        for j in range(n):
            code = (code << 1) | d[j : j + P]
        check(np.unique(code).size == P and code.min() > 0, f"C04 PRBS{n} visits all non-zero states")
    if PRBS(7).len() != 127:
        check(False, "C04 PRBS7 default length")
    if hasattr(PRBS(7, len=5), "state"):
        o = PRBS(9, len=33, seed=77)
        o2, st = PRBS(9, len=33, seed=77, return_seed=True)
        check(o.state == st and o2.state == st, "feature: PRBS .state equals the returned seed")
        check(np.array_equal(PRBS(9, len=10, seed=o.state).data, ref_prbs(9, 77, 43)[33:]), "feature: PRBS .state resumes")


# ----------------------------------------------------------------- C05
def fwhm(y):
    h = y.max() / 2
    idx = np.where(y >= h)[0]
    i0, i1 = idx[0], idx[-1]
    left = i0 - (y[i0] - h) / (y[i0] - y[i0 - 1])
    right = i1 + (y[i1] - h) / (y[i1] - y[i1 + 1])
    return right - left


def c05():
    rng = np.random.default_rng(505)
    sps_list = [2, 3, 4, 5, 7, 8, 9, 15, 16, 31, 32, 33, 64, 127, 128] + [int(v) for v in rng.integers(2, 129, size=6)]
    for sps in sps_list:
        gv(sps=sps, R=1e9)
        for rep in range(4):
            nb = int(rng.integers(1, 40))
            bits = rng.integers(0, 2, size=nb)
            forms = [
                " ".join(str(b) for b in bits),
                [int(b) for b in bits],
                bits.astype(np.int64),
                bits.astype(bool),
                binary_sequence(bits),
                tuple(int(b) for b in bits),
            ]
            Vout = float(rng.uniform(-47.9, 47.9))
            bias = float(rng.uniform(-47.9, 47.9))
            if rep == 0:
                Vout, bias = 3, -2  # python ints
            form = forms[rep % len(forms)] if rep else forms[int(rng.integers(0, len(forms)))]
            ref = np.repeat(bits, sps) * Vout + bias
            for shape in ("nrz", "rect"):
                x = DAC(form, Vout=Vout, bias=bias, pulse_shape=shape)
                check(isinstance(x, electrical_signal) and x.len() == nb * sps, f"C05 DAC {shape} length sps={sps}")
                check(np.array_equal(x.signal, ref), f"C05 DAC {shape} slot values sps={sps} Vout={Vout} bias={bias}")
            mask = np.tile(np.r_[np.ones(sps // 2), np.zeros(sps - sps // 2)], nb)
            refrz = np.repeat(bits, sps) * mask * Vout + bias
            x = DAC(form, Vout=Vout, bias=bias, pulse_shape="rz")
            check(x.len() == nb * sps and np.array_equal(x.signal, refrz), f"C05 DAC rz slot values sps={sps}")
            # all forms identical
            outs = [DAC(f, Vout=Vout, bias=bias).signal for f in forms]
            check(all(np.array_equal(outs[0], o) for o in outs), f"C05 DAC input forms agree sps={sps}")
            # SAMPLER inversion
            Vp = abs(Vout) + 0.01 if abs(Vout) + 0.01 < 48 else 47.0
            th = bias + Vp / 2
            xn = DAC(form, Vout=Vp, bias=bias, pulse_shape="nrz")
            xr = DAC(form, Vout=Vp, bias=bias, pulse_shape="rz")
            noise = rng.normal(size=nb * sps)
            xnn = electrical_signal(xn.signal, noise)
            for k in range(sps):
                for kk in (k, np.int64(k)) if k % 7 == 0 else (k,):
                    y = SAMPLER(xn, kk)
                    check(isinstance(y, electrical_signal) and np.array_equal(y.signal, xn.signal[k::sps]), f"C05 SAMPLER samples k={k} sps={sps}")
                    check(np.array_equal((y.signal > th).astype(int), bits), f"C05 SAMPLER inverts NRZ k={k} sps={sps}")
                y = SAMPLER(xnn, k)
                check(np.array_equal(y.signal, xn.signal[k::sps]) and y.noise is not None and np.array_equal(y.noise, noise[k::sps]), f"C05 SAMPLER noise k={k} sps={sps}")
                if k < sps // 2:
                    y = SAMPLER(xr, k)
                    check(np.array_equal((y.signal > th).astype(int), bits), f"C05 SAMPLER inverts RZ k={k} sps={sps}")
        # Gaussian
        if sps >= 8:
            Ts = sorted(set([-(-sps // 2), sps, 2 * sps] + [int(v) for v in rng.integers(-(-sps // 2), 2 * sps + 1, size=3)]))
            for T in Ts:
                for m in (1, 2, 3, 4):
                    Vout = float(rng.uniform(0.5, 47.9)) * (1 if rng.random() < 0.7 else -1)
                    bias = float(rng.uniform(-47.9, 47.9))
                    x = DAC("0 0 0 0 1 0 0 0 0", Vout=Vout, bias=bias, pulse_shape="gaussian", T=T, m=m, c=float(rng.uniform(-2, 2)) if m == 1 else 0.0)
                    check(x.len() == 9 * sps, f"C05 DAC gaussian length sps={sps}")
                    y = (np.real(x.signal) - bias) / Vout
                    centre = 4 * sps + sps / 2
                    pk = np.where(y >= y.max() * (1 - 1e-9))[0]
                    check(np.min(np.abs(pk - centre)) <= 1.0 + 1e-9, f"C05 gaussian peak at slot centre sps={sps} T={T} m={m}")
                    check(abs(y.max() - 1) <= 0.05, f"C05 gaussian peak reaches Vout within 5% sps={sps} T={T} m={m}: {y.max()}")
                    check(abs(fwhm(np.abs((x.signal - bias) / Vout)) - T) <= 1.0 + 1e-9, f"C05 gaussian FWHM within one sample of T sps={sps} T={T} m={m}: {fwhm(y)}")
            # inversion at k = sps//2 with default T
            bits = rng.integers(0, 2, size=30)
            x = DAC(bits, Vout=2.0, bias=-1.0, pulse_shape="gaussian")
            y = SAMPLER(x, sps // 2)
            check(np.array_equal((np.real(y.signal) > 0.0).astype(int), bits), f"C05 SAMPLER inverts gaussian sps={sps}")
    gv(sps=16, R=1e9)
    x = DAC("0 1 1 0")
    if raises(ValueError, SAMPLER, x, 16):
        check(raises(ValueError, SAMPLER, x, -1), "feature: SAMPLER rejects a negative instant")
        check(raises(TypeError, SAMPLER, x, 7.0), "feature: SAMPLER rejects a float instant")
        check(np.array_equal(SAMPLER(x, np.int32(15)).signal, x.signal[15::16]), "feature: SAMPLER accepts numpy integers up to sps-1")
    check(raises(TypeError, DAC, "010", Vout="5"), "C05 Vout str TypeError")
    check(raises(TypeError, DAC, "010", Vout=1 + 1j), "C05 Vout complex TypeError")
    check(raises(TypeError, DAC, "010", Vout=[1.0]), "C05 Vout list TypeError")
    check(raises(TypeError, DAC, "010", bias=1 + 1j), "C05 bias complex TypeError")
    check(raises(TypeError, DAC, "010", bias="1"), "C05 bias str TypeError")
    for v in (48, -48, 50, -1e3):
        check(raises(ValueError, DAC, "010", Vout=v), f"C05 Vout={v} ValueError")
        check(raises(ValueError, DAC, "010", bias=v), f"C05 bias={v} ValueError")
    check(raises(ValueError, DAC, "010", pulse_shape="gaussian", T=0), "C05 T=0 ValueError")
    check(raises(ValueError, DAC, "010", pulse_shape="gaussian", T=-4), "C05 T<0 ValueError")
    check(raises(ValueError, DAC, "010", pulse_shape="gaussian", T=2 * 16 + 1), "C05 T>2sps ValueError")
    check(raises(TypeError, DAC, "010", pulse_shape="gaussian", T=8.5), "C05 T float TypeError")
    check(raises(TypeError, DAC, "010", pulse_shape="gaussian", m=1.5), "C05 m float TypeError")
    check(raises(ValueError, DAC, "010", pulse_shape="gaussian", m=0), "C05 m=0 ValueError")
    check(raises(ValueError, DAC, "010", pulse_shape="gaussian", m=-2), "C05 m<0 ValueError")
    check(raises(TypeError, DAC, "010", pulse_shape="gaussian", c=1 + 1j), "C05 c complex TypeError")
    check(raises(TypeError, DAC, "010", pulse_shape="gaussian", c="0"), "C05 c str TypeError")
    for ps in ("triangle", "", "sinc", None):
        check(raises(ValueError, DAC, "010", pulse_shape=ps), f"C05 pulse_shape={ps!r} ValueError")


# ----------------------------------------------------------------- C06
def rand_field(rng, N, npol, noise):
    shp = (N,) if npol == 1 else (2, N)
    s = rng.normal(size=shp) + 1j * rng.normal(size=shp)
    if noise == "zero-sum":
        n = rng.normal(size=shp) + 1j * rng.normal(size=shp)
        n = n - n.mean(axis=-1, keepdims=True)
        n[..., -1] -= n.sum(axis=-1)
        return optical_signal(s, n)
    if noise:
        return optical_signal(s, 0.1 * (rng.normal(size=shp) + 1j * rng.normal(size=shp)))
    return optical_signal(s)


def close(a, b, tol=1e-12):
    a, b = np.asarray(a), np.asarray(b)
    return a.shape == b.shape and np.all(np.abs(a - b) <= tol * (1 + np.abs(b)))


def c06():
    rng = np.random.default_rng(606)
    gv(sps=16, R=1e9)
    for it in range(150):
        N = int(rng.integers(2, 200))
        npol = 1 + it % 2
        noise = [False, True, "zero-sum"][it % 3]
        x = rand_field(rng, N, npol, noise)
        sig0 = x.signal.copy()
        noi0 = None if x.noise is None else x.noise.copy()
        Vpi = float(rng.uniform(0.1, 20))
        bias = float(rng.uniform(-30, 30))
        loss_dB = float(rng.choice([0.0, rng.uniform(0, 20)]))
        ER = float(rng.choice([0.0, 60.0, rng.uniform(0, 60)]))
        pol = "xy"[int(rng.integers(0, 2))]
        u = rng.uniform(-30, 30, size=N)
        if it % 5 == 0:
            u = rng.integers(-20, 20, size=N)
        theta = np.pi * (u + bias) / (2 * Vpi)
        H = np.sqrt(10 ** (-loss_dB / 10)) * (np.cos(theta) + 1j * 10 ** (-ER / 20) * np.sin(theta))
        y = MZM(x, u, bias=bias, Vpi=Vpi, loss_dB=loss_dB, ER_dB=ER, pol=pol)
        check(isinstance(y, optical_signal) and y.signal.shape == sig0.shape, "C06 MZM output shape")
        check(np.array_equal(x.signal, sig0) and (noi0 is None or np.array_equal(x.noise, noi0)), "C06 MZM leaves its input intact")
        ref = sig0 * H
        refn = None if noi0 is None else noi0 * H
        if npol == 2:
            off = 1 if pol == "x" else 0
            ref[off] = 0
            check(np.all(y.signal[off] == 0), "C06 MZM unselected polarisation extinguished")
            if refn is not None:
                refn[off] = 0
                check(np.all(y.noise[off] == 0), "C06 MZM unselected polarisation noise extinguished")
        check(close(y.signal, ref), "C06 MZM transfer function")
        check(np.all(np.abs(y.signal) <= np.sqrt(10 ** (-loss_dB / 10)) * np.abs(sig0) * (1 + 1e-12) + 1e-300), "C06 MZM never amplifies")
        if noi0 is not None:
            check(y.noise is not None and close(y.noise, refn), "C06 MZM noise modulated like the signal")
        else:
            check(y.noise is None or not np.any(y.noise), "C06 MZM creates no noise")
        y2 = MZM(x, electrical_signal(u), bias=bias, Vpi=Vpi, loss_dB=loss_dB, ER_dB=ER, pol=pol)
        check(np.array_equal(y2.signal, y.signal), "C06 MZM electrical_signal drive identical")
        # 2Vpi periodic power
        y3 = MZM(x, u + 2 * Vpi * int(rng.integers(-3, 4)), bias=bias, Vpi=Vpi, loss_dB=loss_dB, ER_dB=ER, pol=pol)
        check(np.allclose(np.abs(y3.signal) ** 2, np.abs(y.signal) ** 2, rtol=1e-9, atol=1e-12), "C06 MZM power 2Vpi-periodic")
        # scalar drive == constant array == electrical_signal
        us = float(rng.uniform(-30, 30))
        ya = MZM(x, us, bias=bias, Vpi=Vpi, loss_dB=loss_dB, ER_dB=ER, pol=pol)
        yb = MZM(x, np.full(N, us), bias=bias, Vpi=Vpi, loss_dB=loss_dB, ER_dB=ER, pol=pol)
        yc = MZM(x, np.float64(us), bias=bias, Vpi=Vpi, loss_dB=loss_dB, ER_dB=ER, pol=pol)
        check(close(ya.signal, yb.signal, 1e-14) and close(yc.signal, yb.signal, 1e-14), "C06 MZM scalar drive identical")
        check(raises(ValueError, MZM, x, np.zeros(N + 1)), "C06 MZM mismatched ndarray ValueError")
        check(raises(ValueError, MZM, x, electrical_signal(np.zeros(N + 3))), "C06 MZM mismatched electrical_signal ValueError")
        # on/off ratio
        one = optical_signal(np.ones(4))
        on = MZM(one, 0.0, bias=0.0, Vpi=Vpi, loss_dB=loss_dB, ER_dB=ER)
        offs = MZM(one, Vpi, bias=0.0, Vpi=Vpi, loss_dB=loss_dB, ER_dB=ER)
        r = 10 * np.log10(np.abs(on.signal[0]) ** 2 / np.abs(offs.signal[0]) ** 2)
        check(abs(r - ER) < 1e-6, f"C06 MZM on/off ratio equals ER_dB ({r} vs {ER})")

        # ---- PM
        tot0 = sig0 if noi0 is None else sig0 + noi0
        rot = np.exp(1j * np.pi * u / Vpi)
        p = PM(x, u, Vpi=Vpi)
        check(isinstance(p, optical_signal) and p.signal.shape == sig0.shape, "C06 PM output shape")
        check(np.array_equal(x.signal, sig0) and (noi0 is None or np.array_equal(x.noise, noi0)), "C06 PM leaves its input intact")
        check(close(p.signal, sig0 * rot), "C06 PM phase shift pi*u/Vpi")
        if noi0 is not None:
            check(p.noise is not None and close(p.noise, noi0 * rot), "C06 PM rotates the noise")
            tot = p.signal + p.noise
        else:
            check(p.noise is None or not np.any(p.noise), "C06 PM creates no noise")
            tot = p.signal
        check(np.allclose(np.abs(tot) ** 2, np.abs(tot0) ** 2, rtol=1e-12, atol=0), "C06 PM leaves total instantaneous power unchanged")
        pe = PM(x, electrical_signal(u), Vpi=Vpi)
        check(np.array_equal(pe.signal, p.signal) and (noi0 is None or np.array_equal(pe.noise, p.noise)), "C06 PM electrical_signal drive identical")
        u2 = rng.uniform(-30, 30, size=N)
        pp = PM(PM(x, u, Vpi=Vpi), u2, Vpi=Vpi)
        ps = PM(x, u + u2, Vpi=Vpi)
        check(close(pp.signal, ps.signal, 1e-11) and (noi0 is None or close(pp.noise, ps.noise, 1e-11)), "C06 PM composes additively")
        scal = [us, int(round(us)), np.float64(us), np.float32(us), np.int64(round(us)), np.arange(5, dtype=np.int32)[3]]
        for sc in scal:
            a = PM(x, sc, Vpi=Vpi)
            b = PM(x, np.full(N, float(sc)), Vpi=Vpi)
            check(close(a.signal, b.signal, 1e-14) and (noi0 is None or close(a.noise, b.noise, 1e-14)), f"C06 PM scalar drive {type(sc).__name__} identical")
            check(close(a.signal, sig0 * np.exp(1j * np.pi * float(sc) / Vpi), 1e-12), f"C06 PM scalar drive {type(sc).__name__} phase")
        check(raises(ValueError, PM, x, np.zeros(N + 1)), "C06 PM mismatched ndarray ValueError")
        check(raises(ValueError, PM, x, electrical_signal(np.zeros(N + 2))), "C06 PM mismatched electrical_signal ValueError")
        check(raises(ValueError, PM, x, electrical_signal(np.zeros(max(N - 1, 1)))) or N == 1, "C06 PM shorter electrical_signal ValueError")
        # optional features
        if it < 10:
            try:
                pl = PM(x, [float(v) for v in u], Vpi=Vpi)
                check(close(pl.signal, p.signal, 1e-14), "feature: PM list drive equals ndarray drive")
                check(raises(ValueError, PM, x, [0.0] * (N + 1)), "feature: PM mismatched list ValueError")
            except TypeError:
                pass
            if "loss_dB" in inspect.signature(PM).parameters:
                pl = PM(x, u, Vpi=Vpi, loss_dB=3.0)
                check(close(pl.signal, p.signal * 10 ** (-3 / 20)), "feature: PM loss_dB attenuates")
                p0 = PM(x, u, Vpi=Vpi, loss_dB=0.0)
                check(np.array_equal(p0.signal, p.signal), "feature: PM loss_dB=0 is the pure rotation")

    # ---- LASER
    for it in range(40):
        sps = int(rng.choice([8, 16, 32]))
        R = float(rng.choice([1e9, 10e9]))
        gv(sps=sps, R=R)
        N = int(rng.integers(64, 4096))
        t = np.arange(N) * gv.dt
        p_dBm = float(rng.uniform(-30, 30))
        P = 1e-3 * 10 ** (p_dBm / 10)
        lw = [None, 0.0, float(10 ** rng.uniform(3, 8))][it % 3]
        kbin = int(rng.integers(-N // 2 + 1, N // 2))
        df = [None, 0.0, kbin * gv.fs / N, float(rng.uniform(-gv.fs / 2, gv.fs / 2))][it % 4]
        E = LASER(t, p_dBm, lw=lw, df=df)
        check(isinstance(E, optical_signal) and E.len() == N, "C06 LASER output")
        check(np.allclose(np.abs(E.signal) ** 2, P, rtol=1e-10, atol=0), "C06 LASER |E|^2 = P at every sample")
        check(E.noise is None or not np.any(E.noise), "C06 LASER no noise component")
        if not lw:
            f = np.fft.fftfreq(N, gv.dt)
            pk = f[np.argmax(np.abs(np.fft.fft(E.signal)))]
            check(abs(pk - (df or 0.0)) <= gv.fs / N * (0.5 + 1e-6), f"C06 LASER spectral peak at df ({pk} vs {df})")
            ref = np.sqrt(P) * np.exp(1j * 2 * np.pi * (df or 0.0) * t)
            check(close(E.signal, ref, 1e-9), "C06 LASER field is sqrt(P) exp(j 2 pi df t)")
        E = LASER(t, p_dBm, df=gv.fs / 2)
        check(np.allclose(np.abs(E.signal) ** 2, P, rtol=1e-10), "C06 LASER df = Nyquist accepted")
    gv(sps=16, R=1e9)


if __name__ == "__main__":
    only = sys.argv[1:]
    for name, f in (("c04", c04), ("c05", c05), ("c06", c06)):
        if only and name not in only:
            continue
        try:
            f()
        except Exception as ex:  # an unexpected exception inside the domain is a failure
            import traceback

            traceback.print_exc()
            FAILS.append(f"{name}: unexpected {type(ex).__name__}: {ex}")
    if FAILS:
        print("FAILED clauses:")
        for c in dict.fromkeys(FAILS):
            print("  -", c)
        sys.exit(1)
    print("PASS")
    sys.exit(0)
