import sys, os
_here = os.path.dirname(os.path.abspath(__file__))
if sys.path and os.path.abspath(sys.path[0] or '.') == _here:
    sys.path.pop(0)

import inspect
import signal as _signal
import warnings

import numpy as np
import scipy.signal as sg
from numpy.fft import fft, ifft, fftfreq, fftshift, ifftshift
from scipy.constants import k as kB, e as qe, h as hP

warnings.simplefilter('ignore')

from opticomlib import gv, optical_signal, electrical_signal
from opticomlib import devices as dv

FAIL = []


def check(cond, clause):
    if not bool(cond):
        if clause not in FAIL:
            FAIL.append(clause)
            print('FAIL:', clause, flush=True)


def close(a, b, rtol=1e-9, atol=0.0):
    a = np.asarray(a)
    b = np.asarray(b)
    if a.shape != b.shape:
        return False
    scale = max(np.abs(b).max(initial=0.0), np.abs(a).max(initial=0.0))
    return bool(np.all(np.isfinite(a))) and np.abs(a - b).max(initial=0.0) <= rtol * scale + atol


def set_fs(fs):
    gv(sps=16, R=fs / 16)


class _Timeout(Exception):
    pass


def _alarm(signum, frame):
    raise _Timeout()


_signal.signal(_signal.SIGALRM, _alarm)


def fiber(*a, **k):
    _signal.alarm(60)
    try:
        return dv.FIBER(*a, **k)
    finally:
        _signal.alarm(0)


def field(rng, N, n_pol, amp=1.0):
    x = amp * (rng.standard_normal((n_pol, N)) + 1j * rng.standard_normal((n_pol, N))) / np.sqrt(2)
    return x[0] if n_pol == 1 else x


def osig(x, noise=None):
    x = np.asarray(x)
    return optical_signal(x, noise, n_pol=1 if x.ndim == 1 else 2)


def lin_ref(x, fs, L=1.0, alpha_db=0.0, b2=0.0, b3=0.0):
    N = x.shape[-1]
    w = 2 * np.pi * fftfreq(N) * fs * 1e-12
    a = alpha_db * np.log(10) / 10
    H = np.exp(-a * L / 2 - 1j * b2 * L * w**2 / 2 - 1j * b3 * L * w**3 / 6)
    return ifft(fft(x, axis=-1) * H, axis=-1), H


HAS_D3 = 'D3' in inspect.signature(dv.DM).parameters


# ---------------------------------------------------------------- C07
def c07():
    rng = np.random.default_rng(707)
    for fs in (10e9, 64e9, 160e9, 1.234e12):
        set_fs(fs)
        for N in (17, 64, 257, 1000, 1023):
            for n_pol in (1, 2):
                x = field(rng, N, n_pol)
                X = osig(x)
                for D in (rng.uniform(-5000, 5000), -rng.uniform(1, 3e4), 12.5, 0.0):
                    y = dv.DM(X, D)
                    check(isinstance(y, optical_signal) and y.signal.shape == x.shape and y.n_pol == n_pol,
                          'C07 DM preserves length and polarisation layout')
                    check(close((np.abs(y.signal)**2).sum(-1), (np.abs(x)**2).sum(-1), 1e-11),
                          'C07 DM conserves energy')
                    ref, H = lin_ref(x, fs, 1.0, 0.0, D)
                    check(close(y.signal, ref, 1e-10), 'C07 DM is the filter exp(-j*D*w^2/2)')
                    back = dv.DM(y, -D)
                    check(close(back.signal, x, 1e-10), 'C07 DM(-D) undoes DM(D)')
                    D2 = rng.uniform(-3000, 3000)
                    check(close(dv.DM(dv.DM(X, D2), D).signal, dv.DM(X, D + D2).signal, 1e-10),
                          'C07 DM(D1) after DM(D2) equals DM(D1+D2)')
                    y2, Hret = dv.DM(X, D, retH=True)
                    check(close(y2.signal, y.signal, 1e-12), 'C07 DM retH returns the same output')
                    check(close(Hret, fftshift(H), 1e-10), 'C07 DM retH matches the filter applied')
                    check(close(ifft(fft(x, axis=-1) * ifftshift(Hret), axis=-1), y.signal, 1e-10),
                          'C07 DM retH matches the filter applied')
                # repaired: D held in an array is not consumed
                Darr = np.array([750.0])
                y_a = dv.DM(X, Darr)
                y_b = dv.DM(X, Darr)
                check(Darr[0] == 750.0 and close(y_a.signal, y_b.signal, 1e-13)
                      and close(y_a.signal, dv.DM(X, 750.0).signal, 1e-12),
                      'C07 DM leaves an array-held D intact (repeated call disperses again)')
                D0 = np.array(-420.0)
                dv.DM(X, D0)
                check(float(D0) == -420.0, 'C07 DM leaves an array-held D intact (repeated call disperses again)')

        # FIBER, gamma = 0
        for N in (33, 128, 255):
            for n_pol in (1, 2):
                x = field(rng, N, n_pol, amp=0.3)
                X = osig(x)
                for _ in range(3):
                    L = rng.uniform(0.5, 100)
                    al = rng.choice([0.0, rng.uniform(0, 0.5)])
                    b2 = rng.uniform(-25, 25)
                    b3 = rng.choice([0.0, rng.uniform(-0.2, 0.2)])
                    y = fiber(X, L, alpha=al, beta_2=b2, beta_3=b3)
                    ref, _ = lin_ref(x, fs, L, al, b2, b3)
                    check(isinstance(y, optical_signal) and y.signal.shape == x.shape and y.n_pol == n_pol,
                          'C07 FIBER preserves length and polarisation layout')
                    check(close(y.signal, ref, 1e-10), 'C07 FIBER(gamma=0) is the linear filter')
                    check(close((np.abs(y.signal)**2).mean(-1), (np.abs(x)**2).mean(-1) * 10**(-al * L / 10), 1e-10),
                          'C07 fibre output power is input power times 10^(-alpha*L/10)')
                    L2 = rng.uniform(0.5, 60)
                    two = fiber(fiber(X, L, alpha=al, beta_2=b2, beta_3=b3), L2, alpha=al, beta_2=b2, beta_3=b3)
                    one = fiber(X, L + L2, alpha=al, beta_2=b2, beta_3=b3)
                    check(close(two.signal, one.signal, 1e-10), 'C07 two spans equal one span of the summed length')
                    check(close(fiber(X, L, beta_2=b2).signal, dv.DM(X, b2 * L).signal, 1e-10),
                          'C07 FIBER(L, beta2) equals DM(beta2*L)')
                    if HAS_D3:
                        check(close(fiber(X, L, beta_2=b2, beta_3=b3).signal, dv.DM(X, b2 * L, D3=b3 * L).signal, 1e-10),
                              'C07 DM with D3 stays the all-pass exp(-j*b2L*w^2/2 - j*b3L*w^3/6)')
                        yd = dv.DM(X, b2 * L, D3=b3 * L)
                        check(close((np.abs(yd.signal)**2).sum(-1), (np.abs(x)**2).sum(-1), 1e-11),
                              'C07 DM conserves energy')
                # 50 dB of loss
                y = fiber(X, 100.0, alpha=0.5)
                check(close((np.abs(y.signal)**2).mean(-1), (np.abs(x)**2).mean(-1) * 1e-5, 1e-10),
                      'C07 fibre output power is input power times 10^(-alpha*L/10)')


# ---------------------------------------------------------------- C08
def pulses(rng, N, n_pol, peak, lead_zero=True):
    nb = max(N // 16, 2)
    t = np.arange(N)
    out = []
    for _ in range(n_pol):
        bits = rng.integers(0, 2, nb)
        if lead_zero:
            bits[0] = 0
        bits[1] = 1
        env = np.zeros(N)
        for kbit, b in enumerate(bits):
            if b:
                env += np.exp(-0.5 * ((t - (kbit + 0.5) * 16) / 4.0)**2)
        out.append(env.astype(complex))
    x = np.array(out)
    x *= np.sqrt(peak / n_pol) / np.abs(x).max()
    return x[0] if n_pol == 1 else x


def c08():
    rng = np.random.default_rng(808)
    for fs in (40e9, 160e9):
        set_fs(fs)
        for trial in range(10):
            N = int(rng.choice([64, 96, 128, 255]))
            n_pol = int(rng.choice([1, 2]))
            peak = rng.uniform(0.01, 0.5)
            if trial % 2:
                x = pulses(rng, N, n_pol, peak)
            else:
                x = field(rng, N, n_pol)
                ptot = (np.abs(np.atleast_2d(x))**2).sum(0).max()
                x = x * np.sqrt(peak / ptot)
                x[..., :3] = 0
            ppk = (np.abs(np.atleast_2d(x))**2).sum(0).max()
            L = rng.uniform(1, 100)
            gam = min(rng.uniform(0, 5), 10 / (ppk * L))
            al = rng.choice([0.0, rng.uniform(0, 0.5)])
            b2 = rng.uniform(-25, 25)
            b3 = rng.uniform(-0.2, 0.2)
            phi = float(rng.choice([5e-4, 2e-3, 0.01, 0.05, 0.1]))
            X = osig(x)
            y = fiber(X, L, alpha=al, beta_2=b2, beta_3=b3, gamma=gam, phi_max=phi)
            check(isinstance(y, optical_signal) and y.signal.shape == x.shape and np.all(np.isfinite(y.signal)),
                  'C08 FIBER returns a finite field of the input shape')
            check(close((np.abs(y.signal)**2).sum(-1), (np.abs(x)**2).sum(-1) * 10**(-al * L / 10), 1e-9),
                  'C08 energy per polarisation is input energy times 10^(-alpha*L/10)')
            # default phi_max too
            y = fiber(X, L, alpha=al, beta_2=b2, beta_3=b3, gamma=gam)
            check(close((np.abs(y.signal)**2).sum(-1), (np.abs(x)**2).sum(-1) * 10**(-al * L / 10), 1e-9),
                  'C08 energy per polarisation is input energy times 10^(-alpha*L/10)')

        # SPM closed form (one polarisation)
        for trial in range(8):
            N = 128
            peak = rng.uniform(0.05, 0.5)
            x = pulses(rng, N, 1, peak)
            L = rng.uniform(1, 100)
            gam = min(rng.uniform(0.2, 5), 10 / (peak * L))
            al = 0.0 if trial % 2 == 0 else rng.uniform(0.01, 0.5)
            a = al * np.log(10) / 10
            Leff = L if a == 0 else (1 - np.exp(-a * L)) / a
            ref = x * np.exp(-a * L / 2) * np.exp(1j * gam * np.abs(x)**2 * Leff)
            for phi in (0.1, 0.01, 1e-3):
                y = fiber(osig(x), L, alpha=al, gamma=gam, phi_max=phi)
                err = np.abs(y.signal - ref).max() / np.abs(ref).max()
                check(err <= (1e-10 if a == 0 else (1 + a * L) * phi), 'C08 self-phase modulation closed form')

        # convergence to the NLSE solution, linear in phi_max
        for trial in range(3):
            N = 128
            peak = 0.2
            x = pulses(rng, N, 1 + trial % 2, peak)
            L, gam, al, b2, b3 = 40.0, 1.2, 0.2, (-21.0, 18.0, -5.0)[trial], 0.1
            X = osig(x)
            ref = fiber(X, L, alpha=al, beta_2=b2, beta_3=b3, gamma=gam, phi_max=1e-4).signal
            errs = []
            for phi in (0.1, 0.03, 0.01, 3e-3):
                y = fiber(X, L, alpha=al, beta_2=b2, beta_3=b3, gamma=gam, phi_max=phi).signal
                errs.append(np.linalg.norm(y - ref) / np.linalg.norm(ref) / phi)
            check(max(errs) <= 2.0 and errs[-1] * 3e-3 <= 0.1 * errs[0] * 0.1,
                  'C08 relative error bounded by a constant times phi_max')

        # one polarisation == x polarisation of a two-polarisation field with empty y
        for trial in range(4):
            N = 96
            x = pulses(rng, N, 1, 0.3) if trial % 2 else field(rng, N, 1, amp=0.3)
            x[:2] = 0
            kw = dict(alpha=0.2, beta_2=-20.0, beta_3=0.1, gamma=1.5, phi_max=0.02)
            y1 = fiber(optical_signal(x, n_pol=1), 30.0, **kw)
            y2 = fiber(optical_signal(np.array([x, np.zeros_like(x)]), n_pol=2), 30.0, **kw)
            check(close(y1.signal, y2.signal[0], 1e-10) and np.abs(y2.signal[1]).max() == 0,
                  'C08 one polarisation propagates like x of a two-polarisation field with empty y')

        # weak signal in a lossy fibre, dark field
        x = field(rng, 64, 2, amp=1e-6)
        y = fiber(osig(x), 80.0, alpha=0.25, beta_2=-20, gamma=1.3)
        check(np.all(np.isfinite(y.signal)) and close((np.abs(y.signal)**2).sum(-1), (np.abs(x)**2).sum(-1) * 10**(-2.0), 1e-9),
              'C08 weak field in a lossy fibre: finite, energy scaled by the loss')
        try:
            y = fiber(osig(np.zeros(64, complex)), 10.0, alpha=0.2, beta_2=-20, gamma=1.3)
            check(y.signal.shape == (64,) and np.abs(y.signal).max() == 0, 'C08 dark field returns a dark field')
        except _Timeout:
            check(False, 'C08 dark field returns a dark field')


# ---------------------------------------------------------------- C11
def lpf_ref(x, BW, n, fs):
    sos = sg.bessel(N=n, Wn=BW, btype='low', fs=fs, output='sos', norm='mag')
    x = np.asarray(x)
    return sg.sosfiltfilt(sos, x, axis=-1, padlen=min(3 * (2 * len(sos) + 1), x.shape[-1] - 1)), sos


def tone_gain(filt, f, fs, N, cplx):
    t = np.arange(N) / fs
    x = np.exp(2j * np.pi * f * t) if cplx else np.cos(2 * np.pi * f * t)
    y = filt(x)
    s = slice(N // 4, 3 * N // 4)
    g_mid = np.sqrt(np.mean(np.abs(y[s])**2) / np.mean(np.abs(x[s])**2))
    g_all = np.mean(np.abs(y)**2) / np.mean(np.abs(x)**2)
    return g_mid, g_all


def c11():
    rng = np.random.default_rng(1111)
    for fs in (16e9, 100e9, 3.3e6):
        set_fs(fs)
        for n in range(1, 9):
            for N in (17, 22, 27, 28, 100, 501):
                BW = rng.uniform(0.01, 0.45) * fs
                # LPF
                a, b = rng.standard_normal(2)
                x, z = rng.standard_normal((2, N))
                nx = rng.standard_normal(N)
                fx = dv.LPF(x, BW, n=n)
                check(isinstance(fx, electrical_signal) and fx.signal.shape == (N,), 'C11 LPF preserves length')
                check(close(dv.LPF(a * x + b * z, BW, n=n).signal, a * fx.signal + b * dv.LPF(z, BW, n=n).signal, 1e-9),
                      'C11 LPF is linear')
                ref, sos = lpf_ref(x, BW, n, fs)
                check(close(fx.signal, ref, 1e-9), 'C11 LPF is the zero-phase Bessel filter')
                c = dv.LPF(electrical_signal(x, nx), BW, n=n)
                check(close(c.signal, fx.signal, 1e-12) and close(c.noise, dv.LPF(nx, BW, n=n).signal, 1e-12),
                      'C11 LPF acts identically on signal and noise; ndarray and container agree')
                k0 = rng.uniform(-3, 3)
                check(close(dv.LPF(np.full(N, k0), BW, n=n).signal, np.full(N, k0), 1e-8), 'C11 LPF passes a constant unchanged')
                y, H = dv.LPF(x, BW, n=n, retH=True)
                _, Href = sg.sosfreqz(sos, worN=N, fs=fs, whole=True)
                check(close(H, fftshift(Href), 1e-10) and close(y.signal, fx.signal, 1e-12),
                      'C11 LPF retH is the single-pass prototype on the same grid')
                u8 = rng.integers(0, 2, N).astype(np.uint8)
                check(close(dv.LPF(u8, BW, n=n).signal, dv.LPF(u8.astype(float), BW, n=n).signal, 1e-12)
                      and close(dv.LPF(np.repeat(u8, 2).astype(np.int16), BW, n=n).signal,
                                dv.LPF(np.repeat(u8, 2).astype(float), BW, n=n).signal, 1e-12),
                      'C11 LPF filters integer samples as floats')
                try:
                    lst = dv.LPF(list(x), BW, n=n)
                except TypeError:
                    lst = None
                if lst is not None:
                    check(close(lst.signal, fx.signal, 1e-12), 'C11 LPF of a sequence equals LPF of the array')
                    il = dv.LPF([int(v) for v in u8], BW, n=n)
                    check(close(il.signal, dv.LPF(u8.astype(float), BW, n=n).signal, 1e-12),
                          'C11 LPF filters integer samples as floats')
                    tl = dv.LPF(tuple(x), BW, n=n, retH=True)
                    check(close(tl[0].signal, fx.signal, 1e-12) and close(tl[1], H, 1e-12),
                          'C11 LPF of a sequence equals LPF of the array')
                # BPF
                for n_pol in (1, 2):
                    e1, e2 = field(rng, N, n_pol), field(rng, N, n_pol)
                    ns = field(rng, N, n_pol)
                    ca, cb = rng.standard_normal(2) + 1j * rng.standard_normal(2)
                    f1 = dv.BPF(osig(e1), BW, n=n)
                    f2 = dv.BPF(osig(e2), BW, n=n)
                    check(isinstance(f1, optical_signal) and f1.signal.shape == e1.shape and f1.n_pol == n_pol,
                          'C11 BPF preserves length and layout')
                    check(close(dv.BPF(osig(ca * e1 + cb * e2), BW, n=n).signal, ca * f1.signal + cb * f2.signal, 1e-9),
                          'C11 BPF is linear')
                    refb, _ = lpf_ref(e1, BW / 2, n, fs)
                    check(close(f1.signal, refb, 1e-9), 'C11 BPF is the zero-phase Bessel filter, per polarisation')
                    fn = dv.BPF(osig(e1, ns), BW, n=n)
                    check(close(fn.signal, f1.signal, 1e-12) and close(fn.noise, dv.BPF(osig(ns), BW, n=n).signal, 1e-12),
                          'C11 BPF acts identically on signal and noise')
                    kc = complex(*rng.standard_normal(2))
                    cst = np.full(e1.shape, kc)
                    check(close(dv.BPF(osig(cst), BW, n=n).signal, cst, 1e-8), 'C11 BPF passes a constant unchanged')

        # tones: -6 dB at cutoff, monotone attenuation, no gain; symmetric pulse
        N = 8192
        for n in range(1, 9):
            for frac in (0.012, 0.05, 0.2, 0.44):
                BW = frac * fs
                lp = lambda v: dv.LPF(np.asarray(v.real if np.isrealobj(v) else v), BW, n=n).signal
                g, ga = tone_gain(lambda v: dv.LPF(v, BW, n=n).signal, BW, fs, N, False)
                check(abs(20 * np.log10(g) + 6.0206) < 0.05, 'C11 LPF attenuates a tone at BW by 6 dB')
                prev = 1.0 + 1e-9
                for m in (0.25, 0.5, 1.0, 1.0 + 0.5 * (0.5 / frac - 1) * 0.9):
                    gm, ga = tone_gain(lambda v: dv.LPF(v, BW, n=n).signal, m * BW, fs, N, False)
                    check(gm <= prev + 1e-9, 'C11 LPF attenuation grows monotonically with frequency')
                    check(ga <= 1 + 1e-9, 'C11 LPF never increases the power of a tone')
                    prev = gm
                for sgn in (1, -1):
                    g, ga = tone_gain(lambda v: dv.BPF(optical_signal(v, n_pol=1), 2 * BW, n=n).signal, sgn * BW, fs, N, True)
                    check(abs(20 * np.log10(g) + 6.0206) < 0.05, 'C11 BPF attenuates a tone BW/2 from the carrier by 6 dB')
                    check(ga <= 1 + 1e-9, 'C11 BPF never increases the power of a tone')
                for M in (1001, 1000):
                    c0 = (M - 1) / 2
                    p = np.exp(-0.5 * ((np.arange(M) - c0) / 12.0)**2)
                    yl = dv.LPF(p, BW, n=n).signal
                    check(close(yl, yl[::-1], 1e-9), 'C11 LPF response to a symmetric pulse is symmetric (no delay)')
                    yb = dv.BPF(optical_signal(p.astype(complex), n_pol=1), 2 * BW, n=n).signal
                    check(close(yb, yb[::-1], 1e-9), 'C11 BPF response to a symmetric pulse is symmetric (no delay)')


# ---------------------------------------------------------------- C09
def c09():
    rng = np.random.default_rng(909)
    sels = ['ase-only', 'thermal-only', 'shot-only', 'ase-thermal', 'ase-shot', 'thermal-shot', 'all']
    for fs in (20e9, 80e9):
        set_fs(fs)
        for N in (17, 64, 1000):
            for n_pol in (1, 2):
                x = field(rng, N, n_pol, amp=0.03)
                nz = field(rng, N, n_pol, amp=0.003)
                BW = rng.uniform(0.02, 0.49) * fs
                r = rng.uniform(0.05, 1.0)
                RL = rng.uniform(1, 1000)
                idk = rng.uniform(0, 1e-6)
                for sel in sels:
                    sel_c = sel.upper() if rng.random() < 0.5 else sel.title()
                    kw = dict(BW=BW, r=r, T=rng.uniform(0, 400), R_load=RL, include_noise=sel_c, i_dark=idk, Fn=rng.uniform(0, 6))
                    for X in (osig(x), osig(x, nz)):
                        y = dv.PD(X, **kw)
                        p = (np.abs(np.atleast_2d(x))**2).sum(0)
                        ref, _ = lpf_ref(RL * r * p, BW, 4, fs)
                        check(isinstance(y, electrical_signal) and y.signal.shape == (N,) and y.noise.shape == (N,),
                              'C09 PD output length equals input length')
                        check(close(y.signal, ref, 1e-9), 'C09 PD signal is the low-pass filtered R_load*r*(|Ex|^2+|Ey|^2)')
                        if sel == 'ase-only':
                            if X.noise is None:
                                nref = np.full(N, idk * RL)
                            else:
                                xn = np.atleast_2d(x); nn = np.atleast_2d(nz)
                                nref, _ = lpf_ref(RL * (r * ((2 * (xn * nn.conj()).real).sum(0) + (np.abs(nn)**2).sum(0)) + idk), BW, 4, fs)
                            check(close(y.noise, nref, 1e-8, 1e-18), 'C09 ase-only noise is the beating terms plus dark offset')
                # invariances and scalings (signal part)
                X = osig(x)
                kw = dict(BW=BW, T=300.0, include_noise='all', i_dark=idk)
                base = dv.PD(X, r=r, R_load=RL, **kw).signal
                check(close(dv.PD(X, r=r, R_load=RL, **kw).signal, base, 1e-13), 'C09 PD signal part is deterministic')
                ph = np.exp(1j * rng.uniform(0, 2 * np.pi, N))
                check(close(dv.PD(osig(x * ph), r=r, R_load=RL, **kw).signal, base, 1e-9), 'C09 PD unchanged by phase rotation')
                if n_pol == 2:
                    th, p1, p2 = rng.uniform(0, 2 * np.pi, 3)
                    U = np.array([[np.cos(th) * np.exp(1j * p1), -np.sin(th) * np.exp(1j * p2)],
                                  [np.sin(th) * np.exp(-1j * p2), np.cos(th) * np.exp(-1j * p1)]])
                    check(close(dv.PD(osig(U @ x), r=r, R_load=RL, **kw).signal, base, 1e-9),
                          'C09 PD unchanged by a unitary polarisation rotation')
                check(close(dv.PD(X, r=r / 2, R_load=RL, **kw).signal, base / 2, 1e-9), 'C09 PD linear in r')
                check(close(dv.PD(X, r=r, R_load=3 * RL, **kw).signal, 3 * base, 1e-9), 'C09 PD linear in R_load')
                check(close(dv.PD(osig(1.7 * x), r=r, R_load=RL, **kw).signal, 1.7**2 * base, 1e-9), 'C09 PD quadratic in amplitude')
                P = rng.uniform(1e-6, 1e-2)
                cw = np.full(x.shape, np.sqrt(P / n_pol) * np.exp(0.3j))
                check(close(dv.PD(osig(cw), r=r, R_load=RL, **kw).signal, np.full(N, r * P * RL), 1e-8),
                      'C09 CW power P gives r*P*R_load')

        # dark-current offset with the default i_dark, whatever its value
        idk0 = inspect.signature(dv.PD).parameters['i_dark'].default
        X = osig(field(rng, 64, 2, amp=0.01))
        y = dv.PD(X, 0.3 * fs, r=0.5, R_load=120.0, include_noise='ase-only')
        check(idk0 >= 0 and close(y.noise, np.full(64, idk0 * 120.0), 1e-8), 'C09 default call carries the dark-current offset')

        # documented errors
        X = osig(field(rng, 64, 1))
        for kwargs, exc in ((dict(r=0), ValueError), (dict(r=1.5), ValueError), (dict(r=-0.1), ValueError),
                            (dict(r='1'), TypeError), (dict(r=[0.5]), TypeError), (dict(T=-1), ValueError),
                            (dict(T='300'), TypeError), (dict(R_load=-50), ValueError), (dict(R_load=None), TypeError),
                            (dict(include_noise=3), TypeError), (dict(include_noise='none'), ValueError),
                            (dict(include_noise='thermal'), ValueError)):
            try:
                dv.PD(X, 0.2 * fs, **kwargs)
                check(False, f'C09 PD raises {exc.__name__} for {kwargs}')
            except exc:
                pass
            except Exception:
                check(False, f'C09 PD raises {exc.__name__} for {kwargs}')
        try:
            dv.PD(np.ones(64), 0.2 * fs)
            check(False, 'C09 PD raises TypeError for a non-optical input')
        except TypeError:
            pass

        # statistics
        N = 2**18
        np.random.seed(99 + int(fs % 97))
        for n_pol, with_noise in ((1, False), (2, True)):
            x = field(rng, N, n_pol, amp=0.02)
            nz = field(rng, N, n_pol, amp=0.004) if with_noise else None
            X = osig(x, nz)
            BW = 0.2 * fs
            r, T, RL, idk, Fn = 0.8, 290.0, 75.0, 2e-6, 3.0
            sos = sg.bessel(N=4, Wn=BW, btype='low', fs=fs, output='sos', norm='mag')
            _, Hh = sg.sosfreqz(sos, worN=N, fs=fs, whole=True)
            neb = np.mean(np.abs(Hh)**4)
            k8 = np.mean(np.abs(Hh)**8)
            B = fs / 2
            var_th = 4 * kB * T * 10**(Fn / 10) * B / RL
            psig = (np.abs(np.atleast_2d(x))**2).sum(0).mean()
            pn = (np.abs(np.atleast_2d(nz))**2).sum(0).mean() if with_noise else 0.0
            var_sh = 2 * qe * (r * (psig + pn) + idk) * B
            for sel, var in (('thermal-only', var_th), ('shot-only', var_sh), ('thermal-shot', var_th + var_sh)):
                y = dv.PD(X, BW, r=r, T=T, R_load=RL, include_noise=sel, i_dark=idk, Fn=Fn)
                cur = y.noise / RL - idk
                s_mean = np.sqrt(var * 1.0 / N * 1.0)  # |H(0)| = 1, white input
                check(abs(cur.mean()) <= 6 * s_mean, f'C09 {sel} noise is zero-mean around the dark offset')
                v = np.mean(cur**2)
                check(abs(v - var * neb) <= 6 * var * np.sqrt(2 * k8 / N), f'C09 {sel} variance matches the documented value')
            if with_noise:
                xn = np.atleast_2d(x); nn = np.atleast_2d(nz)
                beat, _ = lpf_ref(RL * r * ((2 * (xn * nn.conj()).real).sum(0) + (np.abs(nn)**2).sum(0)), BW, 4, fs)
            else:
                beat = np.zeros(N)
            y = dv.PD(X, BW, r=r, T=T, R_load=RL, include_noise='all', i_dark=idk, Fn=Fn)
            cur = (y.noise - beat) / RL - idk
            v = np.mean(cur**2)
            var = var_th + var_sh
            check(abs(v - var * neb) <= 6 * var * np.sqrt(2 * k8 / N) and abs(cur.mean()) <= 6 * np.sqrt(var / N),
                  'C09 all = beating + thermal + shot + dark offset')
            y = dv.PD(X, BW, r=r, T=0, R_load=RL, include_noise='ase-thermal', i_dark=idk, Fn=Fn)
            check(close(y.noise, beat + idk * RL, 1e-8), 'C09 thermal term vanishes at T = 0; ase-thermal has no shot term')


# ---------------------------------------------------------------- C10
def c10():
    rng = np.random.default_rng(1010)
    np.random.seed(1010)
    for fs, wl in ((40e9, 1550e-9), (200e9, 1310e-9)):
        gv(sps=16, R=fs / 16, wavelength=wl)
        f0 = gv.f0
        for n_pol in (1, 2):
            for with_noise in (False, True):
                N = 2**16
                x = field(rng, N, n_pol, amp=0.01)
                nz = field(rng, N, n_pol, amp=1e-4) if with_noise else None
                X = osig(x, nz)
                for G, NF in ((0.0, 5.0), (rng.uniform(1, 40), rng.uniform(3, 10)), (40.0, 3.0), (17.0, 10.0)):
                    g = 10**(G / 10)
                    y = dv.EDFA(X, G, NF)
                    check(isinstance(y, optical_signal) and y.n_pol == 2 and y.signal.shape == (2, N) and y.noise.shape == (2, N),
                          'C10 EDFA returns a two-polarisation signal')
                    x2 = np.atleast_2d(x)
                    check(close(y.signal[:x2.shape[0]], np.sqrt(g) * x2, 1e-12), 'C10 EDFA signal is input times sqrt(G)')
                    if n_pol == 1:
                        check(np.abs(y.signal[1]).max() == 0, 'C10 y-polarisation of a one-polarisation input carries no signal')
                    amp_n = np.zeros((2, N), complex)
                    if with_noise:
                        amp_n[:n_pol] = np.sqrt(g) * np.atleast_2d(nz)
                    ase = y.noise - amp_n
                    P = 10**(NF / 10) * hP * f0 * (g - 1) * fs
                    if G == 0.0:
                        check(np.abs(ase).max() <= 1e-12 * max(np.abs(amp_n).max(), 1e-30) + 0.0 or np.abs(ase).max() == 0,
                              'C10 no ASE at unit gain')
                        continue
                    tot = (np.abs(ase)**2).sum(0).mean()
                    check(abs(tot - P) <= 6 * P / np.sqrt(2 * N), 'C10 ASE total power is NF*h*f0*(G-1)*fs')
                    comps = np.array([ase[0].real, ase[0].imag, ase[1].real, ase[1].imag])
                    cv = np.cov(comps)
                    sd = P / 4
                    check(np.all(np.abs(np.diag(cv) - sd) <= 6 * sd * np.sqrt(2 / N)), 'C10 ASE is circular Gaussian, equal in both polarisations')
                    off = cv - np.diag(np.diag(cv))
                    check(np.all(np.abs(off) <= 6 * sd / np.sqrt(N)), 'C10 ASE components are mutually independent')
                    check(np.all(np.abs(comps.mean(1)) <= 6 * np.sqrt(sd / N)), 'C10 ASE is zero-mean')
                    kurt = np.mean(comps**4, axis=1) / sd**2
                    check(np.all(np.abs(kurt - 3) <= 6 * np.sqrt(96 / N)), 'C10 ASE is Gaussian')
                    y_again = dv.EDFA(X, G, NF)
                    ase2 = y_again.noise - amp_n
                    rho = np.abs(np.vdot(ase, ase2)) / (np.linalg.norm(ase) * np.linalg.norm(ase2))
                    check(rho <= 6 / np.sqrt(2 * N), 'C10 ASE is freshly drawn at each call')
                    ps_in = (np.abs(x)**2).sum() ; pn_in = (np.abs(nz)**2).sum() if with_noise else 0.0
                    ps_out = (np.abs(y.signal)**2).sum(); pn_out = (np.abs(y.noise)**2).sum()
                    check(pn_in == 0 or ps_out / pn_out <= ps_in / pn_in * (1 + 1e-3), 'C10 OSNR does not improve')
                    # optical filter
                    BW = rng.uniform(0.05, 0.6) * fs
                    yf = dv.EDFA(X, G, NF, BW)
                    sref = np.zeros((2, N), complex)
                    sref[:n_pol] = np.sqrt(g) * x2
                    rf, _ = lpf_ref(sref, BW / 2, 4, fs)
                    check(yf.n_pol == 2 and close(yf.signal, rf, 1e-9), 'C10 with BW the signal part is band-limited by the optical filter')
                    sos = sg.bessel(N=4, Wn=BW / 2, btype='low', fs=fs, output='sos', norm='mag')
                    _, Hh = sg.sosfreqz(sos, worN=N, fs=fs, whole=True)
                    H4 = np.abs(Hh)**4
                    nr, _ = lpf_ref(amp_n, BW / 2, 4, fs)
                    asef = yf.noise - nr
                    totf = (np.abs(asef)**2).sum(0).mean()
                    check(abs(totf - P * H4.mean()) <= 6 * P * np.sqrt(np.mean(H4**2) / (2 * N)),
                          'C10 with BW the noise part is band-limited by the optical filter')
                    S = (np.abs(fft(asef, axis=-1))**2).sum(0) / N
                    band = H4 < 1e-3
                    if band.sum() > 50:
                        check(S[band].mean() <= 2e-3 * P / 1.0 * 1.5, 'C10 with BW the noise part is band-limited by the optical filter')
        for bad in (np.ones(32), electrical_signal(np.ones(32)), [1, 2, 3]):
            try:
                dv.EDFA(bad, 10, 5)
                check(False, 'C10 non-optical input raises TypeError')
            except TypeError:
                pass
    gv(sps=16, R=1e9, wavelength=1550e-9)


if __name__ == '__main__':
    import time
    for fn in (c07, c08, c11, c09, c10):
        t0 = time.time()
        try:
            fn()
        except _Timeout:
            check(False, f'{fn.__name__}: FIBER did not return within 60 s')
        except Exception as ex:
            import traceback
            traceback.print_exc()
            check(False, f'{fn.__name__}: unexpected {type(ex).__name__}: {ex}')
        print(f'{fn.__name__} done in {time.time() - t0:.1f} s', flush=True)
    if FAIL:
        print('FAILED clauses:')
        for f in FAIL:
            print(' -', f)
        sys.exit(1)
    print('PASS')
    sys.exit(0)
