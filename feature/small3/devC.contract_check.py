"""Contract check for C16 (FBG), C17 (GET_EYE), C18 (ADC / shortest_int).

Prints PASS and exits 0 when every sampled clause holds, prints the failing
clauses and exits 1 otherwise.  `opticomlib` is imported from PYTHONPATH.
"""
import sys
import os

if sys.path and os.path.abspath(sys.path[0] or os.getcwd()) == os.path.dirname(os.path.abspath(__file__)):
    sys.path.pop(0)

import inspect
import warnings
import numpy as np
import scipy.signal as sg
from scipy.constants import c, pi
from scipy.integrate import quad

warnings.simplefilter("ignore")

from opticomlib import gv, optical_signal, electrical_signal
from opticomlib.devices import FBG, GET_EYE, ADC
from opticomlib.utils import shortest_int, rcos

FAIL = []
COUNT = [0]


def check(cond, clause, detail=""):
    COUNT[0] += 1
    if not cond:
        FAIL.append(f"{clause}: {detail}")
        if len(FAIL) > 40:
            finish()


def finish():
    if FAIL:
        for f in FAIL:
            print("FAIL", f)
        sys.exit(1)
    print(f"PASS ({COUNT[0]} checks)")
    sys.exit(0)


# --------------------------------------------------------------------------
# C16  FBG
# --------------------------------------------------------------------------
ODE_TOL = 5e-3  # RK45 default rtol = 1e-3
NEFF = 1.45

BUILTIN = {
    "uniform": lambda z: 1.0 + 0 * z,
    "rcos": lambda z: rcos(z, alpha=1, T=2),
    "gaussian": lambda z: np.exp(-4 * np.log(2) * (3 * z) ** 2),
    "parabolic": lambda z: 1 - (2 * z) ** 2,
}


def random_profile(rng):
    a0 = rng.uniform(0.4, 1.0)
    a1 = rng.uniform(-0.3, 0.3)
    a2 = rng.uniform(-0.3, 0.3)
    ph = rng.uniform(0, 2 * pi)

    def f(z):
        return a0 + 0.3 * a1 * np.cos(2 * pi * z + ph) + 0.3 * a2 * np.cos(4 * pi * z) + 0.05

    return f


def rand_field(rng, n, npol):
    x = rng.normal(size=(npol, n)) + 1j * rng.normal(size=(npol, n))
    return optical_signal(x[0] if npol == 1 else x)


def lam_grid(x):
    return 2 * pi * c / (x.w(shift=True) + 2 * pi * gv.f0)


def fbg_common(x, H, out, tag):
    Hm = np.abs(H)
    check(np.all(np.isfinite(Hm)), "C16 |H| finite", tag)
    check(Hm.max() <= 1 + ODE_TOL, "C16 |H|<=1", f"{tag} max={Hm.max()}")
    ref = np.fft.ifft(np.fft.fft(x.signal) * np.fft.ifftshift(H))
    check(out.signal.shape == x.signal.shape, "C16 output shape", tag)
    check(np.allclose(out.signal, ref, rtol=1e-9, atol=1e-9 * np.abs(ref).max()), "C16 output = input filtered by H", tag)
    e_in = np.sum(np.abs(x.signal) ** 2, axis=-1)
    e_out = np.sum(np.abs(out.signal) ** 2, axis=-1)
    check(np.all(e_out <= e_in * (1 + 2 * ODE_TOL)), "C16 energy", f"{tag} {e_out} > {e_in}")


def check_fbg():
    rng = np.random.default_rng(16)
    fss = [20e9, 50e9, 100e9, 200e9, 400e9]
    case = 0
    for trial in range(30):
        fs = fss[trial % len(fss)]
        gv(fs=fs)
        n = 2 ** int(rng.integers(8, 13))
        npol = 1 + trial % 2
        x = rand_field(rng, n, npol)
        kL = float(np.exp(rng.uniform(np.log(0.1), np.log(8))))
        vd = float(np.exp(rng.uniform(np.log(1e-5), np.log(1e-3))))
        F = float(rng.uniform(-20, 20)) if trial % 3 == 0 else 0.0
        kind = trial % 6
        if kind < 4:
            name = list(BUILTIN)[kind]
            apo, prof = name, BUILTIN[name]
        else:
            prof = random_profile(rng)
            apo = prof
            name = "callable"
        fc = gv.f0
        lD = c / fc
        tag = f"fs={fs:.0e} n={n} npol={npol} kL={kL:.3g} vd={vd:.3g} F={F:.3g} apo={name}"
        out, H = FBG(x, fc=fc, vdneff=vd, kL=kL, apodization=apo, F=F, print_params=False, retH=True, filtfilt=bool(trial % 2))
        fbg_common(x, H, out, tag)
        case += 1

        if F == 0.0:
            lam = lam_grid(x)
            ic = np.argmin(np.abs(lam - lD))
            # nearest grid frequency is the Bragg frequency itself (f0 on the grid)
            integ = quad(prof, -0.5, 0.5)[0]
            L = kL / (pi * vd / lD)
            k_ic = pi * vd / lam[ic] * L
            d_ic = 2 * pi * NEFF * (1 / lam[ic] - 1 / lD) * L
            if abs(d_ic) < 1e-9:
                r = np.abs(H[ic]) ** 2
                check(abs(r - np.tanh(k_ic * integ) ** 2) <= ODE_TOL, "C16 Bragg reflectivity tanh^2(kL*int apo)", f"{tag} got {r} want {np.tanh(k_ic*integ)**2}")
            if name == "uniform":
                d = 2 * pi * NEFF * (1 / lam - 1 / lD) * L
                k = pi * vd / lam * L
                g = np.sqrt((k ** 2 - d ** 2).astype(complex))
                R = (np.sinh(g) ** 2 / (np.cosh(g) ** 2 - d ** 2 / k ** 2)).real
                err = np.abs(np.abs(H) ** 2 - R).max()
                check(err <= ODE_TOL, "C16 uniform closed form", f"{tag} err={err}")

    # uniform spectrum over a grid of kL and vdneff
    gv(fs=100e9)
    x = optical_signal(np.ones(2 ** 10))
    lam = lam_grid(x)
    lD = c / gv.f0
    for kL in [0.1, 0.7, 2.0, 4.5, 8.0]:
        for vd in [1e-5, 1e-4, 1e-3]:
            out, H = FBG(x, fc=gv.f0, vdneff=vd, kL=kL, print_params=False, retH=True)
            L = kL / (pi * vd / lD)
            d = 2 * pi * NEFF * (1 / lam - 1 / lD) * L
            k = pi * vd / lam * L
            g = np.sqrt((k ** 2 - d ** 2).astype(complex))
            R = (np.sinh(g) ** 2 / (np.cosh(g) ** 2 - d ** 2 / k ** 2)).real
            err = np.abs(np.abs(H) ** 2 - R).max()
            check(err <= ODE_TOL, "C16 uniform closed form (grid)", f"kL={kL} vd={vd} err={err}")
            fbg_common(x, H, out, f"grid kL={kL} vd={vd}")
            for name, prof in BUILTIN.items():
                _, Ha = FBG(x, fc=gv.f0, vdneff=vd, kL=kL, apodization=name, print_params=False, retH=True)
                ic = np.argmin(np.abs(lam - lD))
                want = np.tanh(pi * vd / lam[ic] * L * quad(prof, -0.5, 0.5)[0]) ** 2
                check(abs(np.abs(Ha[ic]) ** 2 - want) <= ODE_TOL, "C16 Bragg reflectivity built-in", f"{name} kL={kL} vd={vd}")
                check(np.abs(Ha).max() <= 1 + ODE_TOL, "C16 |H|<=1 built-in", f"{name} kL={kL} vd={vd}")

    # callable objects, including falsy ones
    for apo, integ in [(np.poly1d([0.5]), 0.5), (np.poly1d([0.0, 0.0, 0.8]), 0.8), (lambda z: 0.6 + 0.4 * np.cos(pi * z) ** 2, 0.8)]:
        _, Ha = FBG(x, fc=gv.f0, vdneff=1e-4, kL=3.0, apodization=apo, print_params=False, retH=True)
        ic = np.argmin(np.abs(lam - lD))
        want = np.tanh(3.0 * integ) ** 2
        check(abs(np.abs(Ha[ic]) ** 2 - want) <= ODE_TOL, "C16 Bragg reflectivity callable object", f"{apo!r} got {np.abs(Ha[ic])**2} want {want}")

    # equivalent routes
    rng = np.random.default_rng(161)
    for trial in range(8):
        gv(fs=[50e9, 100e9, 200e9][trial % 3])
        x = rand_field(rng, 2 ** 9, 1 + trial % 2)
        fc = gv.f0
        lD = c / fc
        vd = float(np.exp(rng.uniform(np.log(1e-5), np.log(1e-3))))
        kL0 = float(np.exp(rng.uniform(np.log(0.1), np.log(8))))
        N = max(1, int(round(kL0 / (pi * vd / lD) / (lD / (2 * NEFF)))))
        L = N * lD / (2 * NEFF)
        kL = pi * vd / lD * L
        F = float(rng.uniform(-20, 20)) if trial % 2 else 0.0
        apo = ["uniform", "rcos", "gaussian", "parabolic"][trial % 4]
        ref = None
        for centre in ({"fc": fc}, {"landa_D": lD}):
            for length in ({"kL": kL}, {"L": L}, {"N": N}):
                o, H = FBG(x, vdneff=vd, apodization=apo, F=F, print_params=False, retH=True, **centre, **length)
                if ref is None:
                    ref = (o.signal, H)
                else:
                    check(np.allclose(H, ref[1], rtol=1e-6, atol=1e-8), "C16 equivalent routes (H)", f"{list(centre)} {list(length)} trial {trial} maxdiff={np.abs(H-ref[1]).max()}")
                    check(np.allclose(o.signal, ref[0], rtol=1e-6, atol=1e-8 * np.abs(ref[0]).max()), "C16 equivalent routes (output)", f"{list(centre)} {list(length)} trial {trial}")

    # incomplete specifications
    gv(fs=100e9)
    x = optical_signal(np.ones(2 ** 8))
    for kw in (
        {},
        {"fc": gv.f0},
        {"landa_D": c / gv.f0},
        {"fc": gv.f0, "vdneff": 1e-4},
        {"landa_D": c / gv.f0, "vdneff": 1e-4},
        {"fc": gv.f0, "dneff": 1e-4},
        {"landa_D": c / gv.f0, "dneff": 1e-4},
        {"landa_D": c / gv.f0, "kL": 2.0},
        {"vdneff": 1e-4, "kL": 2.0},
        {"fc": gv.f0, "kL": 2.0},
    ):
        try:
            FBG(x, print_params=False, **kw)
            check(False, "C16 incomplete specification raises ValueError", f"{list(kw)} returned")
        except ValueError:
            pass
        except Exception as e:
            check(False, "C16 incomplete specification raises ValueError", f"{list(kw)} raised {type(e).__name__}")

    # optional feature: sampled apodisation profile
    try:
        prof = BUILTIN["gaussian"](np.linspace(-0.5, 0.5, 201))
        _, Ha = FBG(x, fc=gv.f0, vdneff=1e-4, kL=3.0, apodization=prof, print_params=False, retH=True)
    except Exception:
        Ha = None
    if Ha is not None:
        lam = lam_grid(x)
        ic = np.argmin(np.abs(lam - c / gv.f0))
        want = np.tanh(3.0 * quad(BUILTIN["gaussian"], -0.5, 0.5)[0]) ** 2
        check(abs(np.abs(Ha[ic]) ** 2 - want) <= ODE_TOL, "C16 sampled profile Bragg reflectivity", f"got {np.abs(Ha[ic])**2} want {want}")
        check(np.abs(Ha).max() <= 1 + ODE_TOL, "C16 sampled profile |H|<=1")


# --------------------------------------------------------------------------
# C17  GET_EYE
# --------------------------------------------------------------------------
def prbs_bits(order, n):
    taps = {7: (7, 6), 9: (9, 5), 11: (11, 9)}[order]
    state = [1] * order
    out = []
    for _ in range(n):
        b = state[taps[0] - 1] ^ state[taps[1] - 1]
        out.append(state[-1])
        state = [b] + state[:-1]
    return np.array(out)


def nrz(bits, sps, a, b, sigma, rng, bw=0.75):
    w = np.repeat(bits.astype(float), sps)
    sos = sg.bessel(4, bw * 2 / sps, output="sos", norm="mag")  # cutoff = bw * bit rate
    w = sg.sosfiltfilt(sos, np.concatenate([w, w, w]))[len(w): 2 * len(w)]
    w = a + (b - a) * w
    return w + rng.normal(0, sigma, w.size)


TIMING = ("t_left", "t_right", "t_opt", "t_dist", "t_span0", "t_span1", "i")


def eye_of(w, seed):
    np.random.seed(seed)
    return GET_EYE(electrical_signal(w), sps_resamp=128)


def eye_clauses(e, a, b, sigma, sps, tag):
    d = b - a
    vals = [e.mu0, e.mu1, e.s0, e.s1, e.threshold, e.t_left, e.t_right, e.t_opt]
    ok = all(v is not None and np.isfinite(v) for v in vals)
    check(ok, "C17 finite estimates", f"{tag} {vals}")
    if not ok:
        return
    check(abs(e.mu0 - a) <= 0.08 * d, "C17 mu0", f"{tag} mu0={e.mu0} a={a}")
    check(abs(e.mu1 - b) <= 0.08 * d, "C17 mu1", f"{tag} mu1={e.mu1} b={b}")
    for nm in ("s0", "s1"):
        s = getattr(e, nm)
        check(sigma / 2 <= s <= 2 * sigma + 0.03 * d, f"C17 {nm}", f"{tag} {nm}={s} sigma={sigma}")
    check(e.mu0 < e.threshold < e.mu1, "C17 threshold between levels", f"{tag} {e.mu0} {e.threshold} {e.mu1}")
    check(abs((e.t_right - e.t_left) - 1) <= 0.1, "C17 crossings one slot apart", f"{tag} {e.t_left} {e.t_right}")
    check(abs(e.t_opt - (e.t_left + e.t_right) / 2) <= 1 / 128 + 1e-12, "C17 optimum midway", f"{tag} {e.t_left} {e.t_opt} {e.t_right}")
    check(isinstance(e.i, (int, np.integer)) and 0 <= e.i < sps, "C17 sampling index", f"{tag} i={e.i!r}")


def check_eye():
    rng = np.random.default_rng(17)
    trial = 0
    for sps in (8, 16, 32):
        gv(sps=sps, R=1e9)
        for d in (1e-3, 0.05, 1.0, 100.0):
            for pattern in ("random", "prbs", "alt", "pairs"):
                trial += 1
                nb = int(rng.choice([64, 128, 256, 1024]))
                if pattern == "random":
                    bits = rng.integers(0, 2, nb)
                    bits[:4] = [0, 1, 1, 0]
                elif pattern == "prbs":
                    bits = prbs_bits(int(rng.choice([7, 9, 11])), nb)
                elif pattern == "alt":
                    bits = np.tile([1, 0], nb // 2)
                else:
                    bits = np.tile([0, 0, 1, 1], nb // 4)
                a = float(rng.uniform(-0.5, 0.5) * d) if trial % 2 else float(rng.uniform(0, 2) * d)
                b = a + d
                sigma = float(rng.uniform(0.005, 0.05)) * d
                w = nrz(bits, sps, a, b, sigma, rng)
                tag = f"sps={sps} d={d} pat={pattern} nb={nb} a={a:.4g} sig/d={sigma/d:.3g}"
                e = eye_of(w, trial)
                eye_clauses(e, a, b, sigma, sps, tag)

                alpha = float(np.exp(rng.uniform(np.log(1e-3), np.log(1e3))))
                beta = float(rng.uniform(-2, 2) * alpha * d)
                e2 = eye_of(alpha * w + beta, trial)
                tol = 1e-6 * alpha * d
                check(abs(e2.mu0 - (alpha * e.mu0 + beta)) <= tol, "C17 equivariance mu0", f"{tag} alpha={alpha:.3g} beta={beta:.3g} {e2.mu0} vs {alpha*e.mu0+beta}")
                check(abs(e2.mu1 - (alpha * e.mu1 + beta)) <= tol, "C17 equivariance mu1", f"{tag} alpha={alpha:.3g} beta={beta:.3g}")
                check(abs(e2.s0 - alpha * e.s0) <= tol, "C17 equivariance s0", f"{tag} alpha={alpha:.3g}")
                check(abs(e2.s1 - alpha * e.s1) <= tol, "C17 equivariance s1", f"{tag} alpha={alpha:.3g}")
                for nm in TIMING:
                    check(abs(getattr(e2, nm) - getattr(e, nm)) <= 1e-9, f"C17 equivariance timing {nm}", f"{tag} alpha={alpha:.3g} beta={beta:.3g} {getattr(e, nm)} -> {getattr(e2, nm)}")
                for nm in ("y_center", "d01"):
                    if hasattr(e, nm):
                        v = getattr(e, nm)
                        check(np.isfinite(v), f"C17 extra attribute {nm} finite", tag)
                if hasattr(e, "y_center"):
                    check(e.mu0 < e.y_center < e.mu1, "C17 extra attribute y_center between the levels", tag)


# --------------------------------------------------------------------------
# C18  ADC / shortest_int
# --------------------------------------------------------------------------
def make_signal(kind, n, rng):
    if kind == "gauss":
        return rng.normal(0.3, 1.7, n)
    if kind == "uniform":
        return rng.uniform(-2.0, 5.0, n)
    if kind == "sine":
        return 0.8 * np.sin(2 * pi * rng.uniform(1, 30) * np.arange(n) / n + rng.uniform(0, 6)) + 0.1
    if kind == "quantised":
        return np.round(rng.normal(0, 1, n) * 4) / 4
    if kind == "outliers":
        x = rng.normal(0, 1e-3, n)
        x[rng.integers(0, n, max(1, n // 20000))] = rng.choice([-1e6, 1e6, 40.0, -40.0])
        return x
    raise ValueError(kind)


def adc_clauses(x, n, tag, as_signal):
    lo, hi = shortest_int(x, 99.99)
    Lv = 2 ** n - 1
    arg = electrical_signal(x) if as_signal else x
    yn = ADC(arg, n=n, otype="n")
    yv = ADC(arg, n=n, otype="v")
    cn, cv = np.asarray(yn.signal), np.asarray(yv.signal)
    check(cn.shape == x.shape and cv.shape == x.shape, "C18 length", tag)
    if cn.shape != x.shape:
        return
    check(np.unique(cn).size <= 2 ** n and np.unique(cv).size <= 2 ** n, "C18 at most 2^n values", f"{tag} {np.unique(cn).size} {np.unique(cv).size}")
    slack = 4 * np.finfo(float).eps * max(abs(lo), abs(hi), 1e-300)
    check(np.all(cv >= lo - slack) and np.all(cv <= hi + slack), "C18 values within [V_min, V_max]", f"{tag} [{cv.min()},{cv.max()}] vs [{lo},{hi}]")
    check(np.all(cn == np.round(cn)) and cn.min() >= 0 and cn.max() <= Lv, "C18 integer codes in [0, 2^n-1]", f"{tag} [{cn.min()},{cn.max()}]")
    if hi > lo:
        step = (hi - lo) / Lv
        inside = (x >= lo) & (x <= hi)
        ideal = (x - lo) / (hi - lo) * Lv
        check(np.all(np.abs(cn[inside] - ideal[inside]) <= 0.5 + 1e-9), "C18 inside samples move <= half a step (codes)", tag)
        check(np.all(np.abs(cv[inside] - x[inside]) <= step / 2 * (1 + 1e-9) + slack), "C18 inside samples move <= half a step (volts)", f"{tag} {np.abs(cv[inside]-x[inside]).max()} step={step}")
        check(np.all(cn[x > hi] == Lv) and np.all(cn[x < lo] == 0), "C18 outside samples saturate (codes)", tag)
        check(np.allclose(cv[x > hi], hi, rtol=1e-12, atol=slack) and np.allclose(cv[x < lo], lo, rtol=1e-12, atol=slack), "C18 outside samples saturate (volts)", tag)
    else:
        check(np.all(cn[x > hi] == Lv) and np.all(cn[x < lo] == 0), "C18 outside samples saturate (zero-width range)", tag)


def check_adc():
    rng = np.random.default_rng(18)
    gv(sps=16, R=1e9)
    lengths = [2, 3, 5, 17, 100, 1000, 9999, 10000, 10001, 20000, 2 ** 15, 2 ** 17]
    kinds = ["gauss", "uniform", "sine", "quantised", "outliers"]
    t = 0
    for N in lengths:
        for kind in kinds:
            t += 1
            x = make_signal(kind, N, rng)
            for n in {1 + t % 12, 1 + (5 * t) % 12}:
                adc_clauses(x, n, f"N={N} kind={kind} n={n}", as_signal=bool(t % 2))
    # two-level signal whose 99.99% range has zero width
    x = np.zeros(100000)
    x[[5, 77]] = [1.0, -1.0]
    adc_clauses(x, 8, "two-level zero-width", False)
    # signal + noise of an electrical_signal are quantised together
    x = rng.normal(0, 1, 5000)
    nz = rng.normal(0, 0.1, 5000)
    y = ADC(electrical_signal(x, nz), n=6, otype="n")
    y2 = ADC(x + nz, n=6, otype="n")
    check(np.array_equal(y.signal, y2.signal), "C18 signal+noise", "")

    # optional feature: explicit range
    if "vrange" in inspect.signature(ADC).parameters:
        x = rng.normal(0, 1, 20000)
        ref = ADC(x, n=5, otype="n")
        got = ADC(x, n=5, otype="n", vrange=None)
        check(np.array_equal(ref.signal, got.signal), "C18 vrange=None is the estimated range")
        got = ADC(x, n=5, otype="n", vrange=tuple(shortest_int(x, 99.99)))
        check(np.array_equal(ref.signal, got.signal), "C18 vrange=estimated range gives the same codes")
        got = np.asarray(ADC(x, n=5, otype="v", vrange=(-1.0, 1.0)).signal)
        check(got.min() >= -1 and got.max() <= 1 and np.unique(got).size <= 32, "C18 vrange bounds the output")
    # optional feature: non-finite samples do not break the range estimate
    x = rng.normal(0, 1, 20000)
    x[[3, 4, 5]] = [np.nan, np.inf, -np.inf]
    try:
        cn = np.asarray(ADC(x, n=4, otype="n").signal)
    except Exception:
        cn = None
    if cn is not None:
        lo, hi = shortest_int(x[np.isfinite(x)], 99.99)
        fin = np.isfinite(x)
        ideal = (x[fin] - lo) / (hi - lo) * 15
        inside = (x[fin] >= lo) & (x[fin] <= hi)
        check(cn.min() >= 0 and cn.max() <= 15, "C18 non-finite: codes in range")
        check(cn[4] == 15 and cn[5] == 0, "C18 non-finite: infinities saturate", f"{cn[3:6]}")
        check(np.all(np.abs(cn[fin][inside] - ideal[inside]) <= 0.5 + 1e-9), "C18 non-finite: finite samples quantised on the finite range")


def check_shortest_int():
    rng = np.random.default_rng(181)
    for t in range(300):
        n = int(rng.integers(2, 200))
        if t % 2:
            data = np.round(rng.normal(0, 1, n) * 3) / 3
        else:
            data = rng.normal(0, 1, n)
        p = float(rng.uniform(0.01, 99.99))
        lo, hi = shortest_int(data, p)
        srt = np.sort(data)
        lag = int(np.floor(p * n / 100))
        widths = srt[lag:] - srt[: n - lag]
        tag = f"n={n} p={p:.3f}"
        check(lo <= hi, "C18 shortest_int lo<=hi", tag)
        idx = [i for i in range(n - lag) if srt[i] == lo and srt[i + lag] == hi]
        check(len(idx) > 0, "C18 shortest_int returns order statistics lag apart", tag)
        check(hi - lo == widths.min(), "C18 shortest_int is shortest", f"{tag} {hi-lo} vs {widths.min()}")
        check(np.sum((data >= lo) & (data <= hi)) >= lag + 1, "C18 shortest_int covers lag+1 samples", tag)


if __name__ == "__main__":
    check_shortest_int()
    check_adc()
    check_fbg()
    check_eye()
    finish()
