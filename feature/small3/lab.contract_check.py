import sys, os
_here = os.path.dirname(os.path.abspath(__file__))
if sys.path and os.path.abspath(sys.path[0] or '.') == _here:
    del sys.path[0]

import re
import inspect
import warnings
import numpy as np

from opticomlib.lab import SYNC, PPG3204
from opticomlib.typing import binary_sequence, electrical_signal, gv

FAIL = []


def fail(clause, detail):
    FAIL.append(f'{clause}: {detail}')
    if len(FAIL) > 25:
        finish()


def finish():
    if FAIL:
        for f in FAIL:
            print('FAIL', f)
        sys.exit(1)
    print('PASS')
    sys.exit(0)


# ---------------------------------------------------------------- fake instrument
class FakePPG:
    """Simulated PPG3204: keeps the state, records every command, answers queries."""
    MEM = 2**21

    def __init__(self):
        self.log = []
        self.mem = {ch: np.zeros(self.MEM + 2, dtype=np.uint8) for ch in range(1, 5)}
        self.state = {}
        self.timeout = 0

    def clear(self):
        pass

    def close(self):
        pass

    def query(self, cmd):
        self.log.append(cmd)
        m = re.fullmatch(r':DIG(-?\d+):PATT:DATA (\S+?),(\S+?),#(\d)(.*)', cmd)
        if m:
            ch, p, n, k, rest = int(m[1]), int(m[2]), int(m[3]), int(m[4]), m[5]
            bits = rest[k:]
            if 1 <= ch <= 4 and 1 <= p and p + n - 1 <= self.MEM and len(bits) == n:
                self.mem[ch][p:p + n] = np.frombuffer(bits.encode(), dtype=np.uint8) - 48
            return '\n'
        m = re.fullmatch(r':DIG(-?\d+):PATT:DATA\? (\S+?),(\S+)', cmd)
        if m:
            ch, p, n = int(m[1]), int(m[2]), int(m[3])
            bits = ''.join(map(str, self.mem[ch][p:p + n]))
            return f'#{len(str(n))}{n}{bits}\n'
        if cmd.endswith('?'):
            return str(self.state.get(cmd[:-1], 0)) + '\n'
        head, _, val = cmd.partition(' ')
        self.state[head] = val[:-1] if val.endswith('v') else val
        return '\n'


def new_ppg():
    ppg = PPG3204()
    ppg.inst = FakePPG()
    return ppg


PRBS_ORDERS = [7, 9, 11, 15, 23, 31]
NUM = r'[-+]?(?:\d+\.?\d*|\.\d+)(?:[eE][-+]?\d+)?'


def check_command(cmd, clause):
    """every emitted command: channel in 1..4 and value inside the documented limits"""
    def chan(s):
        if not re.fullmatch(r'\d+', s) or not 1 <= int(s) <= 4:
            fail(clause, f'channel out of 1..4 in {cmd[:60]!r}')

    def rng(s, lo, hi, integer=False):
        if not re.fullmatch(NUM, s):
            fail(clause, f'value not a number in {cmd[:60]!r}')
            return
        if integer and not re.fullmatch(r'\d+', s):
            fail(clause, f'value not an integer in {cmd[:60]!r}')
            return
        v = float(s)
        if not (lo <= v <= hi):
            fail(clause, f'value {v} outside [{lo}, {hi}] in {cmd[:60]!r}')

    if (m := re.fullmatch(r':FREQ (\S+)', cmd)):
        rng(m[1], 1.5e9, 32e9)
    elif (m := re.fullmatch(r':DIG(\S+?):PATT:LENG (\S+)', cmd)):
        chan(m[1]); rng(m[2], 2, 2**21, integer=True)
    elif (m := re.fullmatch(r':DIG(\S+?):PATT:PLEN (\S+)', cmd)):
        chan(m[1])
        if not re.fullmatch(r'\d+', m[2]) or int(m[2]) not in PRBS_ORDERS:
            fail(clause, f'PRBS order not supported in {cmd!r}')
    elif (m := re.fullmatch(r':SKEW(\S+?) (\S+)', cmd)):
        chan(m[1]); rng(m[2], -25e-12, 25e-12)
    elif (m := re.fullmatch(r':VOLT(\S+?):POS (\S+)v', cmd)):
        chan(m[1]); rng(m[2], 0.3, 2)
    elif (m := re.fullmatch(r':VOLT(\S+?):(?:POS|NEG):OFFS (\S+)v', cmd)):
        chan(m[1]); rng(m[2], -2, 3)
    elif (m := re.fullmatch(r':DIG(\S+?):PATT:DATA (\S+?),(\S+?),#(\d)(.*)', cmd)):
        chan(m[1])
        if not (re.fullmatch(r'\d+', m[2]) and re.fullmatch(r'\d+', m[3])):
            fail(clause, f'address/length not integers in {cmd[:60]!r}')
            return
        p, n, k = int(m[2]), int(m[3]), int(m[4])
        if not (1 <= n <= 1024):
            fail(clause, f'block of {n} bits in {cmd[:60]!r}')
        if not (1 <= p and p + n - 1 <= 2**21):
            fail(clause, f'block outside the memory in {cmd[:60]!r}')
        if m[5][:k] != str(n) or k != len(str(n)):
            fail(clause, f'wrong IEEE-488.2 header in {cmd[:60]!r}')
        body = m[5][k:]
        if len(body) != n or set(body) - {'0', '1'}:
            fail(clause, f'block body does not match its length in {cmd[:60]!r}')
    elif (m := re.fullmatch(r':DIG(\S+?):PATT:DATA\? (\S+?),(\S+)', cmd)):
        chan(m[1])
        if not (re.fullmatch(r'\d+', m[2]) and re.fullmatch(r'\d+', m[3])):
            fail(clause, f'address/length not integers in {cmd!r}')
            return
        p, n = int(m[2]), int(m[3])
        if not (1 <= n <= 1024 and 1 <= p and p + n - 1 <= 2**21):
            fail(clause, f'read block out of range in {cmd!r}')
    elif (m := re.fullmatch(r':(?:DIG|SKEW|VOLT|OUTP)(-?\d+)\S*( \S+)?', cmd)):
        chan(m[1])
    elif cmd in ('*RST', '*IDN?', ':FREQ?'):
        pass
    else:
        fail(clause, f'unknown command {cmd[:60]!r}')


def call(ppg, clause, name, *args, expect_warning=None, **kw):
    """call a driver method; no exception allowed; all commands checked; returns (result, commands)"""
    n0 = len(ppg.inst.log)
    with warnings.catch_warnings(record=True) as w:
        warnings.simplefilter('always')
        try:
            out = getattr(ppg, name)(*args, **kw)
        except Exception as e:
            fail(clause, f'{name}{args}{kw} raised {type(e).__name__}: {e}')
            return None, []
    cmds = ppg.inst.log[n0:]
    for c in cmds:
        check_command(c, clause)
    warned = any(issubclass(x.category, Warning) for x in w)
    if expect_warning is True and not warned:
        fail(clause, f'{name}{args}{kw}: out-of-range request without a warning')
    if expect_warning is False and warned:
        fail(clause, f'{name}{args}{kw}: in-range request warned: {w[0].message}')
    return out, cmds


# ---------------------------------------------------------------- clause A: value limits
def channel_selections(rng):
    sels = [None, 1, 2, 3, 4, 0, 5, -1, 7, 100, [1], [4], [1, 2], [2, 4], [1, 2, 3, 4], [0, 1], [4, 5], [0, 5],
            [-3, 9], [1, 2, 3, 4, 5], [5, 6, 7, 8, 9, 10], (1, 3), (0, 2, 7), np.array([2, 3]), np.array([0, 6])]
    for _ in range(10):
        sels.append([int(c) for c in rng.integers(-3, 9, rng.integers(1, 7))])
    return sels


def n_channels(sel):
    if sel is None:
        return 4
    if isinstance(sel, int):
        return 1
    return min(len(sel), 4)


def sel_in_range(sel):
    if sel is None:
        return True
    a = np.atleast_1d(np.array(sel))
    return bool(((a >= 1) & (a <= 4)).all() and a.size <= 4)


def values_around(lo, hi, rng, integer=False, n=28):
    vals = [lo, hi, (lo + hi) / 2]
    for lim in (lo, hi):
        scale = abs(lim) if lim else 1.0
        for dec in (-3, -2, -1, 0, 1, 2, 3):
            vals += [lim + scale * 10.0**dec, lim - scale * 10.0**dec]
    vals += list(rng.uniform(lo, hi, 6))
    span = max(abs(lo), abs(hi))
    vals += list(rng.uniform(-1, 1, 6) * span * 10.0**rng.integers(-3, 4, 6))
    vals += [0, 0.0, -1, 1]
    if integer:
        vals = [int(round(v)) for v in vals]
    else:
        vals = [v if isinstance(v, int) else float(v) for v in vals]
    return vals


def check_limits():
    rng = np.random.default_rng(2001)
    sels = channel_selections(rng)
    ppg = new_ppg()

    # frequency (no channel)
    cl = 'C20.freq'
    for f in values_around(1.5e9, 32e9, rng) + [1e6, 1e12, 2, 3.2e10, 1.5e9, 10e9, int(10e9), int(5e10), np.float64(4e10), np.float64(1e9)]:
        out = not (1.5e9 <= f <= 32e9)
        _, cmds = call(ppg, cl, 'set_freq', f, expect_warning=out)
        fr = [c for c in cmds if c.startswith(':FREQ ')]
        if len(fr) != 1:
            fail(cl, f'set_freq({f}) emitted {cmds}')
            continue
        v = float(fr[0].split()[1])
        want = min(max(f, 1.5e9), 32e9)
        if abs(v - want) > 1e-5 * want * 1.01:
            fail(cl, f'set_freq({f}) sent {v}, expected {want}')

    specs = [
        ('C20.patt_len', 'set_patt_len', 2, 2**21, True, r':DIG(\d):PATT:LENG (\S+)', 0),
        ('C20.skew', 'set_skew', -25e-12, 25e-12, False, r':SKEW(\d) (\S+)', 1e-9),
        ('C20.amplitude', 'set_output_voltage', 0.3, 2, False, r':VOLT(\d):POS (\S+)v', 0.0500001),
        ('C20.offset', 'set_offset', -2, 3, False, r':VOLT(\d):(?:POS|NEG):OFFS (\S+)v', 0.0500001),
    ]
    for cl, name, lo, hi, integer, pat, tol in specs:
        vals = values_around(lo, hi, rng, integer=integer)
        for sel in sels:
            nch = n_channels(sel)
            # scalars
            for v in (vals if sel is None or isinstance(sel, int) and sel in (2, 0, 7) or isinstance(sel, list) and len(sel) == 2 else vals[::5]):
                out = not (lo <= v <= hi) or not sel_in_range(sel)
                _, cmds = call(ppg, cl, name, v, sel, expect_warning=True if out else False)
                got = [re.fullmatch(pat, c) for c in cmds]
                if len(cmds) != nch or not all(got):
                    fail(cl, f'{name}({v}, {sel}) emitted {cmds}')
                    continue
                want = min(max(v, lo), hi)
                for g in got:
                    if abs(float(g[2]) - want) > max(tol, 1e-12 * abs(want)) * (1 if tol else 1):
                        fail(cl, f'{name}({v}, {sel}) sent {g[2]}, expected {want}')
            # per-channel lists (list, tuple, ndarray)
            for rep in range(6):
                if sel is None or isinstance(sel, int):
                    size = nch
                else:
                    size = len(sel)
                lst = [vals[int(i)] for i in rng.integers(0, len(vals), size)]
                lst = [lst, tuple(lst), np.array(lst)][rep % 3]
                out = any(not (lo <= v <= hi) for v in list(lst)[:nch]) or not sel_in_range(sel)
                exp = None if (not out and any(not (lo <= v <= hi) for v in lst)) else out
                _, cmds = call(ppg, cl, name, lst, sel, expect_warning=exp)
                got = [re.fullmatch(pat, c) for c in cmds]
                if len(cmds) != min(nch, size) or not all(got):
                    fail(cl, f'{name}({lst}, {sel}) emitted {cmds}')
                    continue
                for g, v in zip(got, lst):
                    want = min(max(v, lo), hi)
                    if abs(float(g[2]) - want) > max(tol, 1e-12 * abs(want)):
                        fail(cl, f'{name}({lst}, {sel}) sent {g[2]}, expected {want}')

    # PRBS order
    cl = 'C20.prbs_order'
    orders = list(range(-5, 40)) + [50, 100, 1000, 10**6, -100]
    for sel in sels:
        nch = n_channels(sel)
        for o in (orders if sel is None or isinstance(sel, int) and sel in (3, 5) else orders[::4]):
            out = o not in PRBS_ORDERS or not sel_in_range(sel)
            _, cmds = call(ppg, cl, 'set_prbs_order', o, sel, expect_warning=True if out else False)
            if len(cmds) != nch:
                fail(cl, f'set_prbs_order({o}, {sel}) emitted {cmds}')
                continue
            want = min(PRBS_ORDERS, key=lambda p: (abs(p - o), p))
            for c in cmds:
                m = re.fullmatch(r':DIG(\d):PATT:PLEN (\d+)', c)
                if not m:
                    continue
                if abs(int(m[2]) - o) != abs(want - o):
                    fail(cl, f'set_prbs_order({o}) sent {m[2]}, nearest is {want}')
        for rep in range(4):
            size = nch if (sel is None or isinstance(sel, int)) else len(sel)
            lst = [orders[int(i)] for i in rng.integers(0, len(orders), size)]
            lst = [lst, tuple(lst), np.array(lst)][rep % 3]
            _, cmds = call(ppg, cl, 'set_prbs_order', lst, sel)
            if len(cmds) != min(nch, size):
                fail(cl, f'set_prbs_order({lst}, {sel}) emitted {cmds}')

    # arbitrary sequences of set_* / get_* calls against the simulated instrument
    cl = 'C20.sequence'
    ppg = new_ppg()
    names = ['set_freq', 'set_patt_len', 'set_skew', 'set_output_voltage', 'set_offset', 'set_prbs_order',
             'get_patt_len', 'get_skew', 'get_output_voltage', 'get_offset', 'get_prbs_order', 'get_freq',
             'set_data', 'get_data']
    pools = {'set_patt_len': values_around(2, 2**21, rng, integer=True), 'set_skew': values_around(-25e-12, 25e-12, rng),
             'set_output_voltage': values_around(0.3, 2, rng), 'set_offset': values_around(-2, 3, rng),
             'set_prbs_order': orders, 'set_freq': values_around(1.5e9, 32e9, rng)}
    for _ in range(400):
        name = names[int(rng.integers(len(names)))]
        sel = sels[int(rng.integers(len(sels)))]
        if name == 'set_freq':
            call(ppg, cl, name, pools[name][int(rng.integers(len(pools[name])))])
        elif name == 'get_freq':
            call(ppg, cl, name)
        elif name in pools:
            call(ppg, cl, name, pools[name][int(rng.integers(len(pools[name])))], sel)
        elif name == 'set_data':
            call(ppg, cl, name, rng.integers(0, 2, int(rng.integers(1, 3000))), int(rng.integers(1, 5000)), sel)
        elif name == 'get_data':
            call(ppg, cl, name, int(rng.integers(1, 3000)), int(rng.integers(1, 5000)), sel)
        else:
            call(ppg, cl, name, sel)


# ---------------------------------------------------------------- clause B: memory round trip
def check_blocks(cmds, ch, start, bits, clause):
    blocks = []
    for c in cmds:
        m = re.fullmatch(r':DIG(\d+):PATT:DATA (\d+),(\d+),#(\d)(.*)', c)
        if m and int(m[1]) == ch:
            blocks.append((int(m[2]), int(m[3]), m[5][int(m[4]):]))
    addr = start
    got = ''
    for p, n, body in blocks:
        if p != addr:
            fail(clause, f'CH{ch}: block at {p}, expected consecutive address {addr}')
            return
        addr += n
        got += body
    if got != ''.join(map(str, bits)):
        fail(clause, f'CH{ch}: written bits differ from the data (start {start}, {len(bits)} bits)')
    if len(blocks) != -(-len(bits) // 1024):
        fail(clause, f'CH{ch}: {len(blocks)} blocks for {len(bits)} bits')


def check_memory():
    rng = np.random.default_rng(2002)
    cl = 'C20.memory'
    sels = [None, 1, 3, 4, [2], [1, 4], [3, 2], [1, 2, 3, 4], (2, 3), 0, 6, [0, 5], [1, 2, 3, 4, 5]]
    lengths = [1, 2, 3, 7, 12, 1023, 1024, 1025, 2047, 2048, 2049, 3072, 4096, 5000, 9999, 10000]
    lengths += [int(x) for x in rng.integers(1, 10001, 30)]
    starts = [1, 1, 2, 1000, 1024, 1025, 4097, 2**20, 2**21 - 10**4, 2**21 - 10**4 + 1]
    for i, n in enumerate(lengths):
        ppg = new_ppg()
        sel = sels[i % len(sels)]
        start = starts[i % len(starts)] if n + starts[i % len(starts)] - 1 <= 2**21 else 1
        if i >= 16:
            start = int(rng.integers(1, 2**21 - n + 2))
        bits = rng.integers(0, 2, n)
        kind = i % 4
        data = [bits, ''.join(map(str, bits)), [int(b) for b in bits], tuple(int(b) for b in bits)][kind]
        with warnings.catch_warnings():
            warnings.simplefilter('ignore')
            chs = [int(c) for c in ppg._check_channels(sel)]
        _, cmds = call(ppg, cl, 'set_data', data, start, sel, expect_warning=None if not sel_in_range(sel) else False)
        for ch in dict.fromkeys(chs):
            if chs.count(ch) == 1:
                check_blocks(cmds, ch, start, bits, cl)
        out, _ = call(ppg, cl, 'get_data', n, start, sel, expect_warning=None if not sel_in_range(sel) else False)
        if out is None:
            continue
        out = np.asarray(out)
        if out.shape != (len(chs), n):
            fail(cl, f'get_data({n}, {start}, {sel}) shape {out.shape}, expected {(len(chs), n)}')
            continue
        for row in out:
            if not np.array_equal(row, bits):
                fail(cl, f'get_data({n}, {start}, {sel}) differs from the bits written')
                break

    # per-channel rows
    for n in (5, 1024, 1500, 4097):
        for sel in ([1, 2], [4, 1, 3], None, [2]):
            ppg = new_ppg()
            nch = n_channels(sel)
            rows = rng.integers(0, 2, (nch, n))
            start = int(rng.integers(1, 10**5))
            data = rows if n % 2 else [list(map(int, r)) for r in rows]
            _, cmds = call(ppg, cl, 'set_data', data, start, sel, expect_warning=False)
            chs = [1, 2, 3, 4] if sel is None else sel
            for ch, r in zip(chs, rows):
                check_blocks(cmds, ch, start, r, cl)
            out, _ = call(ppg, cl, 'get_data', n, start, sel, expect_warning=False)
            if out is None or not np.array_equal(np.asarray(out), rows):
                fail(cl, f'per-channel rows n={n} CHs={sel}: read back differs')

    # start address outside 1..2^21 is clamped with a warning in both directions; the room left limits the data
    cl = 'C20.memory.address'
    for start, n in ((0, 10), (-5, 1030), (2**21 + 1, 3), (2**21 + 500, 1), (2**21 - 4, 20), (2**21, 7), (2**21 - 1030, 5000)):
        ppg = new_ppg()
        bits = rng.integers(0, 2, n)
        for data in (bits, ''.join(map(str, bits)), np.tile(bits, (2, 1))):
            ppg = new_ppg()
            sel = [2, 3] if np.ndim(data) == 2 else 2
            s = min(max(start, 1), 2**21)
            room = 2**21 - s + 1
            _, cmds = call(ppg, cl, 'set_data', data, start, sel, expect_warning=True)
            check_blocks(cmds, 2, s, bits[:room], cl)
            out, _ = call(ppg, cl, 'get_data', n, start, sel, expect_warning=True)
            if out is None:
                continue
            if not all(np.array_equal(r, bits[:room]) for r in np.asarray(out)):
                fail(cl, f'start {start}, {n} bits: read back differs from what was written')

    # optional feature: binary_sequence as data
    cl = 'C20.memory.binary_sequence'
    ppg = new_ppg()
    bits = rng.integers(0, 2, 2500)
    try:
        with warnings.catch_warnings():
            warnings.simplefilter('ignore')
            ppg.set_data(binary_sequence(bits), 17, [1, 3])
        supported = True
    except ValueError:
        supported = False
    if supported:
        cmds = ppg.inst.log
        for c in cmds:
            check_command(c, cl)
        check_blocks(cmds, 1, 17, bits, cl)
        check_blocks(cmds, 3, 17, bits, cl)
        out, _ = call(ppg, cl, 'get_data', 2500, 17, [1, 3], expect_warning=False)
        if out is None or not all(np.array_equal(r, bits) for r in np.asarray(out)):
            fail(cl, 'binary_sequence data not read back')
        ppg = new_ppg()
        _, cmds = call(ppg, cl, 'set_data', binary_sequence(bits[:20]), 2**21 - 4, 2, expect_warning=True)
        check_blocks(cmds, 2, 2**21 - 4, bits[:5], cl)
        ppg = new_ppg()
        _, cmds = call(ppg, cl, 'set_data', binary_sequence(bits[:9]), 0, 4, expect_warning=True)
        check_blocks(cmds, 4, 1, bits[:9], cl)
    else:
        print('skip: set_data(binary_sequence)')


# ---------------------------------------------------------------- clause C: SYNC
def lfsr(order, taps, n=None, seed=1):
    state = [(seed >> i) & 1 for i in range(order)]
    if not any(state):
        state[0] = 1
    out = []
    for _ in range(n or 2**order - 1):
        out.append(state[-1])
        fb = 0
        for t in taps:
            fb ^= state[t - 1]
        state = [fb] + state[:-1]
    return np.array(out, dtype=np.uint8)


def check_sync():
    rng = np.random.default_rng(2003)
    cl = 'C20.sync'
    params = inspect.signature(SYNC).parameters
    patterns = [lfsr(7, (7, 6)), lfsr(7, (7, 6), seed=77), lfsr(9, (9, 5)), lfsr(9, (9, 5), n=200, seed=301),
                lfsr(11, (11, 9), n=160, seed=5), lfsr(15, (15, 14), n=128, seed=12345), lfsr(7, (7, 6), n=64, seed=9)]
    ncase = 0
    for pi, patt in enumerate(patterns):
        for sps in (2, 4, 8):
            wave = np.kron(patt, np.ones(sps))
            l = wave.size
            delays = sorted(set([0, 1, 2, sps - 1, sps, l // 2, l - sps, l - 2, l - 1] + [int(x) for x in rng.integers(0, l, 10)]))
            for d in delays:
                reps = int(rng.integers(3, 6))
                rx = np.tile(wave, reps + 2)[l - d: l - d + reps * l]
                amp = float(rng.choice([1.0, 0.5, 3.0]))
                sigma = float(rng.choice([0.0, 0.05, 0.15, 0.25]))
                rx = amp * (rx + sigma * rng.standard_normal(rx.size))
                kind = ncase % 3
                ncase += 1
                try:
                    if kind == 0:
                        sig, i = SYNC(rx, patt, sps)
                    elif kind == 1:
                        sig, i = SYNC(rx, binary_sequence(patt), sps=sps)
                    else:
                        gv(sps=sps, R=1e9)
                        sig, i = SYNC(electrical_signal(rx), patt)
                except Exception as e:
                    fail(cl, f'pattern {pi} sps {sps} d {d} sigma {sigma}: raised {type(e).__name__}: {e}')
                    continue
                if int(i) != d:
                    fail(cl, f'pattern {pi} sps {sps} sigma {sigma}: index {i}, expected {d}')
                    continue
                s = np.asarray(sig.signal)
                if not isinstance(sig, electrical_signal) or s.size < 1 or not np.array_equal(s, rx[d:d + s.size]):
                    fail(cl, f'pattern {pi} sps {sps} d {d}: signal does not start at sample {d}')
                if 'max_delay' in params and d <= l // 2:
                    sig2, i2 = SYNC(rx, patt, sps, max_delay=l // 2)
                    if int(i2) != d or not np.array_equal(np.asarray(sig2.signal), s):
                        fail(cl + '.max_delay', f'pattern {pi} sps {sps} d {d}: index {i2} with max_delay={l // 2}')
                if 'max_delay' in params:
                    sig3, i3 = SYNC(rx, patt, sps, max_delay=[l - 1, l, 7 * l][ncase % 3])
                    if int(i3) != d or not np.array_equal(np.asarray(sig3.signal), s):
                        fail(cl + '.max_delay', f'pattern {pi} sps {sps} d {d}: index {i3} with max_delay >= l-1')
                if hasattr(sig, 'delay') and int(sig.delay) != d:
                    fail(cl + '.delay', f'attribute delay {sig.delay}, expected {d}')
            # a record shorter than the pattern is rejected
            for short in (1, l // 2, l - 1):
                try:
                    SYNC(rng.standard_normal(short), patt, sps)
                    fail(cl, f'record of {short} < {l} samples accepted')
                except Exception:
                    pass
    if 'max_delay' not in params:
        print('skip: SYNC(max_delay=)')


if __name__ == '__main__':
    check_limits()
    check_memory()
    check_sync()
    finish()
