import sys, os

_here = os.path.dirname(os.path.abspath(__file__))
if sys.path and os.path.abspath(sys.path[0] or '.') == _here:
    del sys.path[0]

import inspect
import itertools
import operator
import warnings

import numpy as np
from numpy.fft import fft, ifft, fftfreq, fftshift, ifftshift
from scipy.constants import c, pi

warnings.simplefilter('ignore')

from opticomlib.typing import gv, global_variables, binary_sequence, electrical_signal, optical_signal
from opticomlib import devices

FAILS = []


def check(cond, clause, detail=''):
    if not cond:
        FAILS.append(f'{clause}: {detail}')
        if len(FAILS) > 40:
            finish()


def finish():
    if FAILS:
        for f in FAILS[:40]:
            print('FAIL', f)
        sys.exit(1)
    print('PASS')
    sys.exit(0)


# ---------------------------------------------------------------- helpers
def total(x):
    return x.signal if x.noise is None else x.signal + x.noise


def snap(x):
    return (x.signal.copy(), None if x.noise is None else x.noise.copy())


def same_snap(x, s):
    a = x.signal.dtype == s[0].dtype and x.signal.shape == s[0].shape and x.signal.tobytes() == s[0].tobytes()
    if s[1] is None:
        return a and x.noise is None
    return a and x.noise is not None and x.noise.dtype == s[1].dtype and x.noise.tobytes() == s[1].tobytes()


def npol_of(x):
    return 2 if x.signal.ndim == 2 else 1


def valid(x, cls, npol, length):
    if type(x) is not cls:
        return False
    s, n = x.signal, x.noise
    if not isinstance(s, np.ndarray) or s.size < 1:
        return False
    if npol == 1:
        if s.ndim != 1 or s.shape[0] != length:
            return False
    else:
        if s.ndim != 2 or s.shape != (2, length):
            return False
    if n is not None:
        if not isinstance(n, np.ndarray) or n.shape != s.shape:
            return False
    if cls is optical_signal and x.n_pol != npol:
        return False
    if x.len() != length or len(x) != length:
        return False
    return True


def arrays_of(x):
    return [a for a in (x.signal, x.noise) if a is not None]


def no_alias(res, *ops):
    for r in arrays_of(res):
        for o in ops:
            if isinstance(o, (electrical_signal,)):
                for a in arrays_of(o):
                    if np.shares_memory(r, a):
                        return False
            elif isinstance(o, np.ndarray):
                if np.shares_memory(r, o):
                    return False
    return True


def close(a, b, tol=1e-9):
    a = np.asarray(a); b = np.asarray(b)
    if a.shape != b.shape:
        return False
    scale = max(1.0, float(np.max(np.abs(b))) if b.size else 1.0)
    return bool(np.all(np.abs(a - b) <= tol * scale))


def rand_array(rng, shape, kind):
    if kind == 'int':
        return rng.integers(-9, 10, size=shape)
    if kind == 'float':
        return rng.normal(size=shape)
    return rng.normal(size=shape) + 1j * rng.normal(size=shape)


def make(rng, cls, npol, L, kind, noisy):
    shape = (L,) if npol == 1 else (2, L)
    s = rand_array(rng, shape, kind)
    n = rand_array(rng, shape, kind) if noisy else None
    if cls is electrical_signal:
        return cls(s, n)
    return cls(s, n)


LENGTHS = [1, 2, 3, 5, 7, 16, 101, 1009]
KINDS = ['int', 'float', 'complex']
LAYOUTS = [(electrical_signal, 1), (optical_signal, 1), (optical_signal, 2)]


# ---------------------------------------------------------------- C01 constructors
def c01_constructors():
    C = 'C01 constructor'
    for cls in (electrical_signal, optical_signal):
        for form, L in [(3, 1), (2.5, 1), (1 + 2j, 1), ([1, 2, 3], 3), ((1., 2.), 2), ('1 2 3,4', 4), ('1+2j, 3-1j', 2),
                        ('1 1 0', 3), ('101', 3), (np.arange(5), 5), (np.array([True, False]), 2), (True, 1), (np.float32(2), 1),
                        ([7], 1)]:
            x = cls(form)
            check(valid(x, cls, 1, L), C, f'{cls.__name__}({form!r})')
            check(x.noise is None, C, 'noise None')
            y = cls(form, form)
            check(valid(y, cls, 1, L) and y.noise is not None, C, f'{cls.__name__}({form!r}, noise)')
            if isinstance(form, np.ndarray):
                check(no_alias(y, form), C, 'constructor aliases its ndarray argument')
    # 0/1 text and booleans are numbers
    for cls in (electrical_signal, optical_signal):
        r = cls('1 1 0') + '1 0 1'
        check(np.array_equal(total(r), [2, 1, 1]), C, '0/1 text added as numbers')
        r = cls('1 1 0') - '1 0 1'
        check(np.array_equal(total(r), [0, 1, -1]), C, '0/1 text subtracted as numbers')
        r = cls('1 1 0', '1 0 1')
        check(np.array_equal(total(r), [2, 1, 1]), C, 'signal+noise of 0/1 strings reaches 2')
    # optical layouts
    for form, L in [(2.0, 1), ([1, 2, 3], 3), ([[1, 2, 3]], 3), ([[1, 2, 3], [4, 5, 6]], 3), ('1 2 3; 4 5 6', 3)]:
        for n_pol in (None, 1, 2):
            nd = np.ndim(form) if not isinstance(form, str) else 2
            exp = n_pol if n_pol is not None else (2 if nd == 2 else 1)
            x = optical_signal(form, n_pol=n_pol)
            check(valid(x, optical_signal, exp, L), C, f'optical_signal({form!r}, n_pol={n_pol})')
            y = optical_signal(form, form, n_pol=n_pol)
            check(valid(y, optical_signal, exp, L) and y.noise is not None, C, f'optical_signal({form!r}, noise, n_pol={n_pol})')
    y = optical_signal(1.5, noise=0.5, n_pol=2)
    check(valid(y, optical_signal, 2, 1) and np.array_equal(y.noise, [[0.5], [0.5]]), C, 'scalar noise duplicated for n_pol=2')
    for bad in ([], np.zeros((2, 2)), np.zeros((0,))):
        try:
            electrical_signal(bad)
            check(False, C, f'electrical_signal({bad!r}) accepted')
        except ValueError:
            pass
    for bad in ([], np.zeros((3, 4)), np.zeros((2, 2, 2))):
        try:
            optical_signal(bad)
            check(False, C, f'optical_signal({bad!r}) accepted')
        except ValueError:
            pass


# ---------------------------------------------------------------- C01 slicing / copy
def slice_forms(L):
    ints = sorted({0, L - 1, L // 2, -1, -L})
    out = [k for k in ints] + [np.int64(k) for k in ints] + [np.int32(L // 2), np.uint8(0), np.intp(-1)]
    out += [slice(None), slice(None, None, 2), slice(None, None, -1), slice(1, None, 3), slice(-3, None), slice(None, L // 2 + 1),
            slice(L // 2, None), slice(-1, None, -2), slice(0, 1), slice(None, -1), slice(L // 3, 2 * L // 3 + 1, 2)]
    return out


def c01_slicing(rng):
    C = 'C01 slicing'
    for (cls, npol), L, kind, noisy in itertools.product(LAYOUTS, LENGTHS, KINDS, (False, True)):
        x = make(rng, cls, npol, L, kind, noisy)
        s0 = snap(x)
        for sl in slice_forms(L):
            if isinstance(sl, slice):
                sel = np.arange(L)[sl]
                if sel.size == 0:
                    continue
            else:
                sel = np.arange(L)[[int(sl)]]
            y = x[sl]
            exp_s = x.signal[..., sel]
            ok = valid(y, cls, npol, sel.size) and np.array_equal(y.signal, exp_s) and (y.noise is None) == (x.noise is None)
            if ok and noisy:
                ok = np.array_equal(y.noise, x.noise[..., sel])
            check(ok, C, f'{cls.__name__} npol={npol} L={L} {kind} noisy={noisy} [{sl!r}]')
            check(no_alias(y, x), C, f'slice shares memory [{sl!r}]')
        cp = x.copy()
        check(valid(cp, cls, npol, L) and same_snap(cp, s0) and no_alias(cp, x), 'C01 copy', f'{cls.__name__} npol={npol} L={L}')
        check(same_snap(x, s0), C, 'operand modified by slicing/copy')


# ---------------------------------------------------------------- C01 arithmetic
def as_plain(o):
    """array value of an operand under the model (total field)"""
    if isinstance(o, electrical_signal):
        return total(o)
    if isinstance(o, str):
        from opticomlib.utils import str2array
        a = str2array(o)
        return a.astype(int) if a.dtype == bool else a
    a = np.asarray(o)
    return a.astype(int) if a.dtype == bool else a


def operands_for(rng, x, cls, npol, L, kind):
    """(other, side) pairs; side 'r' = right-hand side only, 'b' = both sides"""
    ops = []
    for noisy in (False, True):
        ops.append((make(rng, cls, npol, L, kind, noisy), 'b'))
        ops.append((make(rng, cls, npol, 1, kind, noisy), 'r'))
    ops += [(3, 'b'), (-2.5, 'b'), (1.5 - 2j, 'b'), (True, 'b')]
    v = rand_array(rng, (L,), 'int')
    ops += [(list(v.tolist()), 'b'), (tuple(v.tolist()), 'b'), ([2.5], 'b'), ((4,), 'b')]
    ops += [(' '.join(str(abs(int(k)) % 7 + 2) for k in v), 'b'), ('3', 'b'), ('1.5, ' * (L - 1) + '2', 'b')]
    if L > 1:
        ops.append((' '.join('10'[int(k) % 2] for k in v), 'b'))
    ops += [(rand_array(rng, (L,), kind), 'r'), (rand_array(rng, (1,), kind), 'r'), (np.float64(1.25), 'r'), (np.int64(-3), 'r'),
            (np.complex128(1j), 'r'), (np.array(2.0), 'r')]
    if npol == 2:
        ops.append((rand_array(rng, (2, L), kind), 'r'))
    return ops


def c01_arith(rng):
    for (cls, npol), L, kind, noisy in itertools.product(LAYOUTS, [1, 2, 3, 7, 16, 101], KINDS, (False, True)):
        x = make(rng, cls, npol, L, kind, noisy)
        sx = snap(x)
        for other, side in operands_for(rng, x, cls, npol, L, kind):
            so = snap(other) if isinstance(other, electrical_signal) else (other.copy() if isinstance(other, np.ndarray) else None)
            o_noisy = isinstance(other, electrical_signal) and other.noise is not None
            po = as_plain(other)
            cases = [('+', lambda: x + other, lambda: total(x) + po), ('-', lambda: x - other, lambda: total(x) - po), ('*', lambda: x * other, None)]
            if side == 'b':
                cases += [('r+', lambda: other + x, lambda: po + total(x)), ('r-', lambda: other - x, lambda: po - total(x)), ('r*', lambda: other * x, None)]
            for name, f, model in cases:
                tag = f'{cls.__name__} npol={npol} L={L} {kind} noisy={noisy} {name} {type(other).__name__}'
                try:
                    r = f()
                except Exception as e:
                    check(False, 'C01 arithmetic', f'{tag} raised {type(e).__name__}: {e}')
                    continue
                check(valid(r, cls, npol, L), 'C01 arithmetic result shape/class', tag)
                check(no_alias(r, x, other), 'C01 arithmetic aliasing', tag)
                if model is not None:
                    check(close(total(r), np.broadcast_to(model(), x.signal.shape), 1e-12), 'C01 total field of +/-', tag)
                    check((r.noise is not None) == (noisy or o_noisy), 'C01 noise iff an operand has noise', tag)
            check(same_snap(x, sx), 'C01 operand unchanged', 'left')
            if isinstance(other, electrical_signal):
                check(same_snap(other, so), 'C01 operand unchanged', 'right object')
            elif isinstance(other, np.ndarray):
                check(np.array_equal(other, so), 'C01 operand unchanged', 'right ndarray')
        # length mismatch
        if L > 1:
            for M in (L + 1, L - 1 if L > 2 else L + 2):
                bads = [make(rng, cls, npol, M, kind, False), make(rng, cls, npol, M, kind, True), list(range(M)), tuple(range(M)),
                        ' '.join(str(k + 2) for k in range(M)), np.arange(M)]
                for b in bads:
                    fs = [lambda: x + b, lambda: x - b]
                    if not isinstance(b, np.ndarray):
                        fs += [lambda: b + x, lambda: b - x]
                    for f in fs:
                        try:
                            f()
                            check(False, 'C01 different lengths rejected with ValueError', f'{cls.__name__} L={L} M={M} {type(b).__name__} accepted')
                        except ValueError:
                            pass
                        except Exception as e:
                            check(False, 'C01 different lengths rejected with ValueError', f'{type(e).__name__}')
    # length-1 operand carrying the noise (repairs 283d3a5, a957e90)
    for cls in (electrical_signal, optical_signal):
        a = cls([1., 2., 3.]); b = cls(2., 0.5)
        for name, r, exp in [('+', a + b, [3.5, 4.5, 5.5]), ('-', a - b, [-1.5, -.5, .5]), ('r-', b.__rsub__(a) if False else a.__rsub__(b), [1.5, .5, -.5])]:
            check(valid(r, cls, 1, 3) and r.noise is not None and close(total(r), exp), 'C01 length-1 noisy operand broadcasts', name)
        r = a * b
        check(valid(r, cls, 1, 3) and r.noise is not None, 'C01 length-1 noisy operand broadcasts', '*')


# ---------------------------------------------------------------- C01 expression trees
def c01_trees(rng):
    C = 'C01 expression tree'

    def leaf(cls, npol, L):
        return make(rng, cls, npol, L, rng.choice(KINDS), bool(rng.integers(2)))

    def build(cls, npol, depth):
        if depth == 0 or rng.random() < 0.15:
            return leaf(cls, npol, int(rng.choice([1, 2, 3, 5, 8, 13])))
        kind = rng.choice(['bin', 'bin', 'bin', 'slice', 'copy'])
        if kind == 'copy':
            a = build(cls, npol, depth - 1)
            sa = snap(a)
            r = a.copy()
            check(valid(r, cls, npol, a.len()) and same_snap(r, sa) and no_alias(r, a) and same_snap(a, sa), C, 'copy node')
            return r
        if kind == 'slice':
            a = build(cls, npol, depth - 1)
            L = a.len()
            for _ in range(20):
                sl = slice_forms(L)[int(rng.integers(len(slice_forms(L))))]
                sel = np.arange(L)[sl] if isinstance(sl, slice) else np.arange(L)[[int(sl)]]
                if sel.size:
                    break
            sa = snap(a)
            r = a[sl]
            ok = valid(r, cls, npol, sel.size) and np.array_equal(r.signal, a.signal[..., sel]) and (r.noise is None) == (a.noise is None)
            if ok and a.noise is not None:
                ok = np.array_equal(r.noise, a.noise[..., sel])
            check(ok and no_alias(r, a) and same_snap(a, sa), C, f'slice node {sl!r}')
            return r
        a = build(cls, npol, depth - 1)
        L = a.len()
        choice = rng.integers(5)
        if choice == 0:
            b = build(cls, npol, depth - 1)
            m = min(L, b.len())
            if b.len() != 1 and b.len() != L:
                a, b = a[:m], b[:m]
                L = m
        elif choice == 1:
            b = leaf(cls, npol, L if rng.random() < 0.7 else 1)
        elif choice == 2:
            b = [3, -1.5, 2j, np.float64(0.5)][int(rng.integers(4))]
        elif choice == 3:
            b = rand_array(rng, (L,), 'int').tolist()
            if rng.random() < 0.5:
                b = tuple(b)
        else:
            b = ' '.join(str(abs(int(k)) % 7 + 2) for k in rand_array(rng, (L,), 'int'))
        sa = snap(a)
        sb = snap(b) if isinstance(b, electrical_signal) else None
        pb = as_plain(b)
        op = rng.choice(['+', '-', '*'])
        refl = (not isinstance(b, (electrical_signal, np.generic))) and rng.random() < 0.5
        if op == '+':
            r = (b + a) if refl else (a + b); exp = total(a) + pb
        elif op == '-':
            r = (b - a) if refl else (a - b); exp = (pb - total(a)) if refl else (total(a) - pb)
        else:
            r = (b * a) if refl else (a * b); exp = None
        L_out = L if not (isinstance(b, electrical_signal) and L == 1 and b.len() != 1) else L
        check(valid(r, cls, npol, L_out), C, f'{op} node validity')
        check(no_alias(r, a, b), C, f'{op} node aliasing')
        if exp is not None:
            check(close(total(r), np.broadcast_to(exp, a.signal.shape), 1e-12), C, f'{op} node total field')
            check((r.noise is not None) == (a.noise is not None or (isinstance(b, electrical_signal) and b.noise is not None)), C, f'{op} node noise flag')
        check(same_snap(a, sa) and (sb is None or same_snap(b, sb)), C, f'{op} node operands unchanged')
        return r

    for i in range(600):
        cls, npol = LAYOUTS[i % 3]
        try:
            build(cls, npol, 6)
        except Exception as e:
            check(False, C, f'raised {type(e).__name__}: {e}')


# ---------------------------------------------------------------- C02
GV_CONFIGS = [dict(sps=16, R=1e9), dict(sps=8, R=10e9), dict(sps=4, fs=40e9), dict(R=2.5e9, fs=20e9), dict(sps=32, R=1e9, N=4)]


def c02(rng):
    C = 'C02'
    for cfg in GV_CONFIGS:
        gv.clean()
        gv(**cfg)
        for (cls, npol), L, kind, noisy in itertools.product(LAYOUTS, [1, 2, 3, 5, 8, 13, 16, 64, 101, 128], ['float', 'complex'], (False, True)):
            x = make(rng, cls, npol, L, kind, noisy)
            sx = snap(x)
            tag = f'{cls.__name__} npol={npol} L={L} {kind} noisy={noisy}'
            for dom in ('w', 'f'):
                X = x(dom)
                check(valid(X, cls, npol, L) and (X.noise is None) == (x.noise is None), C + ' forward returns same container', tag)
                check(close(X.signal, fft(x.signal, axis=-1), 1e-10), C + ' forward is the row-wise DFT', tag)
                if noisy:
                    check(close(X.noise, fft(x.noise, axis=-1), 1e-10), C + ' forward DFT of noise', tag)
                back = X('t')
                check(valid(back, cls, npol, L) and close(back.signal, x.signal, 1e-10) and (not noisy or close(back.noise, x.noise, 1e-10)), C + ' inverse pair', tag)
                check(close(np.sum(np.abs(X.signal) ** 2, axis=-1), L * np.sum(np.abs(x.signal) ** 2, axis=-1), 1e-9), C + ' Parseval', tag)
                Xs = x(dom, shift=True)
                check(valid(Xs, cls, npol, L) and close(ifftshift(Xs.signal, axes=-1), X.signal, 1e-10) and close(Xs.signal, fftshift(X.signal, axes=-1), 1e-10), C + ' shift=True forward', tag)
                if noisy:
                    check(close(ifftshift(Xs.noise, axes=-1), X.noise, 1e-10), C + ' shift=True forward noise', tag)
                check(no_alias(X, x) and no_alias(Xs, x), 'C01/C14 transform aliasing', tag)
            xt = x('t')
            check(valid(xt, cls, npol, L) and close(xt.signal, ifft(x.signal, axis=-1), 1e-10), C + ' inverse is the row-wise IDFT', tag)
            xts = x('t', shift=True)
            check(close(fftshift(xts.signal, axes=-1), xt.signal, 1e-10) and close(xts.signal, ifftshift(xt.signal, axes=-1), 1e-10), C + ' shift=True inverse', tag)
            check(close(x('t')('w').signal, x.signal, 1e-10), C + ' inverse pair (t then w)', tag)
            w = x.w()
            check(w.shape == (L,) and close(w, 2 * pi * fftfreq(L) * gv.fs, 1e-12), C + ' w axis', tag)
            check(close(x.w(shift=True), fftshift(2 * pi * fftfreq(L) * gv.fs), 1e-12), C + ' w axis shifted', tag)
            check(close(x.power(), np.mean(np.abs(total(x)) ** 2, axis=-1), 1e-12), C + ' power', tag)
            check(same_snap(x, sx), 'C01 operand unchanged by transform', tag)
    gv.clean()


# ---------------------------------------------------------------- C14
DEFAULT_KEYS = None


def gv_consistent(tag):
    C = 'C14 grid'
    check(isinstance(gv.sps, (int, np.integer)) and not isinstance(gv.sps, bool), C + ' sps integer', tag)
    check(np.isclose(gv.fs, gv.R * gv.sps, rtol=1e-12, atol=0), C + ' fs = R*sps', tag)
    check(gv.dt == 1 / gv.fs, C + ' dt = 1/fs', tag)
    check(gv.f0 == c / gv.wavelength, C + ' f0 = c/wavelength', tag)
    if gv.N is not None:
        n = gv.N * gv.sps
        check(gv.t is not None and len(gv.t) == n, C + ' t has N*sps points', tag)
        check(gv.w is not None and len(gv.w) == n, C + ' w has N*sps points', tag)
        check(np.isclose(gv.dw, 2 * pi * gv.fs / n, rtol=1e-12, atol=0), C + ' dw', tag)
        if gv.w is not None and len(gv.w) == n:
            check(close(gv.w, 2 * pi * fftshift(fftfreq(n)) * gv.fs, 1e-12), C + ' w on the current fs', tag)
        if gv.t is not None and len(gv.t) == n:
            check(gv.t[0] == 0 and np.isclose(gv.t[-1], n * gv.dt, rtol=1e-9), C + ' t on the current fs', tag)


def gv_is_default(tag):
    C = 'C14 clean restores every default'
    fresh = global_variables()
    check(set(vars(gv)) == set(vars(fresh)), C, f'{tag}: attributes {sorted(set(vars(gv)) ^ set(vars(fresh)))}')
    for k, v in vars(fresh).items():
        if k in vars(gv):
            check(getattr(gv, k) is v or getattr(gv, k) == v, C, f'{tag}: {k}')


def c14_gv(rng):
    class Foo:
        pass

    custom_values = [0.5, 'text', None, [1, 2], len, Foo, Foo(), electrical_signal([1, 2]), optical_signal([1, 2]), lambda z: z, np.arange(3), 0, False]
    for trial in range(300):
        gv.clean()
        gv_is_default('start')
        customs = {}
        for step in range(int(rng.integers(1, 9))):
            if rng.random() < 0.15:
                gv.clean()
                customs = {}
                gv_is_default(f'trial {trial} step {step}')
                gv_consistent(f'trial {trial} after clean')
                continue
            kw = {}
            mode = rng.integers(7)
            sps = int(rng.choice([2, 4, 8, 16, 32, 5]))
            R = float(rng.choice([1e9, 2.5e9, 10e9, 40e9]))
            if mode == 0:
                kw.update(sps=sps, R=R)
            elif mode == 1:
                kw.update(sps=sps, fs=R * sps)
            elif mode == 2:
                kw.update(R=R, fs=R * sps)
            elif mode == 3:
                kw.update(sps=sps)
            elif mode == 4:
                kw.update(R=R)
            elif mode == 5:
                kw.update(fs=gv.R * sps)
            if mode == 0 and rng.random() < 0.3:
                kw.update(fs=R * sps)
            if rng.random() < 0.3:
                kw['wavelength'] = float(rng.choice([1310e-9, 1549e-9, 1550e-9, 1625e-9]))
            if rng.random() < 0.4:
                kw['N'] = int(rng.choice([1, 2, 7, 10, 128]))
            for _ in range(int(rng.integers(0, 3))):
                name = str(rng.choice(['alpha', 'beta', 'my_filter', 'ref', 'x0']))
                kw[name] = custom_values[int(rng.integers(len(custom_values)))]
            N_before = gv.N
            ret = gv(**kw)
            tag = f'trial {trial} step {step} gv({kw})'
            check(ret is gv, 'C14 gv returns itself', tag)
            for k in ('sps', 'R', 'fs', 'wavelength', 'N'):
                if k in kw:
                    check(getattr(gv, k) == kw[k], 'C14 value passed is in force', f'{tag}: {k}')
            if 'N' not in kw:
                check(gv.N == N_before, 'C14 N stays in effect when omitted', tag)
            for k, v in kw.items():
                if k not in ('sps', 'R', 'fs', 'wavelength', 'N'):
                    customs[k] = v
            for k, v in customs.items():
                check(hasattr(gv, k) and getattr(gv, k) is v, 'C14 custom attributes persist until clean()', f'{tag}: {k}')
            gv_consistent(tag)
        gv.clean()
        gv_is_default(f'trial {trial} end')
        gv_consistent('after final clean')
    # optional keep parameter of clean(): a later plain clean() still restores every default
    if 'keep' in inspect.signature(gv.clean).parameters:
        for keep in (('alpha',), ['alpha', 'ref'], 'alpha', (), ('sps', 'N', 't'), ('missing',)):
            gv(sps=8, R=10e9, N=4, wavelength=1310e-9, alpha=1, ref=len, beta=Foo)
            gv.clean(keep=keep)
            gv_consistent(f'clean(keep={keep!r})')
            check(gv.sps == 16 and gv.R == 1e9 and gv.N is None and gv.t is None and gv.wavelength == 1550e-9, 'C14 clean(keep) restores the grid defaults', repr(keep))
            check(not hasattr(gv, 'beta'), 'C14 clean(keep) removes what is not kept', repr(keep))
            gv.clean()
            gv_is_default(f'clean() after clean(keep={keep!r})')
    gv.clean()


def gv_snapshot():
    out = {}
    for k, v in vars(gv).items():
        out[k] = v.copy() if isinstance(v, np.ndarray) else v
    return out


def gv_same(s):
    if set(s) != set(vars(gv)):
        return False
    for k, v in s.items():
        g = getattr(gv, k)
        if isinstance(v, np.ndarray):
            if not (isinstance(g, np.ndarray) and np.array_equal(g, v)):
                return False
        elif not (g is v or g == v):
            return False
    return True


def out_arrays(o):
    if isinstance(o, electrical_signal):
        return arrays_of(o)
    if isinstance(o, binary_sequence):
        return [o.data]
    if isinstance(o, np.ndarray):
        return [o]
    if isinstance(o, (tuple, list)):
        return [a for e in o for a in out_arrays(e)]
    return []


def out_equal(a, b):
    A, B = out_arrays(a), out_arrays(b)
    return len(A) == len(B) and all(p.shape == q.shape and p.dtype == q.dtype and p.tobytes() == q.tobytes() for p, q in zip(A, B))


def c14_devices(rng):
    C = 'C14 devices'
    gv.clean()
    gv(sps=8, R=10e9, N=16, tag='kept')
    bits = binary_sequence(rng.integers(0, 2, 16))
    el = electrical_signal(rng.normal(size=128) + 1.0, 0.01 * rng.normal(size=128))
    op1 = optical_signal(rng.normal(size=128) + 1j * rng.normal(size=128), 0.01 * (rng.normal(size=128) + 1j * rng.normal(size=128)))
    op2 = optical_signal(rng.normal(size=(2, 128)) + 1j * rng.normal(size=(2, 128)))
    D = np.array([20.0])
    calls = [
        ('PRBS', lambda: devices.PRBS(7, 40), False),
        ('DAC', lambda: devices.DAC(bits, Vout=2.0), False),
        ('DAC gaussian', lambda: devices.DAC(bits, pulse_shape='gaussian'), False),
        ('PM', lambda: devices.PM(op1, el, Vpi=3.0), False),
        ('MZM', lambda: devices.MZM(op1, el, bias=1.0), False),
        ('BPF', lambda: devices.BPF(op2, 20e9), False),
        ('EDFA', lambda: devices.EDFA(op1, 10, 5), True),
        ('DM', lambda: devices.DM(op2, D[0]), False),
        ('LPF', lambda: devices.LPF(el, 7e9), False),
        ('PD', lambda: devices.PD(op1, 10e9), True),
        ('ADC', lambda: devices.ADC(el, n=4), False),
        ('SAMPLER', lambda: devices.SAMPLER(el, 3), False),
    ]
    inputs = [bits.data, el.signal, el.noise, op1.signal, op1.noise, op2.signal, D]
    snaps = [a.copy() for a in inputs]
    g0 = gv_snapshot()
    ref = {}
    for order in (list(range(len(calls))), list(range(len(calls)))[::-1], list(rng.permutation(len(calls)))):
        for seed in (0, 12345):
            for i in order:
                name, f, random = calls[i]
                np.random.seed(seed)
                try:
                    out = f()
                except Exception as e:
                    check(False, C, f'{name} raised {type(e).__name__}: {e}')
                    continue
                check(gv_same(g0), C + ' do not modify gv', name)
                check(all(np.array_equal(a, b) and a.dtype == b.dtype for a, b in zip(inputs, snaps)), C + ' do not modify their arguments', name)
                for a in out_arrays(out):
                    check(not any(np.shares_memory(a, b) for b in inputs), C + ' outputs never alias inputs', name)
                key = (name, seed if random else None)
                if key in ref:
                    check(out_equal(out, ref[key]), C + ' reproducible bit-for-bit', name)
                else:
                    ref[key] = out
    gv.clean()


# ---------------------------------------------------------------- C15
def bs_valid(b, n=None):
    return type(b) is binary_sequence and isinstance(b.data, np.ndarray) and b.data.ndim == 1 and b.data.dtype == np.uint8 \
        and bool(np.all((b.data == 0) | (b.data == 1))) and (n is None or (b.len() == n and len(b) == n))


def c15(rng):
    C = 'C15'
    for n in range(1, 13):
        for tup in itertools.product((0, 1), repeat=n):
            s = ''.join(map(str, tup))
            arr = np.array(tup)
            a = binary_sequence(s)
            ok = bs_valid(a, n) and np.array_equal(a.data, arr)
            if n <= 8 or rng.random() < 0.1:
                for form in (list(tup), tup, arr, arr.astype(bool), arr.astype(float), ' '.join(s), ','.join(s), [bool(k) for k in tup]):
                    f = binary_sequence(form)
                    ok = ok and bs_valid(f, n) and np.array_equal(f.data, arr)
            check(ok, C + ' construction', s)
            d0 = a.data.copy()
            inv = ~a
            check(bs_valid(inv, n) and np.array_equal(inv.data, 1 - arr) and (~inv == a) and np.array_equal((~inv).data, arr), C + ' inversion', s)
            check(a.ones() + a.zeros() == a.len() == n and a.ones() == arr.sum() and inv.ones() == a.zeros(), C + ' ones/zeros', s)
            check(not np.shares_memory(inv.data, a.data), C + ' new object', s)
            for sl in (0, -1, np.int64(n // 2), slice(None), slice(None, None, 2), slice(None, None, -1), slice(1, None), slice(None, n // 2 + 1), slice(-2, None)):
                exp = np.atleast_1d(arr[sl])
                if exp.size == 0:
                    continue
                g = a[sl]
                check(bs_valid(g, exp.size) and np.array_equal(g.data, exp), C + ' slicing', f'{s}[{sl!r}]')
            m = int(rng.integers(1, 13))
            barr = rng.integers(0, 2, m)
            for b in (binary_sequence(barr), ''.join(map(str, barr)), list(barr.tolist()), tuple(barr.tolist()), barr.copy()):
                r = a + b
                check(bs_valid(r, n + m) and np.array_equal(r.data, np.concatenate((arr, barr))) and r[:n] == a and np.array_equal(r[:n].data, arr), C + ' a+b', f'{s}+{type(b).__name__}')
                r2 = b + a
                check(bs_valid(r2, n + m) and np.array_equal(r2.data, np.concatenate((barr, arr))), C + ' b+a', f'{type(b).__name__}+{s}')
                check(not np.shares_memory(r.data, a.data) and not np.shares_memory(r2.data, a.data), C + ' new object', 'concat')
                if isinstance(b, np.ndarray):
                    check(np.array_equal(b, barr), C + ' operands unchanged', 'ndarray')
                elif isinstance(b, binary_sequence):
                    check(np.array_equal(b.data, barr), C + ' operands unchanged', 'sequence')
            check(np.array_equal(a.data, d0) and a.data.dtype == np.uint8, C + ' operands unchanged', s)
    for n in (100, 1000, 4097):
        arr = rng.integers(0, 2, n)
        a = binary_sequence(arr)
        check(bs_valid(a, n) and (~~a == a) and (~a).ones() == a.zeros() and a.ones() + a.zeros() == n, C + ' long sequence', str(n))
        e = ~(a[::3] + a[1::2]) + '01' + ~a[:5]
        exp = np.concatenate((1 - np.concatenate((arr[::3], arr[1::2])), [0, 1], 1 - arr[:5]))
        check(bs_valid(e, exp.size) and np.array_equal(e.data, exp), C + ' expression', str(n))
    for v, exp in ((0, [0]), (1, [1]), (True, [1]), (False, [0]), (np.uint8(1), [1]), (1.0, [1])):
        check(bs_valid(binary_sequence(v), 1) and np.array_equal(binary_sequence(v).data, exp), C + ' scalar', repr(v))
    for bad in ([0, 1, 2], '0120', '01;10', [[0, 1], [1, 0]], 2, 0.5, -1, 'abc', [0.5, 1], np.array([0, 3])):
        try:
            binary_sequence(bad)
            check(False, C + ' rejects non 0/1 or non 1-D data', repr(bad))
        except (ValueError, TypeError):
            pass
    a = binary_sequence('0110')
    for bad in ([0, 2], '012', np.array([[0, 1]]), 3, None, 1.5):
        for f in (lambda: a + bad, lambda: bad + a):
            try:
                r = f()
                check(bs_valid(r), C + ' concatenation stays closed', repr(bad))
            except (ValueError, TypeError):
                pass
    # thresholds
    for L in (1, 2, 5, 16, 101):
        for noisy in (False, True):
            s = np.abs(rng.normal(size=L)) + 1.0
            nz = rng.uniform(-0.9, 0.9, size=L) if noisy else None
            x = electrical_signal(s, nz)
            tot = s + nz if noisy else s
            sx = snap(x)
            for thr in (0.0, 1.0, 1.5, np.float64(1.2), 2, np.abs(rng.normal(size=L)) + 1, list(np.full(L, 1.3)), tuple(np.full(L, 1.1)), [1.4]):
                tv = np.asarray(thr, dtype=float)
                g = x > thr
                l = x < thr
                check(bs_valid(g, L) and np.array_equal(g.data, (tot > tv).astype(np.uint8) * np.ones(L, np.uint8)), C + ' > threshold', f'L={L} thr={type(thr).__name__}')
                check(bs_valid(l, L) and np.array_equal(l.data, (tot < tv).astype(np.uint8) * np.ones(L, np.uint8)), C + ' < threshold', f'L={L} thr={type(thr).__name__}')
            check(same_snap(x, sx), C + ' comparison leaves the signal unchanged', '')
            z = electrical_signal(rng.normal(size=L) + 1j * rng.normal(size=L), (rng.normal(size=L) + 0j) if noisy else None)
            for thr in (0.5, 1 + 1j, rng.normal(size=L), rng.normal(size=L) + 1j):
                check(bs_valid(z > thr, L) and bs_valid(z < thr, L), C + ' complex comparison gives a valid sequence', f'L={L}')


# ---------------------------------------------------------------- optional features
def optional_features(rng):
    x = optical_signal(rng.normal(size=(2, 6)), rng.normal(size=(2, 6)))
    for k in (np.array(2), np.array(-1), np.array(0, dtype=np.uint8)):
        try:
            y = x[k]
        except Exception:
            continue
        n = npol_of(y)
        check(valid(y, optical_signal, n, y.len()) and no_alias(y, x), 'C01 slicing returns a valid container', f'0-d index {k!r}')
        if n == 2 and y.len() == 1:
            check(np.array_equal(y.signal[:, 0], x.signal[:, int(k)]) and np.array_equal(y.noise[:, 0], x.noise[:, int(k)]), 'C01 slicing returns the selected samples', f'0-d index {k!r}')


def main():
    rng = np.random.default_rng(20240927)
    np.random.seed(7)
    gv.clean()
    c01_constructors()
    c01_slicing(rng)
    c01_arith(rng)
    c01_trees(rng)
    c02(rng)
    c14_gv(rng)
    c14_devices(rng)
    c15(rng)
    optional_features(rng)
    finish()


if __name__ == '__main__':
    main()
