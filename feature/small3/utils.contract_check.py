import os
import sys
import warnings

_here = os.path.dirname(os.path.abspath(__file__))
if sys.path and os.path.abspath(sys.path[0] or '.') == _here:
    sys.path.pop(0)

import inspect
import re

import numpy as np
from scipy.constants import c, e, h, k as kB
from scipy.integrate import quad

from opticomlib import utils as U
from opticomlib.devices import ADC

FAILS = []


def check(cond, clause):
    if not cond:
        FAILS.append(clause)


def raises(exc, f, *a, **kw):
    try:
        f(*a, **kw)
    except exc:
        return True
    except Exception:
        return False
    return False


rng = np.random.default_rng(20240921)

# ----------------------------------------------------------------- C19
x = 10 ** rng.uniform(-15, 15, 4000)
y = 10 ** rng.uniform(-15, 15, 4000)
d = rng.uniform(-300, 300, 4000)
check(np.allclose(U.idb(U.db(x)), x, rtol=1e-12), 'C19 idb(db(x))=x')
check(np.allclose(U.idbm(U.dbm(x)), x, rtol=1e-12), 'C19 idbm(dbm(x))=x')
check(np.allclose(U.db(U.idb(d)), d, rtol=0, atol=1e-10), 'C19 db(idb(d))=d')
check(np.allclose(U.dbm(U.idbm(d)), d, rtol=0, atol=1e-10), 'C19 dbm(idbm(d))=d')
check(np.allclose(U.db(x * y), U.db(x) + U.db(y), atol=1e-10), 'C19 db(xy)')
check(np.allclose(U.dbm(x), U.db(x) + 30, atol=1e-10), 'C19 dbm=db+30')
for xs in (3.7, 12, 1e-9):
    check(abs(float(U.idb(U.db(xs))) - xs) <= 1e-12 * xs, 'C19 scalar idb(db)')
    check(abs(float(U.idbm(U.dbm(xs))) - xs) <= 1e-12 * xs, 'C19 scalar idbm(dbm)')
for bad in (-1, -0.5, [1, -2], np.array([3.0, -1e-9])):
    check(raises(ValueError, U.db, bad), 'C19 db negative ValueError')
    check(raises(ValueError, U.dbm, bad), 'C19 dbm negative ValueError')

q = np.linspace(-8, 8, 2001)
check(np.allclose(U.Q(q) + U.Q(-q), 1, atol=1e-14), 'C19 Q(x)+Q(-x)=1')
check(np.all(np.diff(U.Q(q)) <= 0) and np.all(np.diff(U.Q(q[q >= -5])) < 0), 'C19 Q decreasing')
check(float(U.Q(0)) == 0.5, 'C19 Q(0)=1/2')
for mu, sd in ((0, 1), (2.5, 0.3), (-4, 7.0)):
    g = quad(lambda t: float(U.gaus(t, mu, sd)), mu - 12 * sd, mu + 12 * sd)[0]
    check(abs(g - 1) < 1e-8, 'C19 gaus integrates to one')
check(abs(quad(lambda t: float(U.gaus(t)), -12, 12)[0] - 1) < 1e-8, 'C19 gaus default integrates to one')

for alpha in (0, 0.1, 0.25, 0.5, 0.99, 1):
    for T in (0.5, 1, 2, 1e-9):
        f = np.linspace(-2 / T, 2 / T, 4001)
        H = U.rcos(f, alpha, T)
        check(np.all((H >= 0) & (H <= 1)), 'C19 rcos in [0,1]')
        check(np.allclose(H, U.rcos(-f, alpha, T), atol=1e-12), 'C19 rcos even')
        check(np.all(H[np.abs(f) > (1 + alpha) / (2 * T) * (1 + 1e-12)] == 0), 'C19 rcos vanishes beyond')
        if alpha > 0:
            check(abs(float(U.rcos(1 / (2 * T), alpha, T)) - 0.5) < 1e-9, 'C19 rcos scalar 1/2 at 1/2T')
            check(abs(U.rcos(np.array([1 / (2 * T)]), alpha, T)[0] - 0.5) < 1e-9, 'C19 rcos array 1/2 at 1/2T')
            check(abs(U.rcos([-1 / (2 * T)], alpha, T)[0] - 0.5) < 1e-9, 'C19 rcos list 1/2 at -1/2T')
        for fs_ in (0.0, 0.3 / T, -0.3 / T, 0.9 / T, 3 / T):
            v = float(U.rcos(fs_, alpha, T))
            check(0 <= v <= 1, 'C19 rcos scalar in [0,1]')
            check(abs(v - float(U.rcos(-fs_, alpha, T))) < 1e-12, 'C19 rcos scalar even')
            check(abs(v - U.rcos(np.array([fs_]), alpha, T)[0]) < 1e-12, 'C19 rcos scalar = array')
# integer grid: T = 2 -> 1/(2T) not integer; use alpha=1, T=0.5 -> 1/(2T) = 1
Hi = U.rcos(np.arange(-3, 4), 1, 0.5)
check(np.allclose(Hi, [0, 0, 0.5, 1, 0.5, 0, 0]), 'C19 rcos integer grid keeps roll-off values')
check(abs(float(U.rcos(1, 1, 0.5)) - 0.5) < 1e-12, 'C19 rcos int scalar')
try:
    U.rcos(np.int64(1), 1, 0.5)
    numpy_scalars = True
except ValueError:
    numpy_scalars = False
if numpy_scalars:
    for xv, al, T in ((np.int64(1), 1, 0.5), (np.float32(0.5), 0.5, 1), (np.int32(0), 0.3, 2), (np.float64(-0.7), 0.5, 1), (np.uint8(3), 1, 0.5), (np.float32(0.25), 0, 2)):
        v = float(U.rcos(xv, al, T))
        check(abs(v - float(U.rcos(float(xv), al, T))) < 1e-12 and 0 <= v <= 1, 'C19 rcos numpy scalar = python scalar')

for dg in range(0, 17):
    vs = np.arange(2 ** dg) if dg <= 10 else np.unique(np.r_[0, 1, 2 ** dg - 1, rng.integers(0, 2 ** dg, 300)])
    for v in vs:
        v = int(v)
        b = U.dec2bin(v, dg)
        ok = len(b) == dg and ''.join(str(int(t)) for t in b) == (format(v, f'0{dg}b') if dg else '') and set(np.unique(b)) <= {0, 1}
        if not ok:
            check(False, f'C19 dec2bin({v},{dg})')
            break
    check(raises(ValueError, U.dec2bin, 2 ** dg, dg), 'C19 dec2bin too large ValueError')
    check(raises(ValueError, U.dec2bin, 2 ** dg + 5, dg), 'C19 dec2bin too large ValueError')
check(np.array_equal(U.dec2bin(np.int64(5), 4), [0, 1, 0, 1]), 'C19 dec2bin numpy int')
check(np.array_equal(U.dec2bin(np.uint8(255), 8), [1] * 8) and np.array_equal(U.dec2bin(0, 3), [0, 0, 0]), 'C19 dec2bin end values')


def fmt_num(v):
    if isinstance(v, (complex, np.complexfloating)):
        re_, im_ = v.real, v.imag
        return f'{re_:.4f}{im_:+.4f}'
    if isinstance(v, (float, np.floating)):
        return f'{v:.4f}'
    return str(int(v))


def render(a, sep, unit='j'):
    a = np.atleast_2d(a)
    rows = []
    for r in a:
        toks = [fmt_num(t) + (unit if np.iscomplexobj(a) else '') for t in r]
        rows.append(sep.join(toks))
    return ';'.join(rows)


for trial in range(150):
    nr, nc = rng.integers(1, 4), rng.integers(1, 7)
    for kind in ('int', 'float', 'complex'):
        if kind == 'int':
            a = rng.integers(-50, 50, (nr, nc))
            a[0, 0] = 7  # not a pure 0/1 text
        elif kind == 'float':
            a = np.round(rng.uniform(-50, 50, (nr, nc)), 4)
        else:
            a = np.round(rng.uniform(-50, 50, (nr, nc)), 4) + 1j * np.round(rng.uniform(-50, 50, (nr, nc)), 4)
        for sep in (',', ' ', ', '):
            for unit in ('j', 'i'):
                s = render(a, sep, unit)
                out = U.str2array(s)
                ref = a if nr > 1 else a[0]
                check(out.shape == ref.shape and np.allclose(out, ref, atol=1e-12), f'C19 str2array inverts {kind}')
                check(np.issubdtype(out.dtype, {'int': np.integer, 'float': np.floating, 'complex': np.complexfloating}[kind]), f'C19 str2array dtype {kind}')
                if kind != 'complex':
                    out = U.str2array(s, dtype=complex)
                    check(out.dtype == complex and np.allclose(out, ref), 'C19 str2array explicit dtype')
                if kind == 'int':
                    out = U.str2array(s, dtype=float)
                    check(out.dtype == float and np.allclose(out, ref), 'C19 str2array explicit dtype float')
    bits = rng.integers(0, 2, (nr, nc))
    ref = bits if nr > 1 else bits[0]
    for sep in ('', ',', ' '):
        s = ';'.join(sep.join(str(t) for t in r) for r in bits)
        out = U.str2array(s)
        check(out.shape == ref.shape and np.array_equal(out.astype(int), ref), 'C19 str2array bit pattern')
        out = U.str2array(s, dtype=bool)
        check(out.dtype == bool and np.array_equal(out.astype(int), ref), 'C19 str2array bit pattern bool')
check(np.array_equal(U.str2array('1 0 1 10').astype(int), [1, 0, 1, 1, 0]), 'C19 str2array digits')
for dt in (int, float, complex, np.int64, np.int32, np.float32, np.uint8, np.complex64):
    out = U.str2array('1 0 1 10', dtype=dt)
    check(out.dtype == np.dtype(dt) and np.array_equal(out, [1, 0, 1, 10]), f'C19 str2array 0/1 text with numeric dtype {dt}')
    out = U.str2array('1,0;11,10', dtype=dt)
    check(np.array_equal(out, [[1, 0], [11, 10]]), 'C19 str2array 0/1 rows with numeric dtype')
for bad in ('1 2 a', '1.0 x', '3+4k', '1 0 1 b', '1e5', '[1,2]', '1 2 # 3', '1_0', 'J', '1+2J'):
    check(raises(ValueError, U.str2array, bad), f'C19 str2array ValueError on {bad!r}')

PREF = {'f': -15, 'p': -12, 'n': -9, 'u': -6, 'μ': -6, 'µ': -6, 'm': -3, '': 0, 'k': 3, 'M': 6, 'G': 9, 'T': 12}
order = ['f', 'p', 'n', 'u', 'm', '', 'k', 'M', 'G', 'T']
xs = list(10 ** rng.uniform(-15, 15, 3000))
for p in range(-15, 15):
    xs += [10.0 ** p, 10.0 ** p * 1.0000001, 10.0 ** p * 9.99, 10.0 ** p * 2, float(f'1e{p}'), float(f'5e{p}')]
xs += [1e15 * 0.99, 999.0, 999.4, 1e-15]
for xv in xs:
    if xv < 1e-15:
        continue
    for unit in ('Hz', 's', 'W'):
        for kk in (1, 3):
            s = U.si(xv, unit, kk)
            m = re.fullmatch(r'(-?\d+\.\d+)\s*([fpnuμµmkMGT]?)' + unit, s) if isinstance(s, str) else None
            if m is None:
                # 'm' + unit 's' etc. cannot be confused: prefix group is a single optional char before the unit
                check(False, f'C19 si format {xv!r} -> {s!r}')
                continue
            mant, pre = float(m.group(1)), m.group(2)
            check(len(m.group(1).split('.')[1]) == kk, 'C19 si precision')
            p10 = PREF[pre]
            check(abs(mant * 10.0 ** p10 - xv) <= 0.5000001 * 10.0 ** (p10 - kk) + 1e-12 * xv, f'C19 si value {xv!r} -> {s!r}')
            if xv < 1e15:
                um = xv / 10.0 ** p10
                check(1 - 1e-12 <= um < 1000 * (1 + 1e-12), f'C19 si mantissa range {xv!r} -> {s!r}')
check(U.si(2.5e12, 'Hz') == '2.5 THz', 'C19 si tera decade')
check(U.si(1e12, 'Hz', 2) == '1.00 THz', 'C19 si tera boundary')
if U.si(-0.002, 's') is not None:
    for xv in (0.002, 2.5e12, 1e-15, 999.96, 1e3):
        check(U.si(-xv, 'V', 2) == '-' + U.si(xv, 'V', 2), 'C19 si negative mirrors positive')
check(U.si(0.002, 's') == '2.0 ms' and U.si(1e9, 'Hz') == '1.0 GHz', 'C19 si examples')

# ----------------------------------------------------------------- C18


def check_shortest(data, p, f=U.shortest_int, **kw):
    data = np.asarray(data)
    out = f(data, p, **kw)
    lo, hi = out
    srt = np.sort(data)
    lag = int(np.floor(p * len(data) / 100))
    widths = srt[lag:] - srt[:len(srt) - lag]
    ok = lo <= hi and lo in srt and hi in srt
    ok = ok and (hi - lo) == widths.min()
    # lo, hi exactly lag order statistics apart
    idx = np.where(srt == lo)[0]
    ok = ok and any(i + lag < len(srt) and srt[i + lag] == hi for i in idx)
    ok = ok and np.count_nonzero((data >= lo) & (data <= hi)) >= lag + 1
    return ok


for trial in range(300):
    n = int(rng.choice([2, 3, 5, 17, 100, 1000, 4096, 10007]))
    kind = trial % 4
    if kind == 0:
        data = rng.normal(0, rng.uniform(1e-6, 1e3), n)
    elif kind == 1:
        data = rng.uniform(-5, 5, n)
    elif kind == 2:
        data = np.sin(2 * np.pi * rng.uniform(1, 9) * np.arange(n) / n)
    else:
        data = np.round(rng.normal(0, 3, n))  # ties
    p = float(rng.choice([rng.uniform(0.001, 99.999), 50, 99.99, 1, 99, 0.5]))
    check(check_shortest(data, p), f'C18 shortest_int kind={kind} n={n} p={p}')
    check(check_shortest(list(data), p), 'C18 shortest_int list input')
check(check_shortest(np.r_[np.zeros(50), np.ones(50), 0.5], 50), 'C18 shortest_int ties')
check(check_shortest(np.arange(10.0), 5), 'C18 shortest_int lag 0')
check(check_shortest(rng.integers(0, 4, 1 << 17).astype(float), 99.99), 'C18 shortest_int 2^17 quantised')
if 'assume_sorted' in inspect.signature(U.shortest_int).parameters:
    for trial in range(60):
        data = np.sort(np.round(rng.normal(0, 3, 500), trial % 3))
        p = rng.uniform(0.01, 99.99)
        check(check_shortest(data, p, assume_sorted=True), 'C18 shortest_int assume_sorted on sorted data')
        check(np.array_equal(U.shortest_int(data, p, assume_sorted=True), U.shortest_int(data, p)), 'C18 shortest_int assume_sorted = default on sorted data')
        check(check_shortest(data[::-1], p, assume_sorted=False), 'C18 shortest_int assume_sorted=False')

for trial in range(120):
    n_s = int(rng.choice([2, 10, 1000, 10000, 20000, 1 << 17])) if trial % 10 == 0 else int(rng.choice([2, 10, 1000, 10000, 20000]))
    kind = trial % 4
    if kind == 0:
        sig = rng.normal(0, 1, n_s)
        if n_s >= 10000:
            sig[rng.integers(0, n_s)] = 1e6  # outlier excluded from the 99.99 % range
    elif kind == 1:
        sig = rng.uniform(-2, 3, n_s)
    elif kind == 2:
        sig = 0.7 * np.sin(2 * np.pi * 5.3 * np.arange(n_s) / n_s) + 0.1
    else:
        sig = np.round(rng.normal(0, 2, n_s) * 4) / 4
    nb = int(rng.integers(1, 13))
    V_min, V_max = U.shortest_int(sig, 99.99)
    if V_max == V_min:
        continue
    step = (V_max - V_min) / (2 ** nb - 1)
    ov = ADC(sig, n=nb, otype='v').signal
    on = ADC(sig, n=nb, otype='n').signal
    check(len(ov) == n_s and len(on) == n_s, 'C18 ADC length')
    check(len(np.unique(ov)) <= 2 ** nb and len(np.unique(on)) <= 2 ** nb, 'C18 ADC at most 2^n values')
    tol = 1e-9 * max(abs(V_min), abs(V_max), step)
    check(np.all(ov >= V_min - tol) and np.all(ov <= V_max + tol), 'C18 ADC within full scale')
    check(np.all(on == np.round(on)) and on.min() >= 0 and on.max() <= 2 ** nb - 1, 'C18 ADC integer codes in range')
    inside = (sig >= V_min) & (sig <= V_max)
    check(np.all(np.abs(ov[inside] - sig[inside]) <= step / 2 + tol), 'C18 ADC half step')
    check(np.all(on[sig > V_max] == 2 ** nb - 1) and np.all(on[sig < V_min] == 0), 'C18 ADC saturates')

# ----------------------------------------------------------------- C13 (utils part)


def err_integral(mu0, mu1, s0, s1, M, decision):
    if M == 2 and decision is None:
        f = lambda t: 0.5 * (U.Q((mu1 - t) / s1) + U.Q((t - mu0) / s0))
        return f
    f = lambda t: (1 - U.Q((t - mu1) / s1) * (1 - U.Q((t - mu0) / s0)) ** (M - 1)) * M / 2 / (M - 1)
    return f


for trial in range(150):
    S0, S1 = 10 ** rng.uniform(-8, -2, 2)
    if trial % 5 == 0:
        S1 = S0
    s0, s1 = S0 ** 0.5, S1 ** 0.5
    mu0 = rng.uniform(-1, 1)
    dd = rng.uniform(0.5, 20) * max(s0, s1)
    mu1 = mu0 + dd
    for mod, M in (('ook', None), ('ppm', int(2 ** rng.integers(1, 9))), ('OOK', None)):
        Me = 2 if mod.lower() == 'ook' else M
        if dd ** 2 + 2 * (S1 - S0) * np.log(s1 / s0 * (Me - 1)) < 0:
            continue  # the two densities do not cross: outside the contract
        th = float(U.optimum_threshold(mu0, mu1, S0, S1, mod, M))
        check(np.isfinite(th), 'C13 optimum_threshold finite')
        lhs = (Me - 1) * U.gaus(th, mu0, s0)
        rhs = U.gaus(th, mu1, s1)
        if mu0 <= th <= mu1:
            check(abs(lhs - rhs) <= 1e-6 * max(lhs, rhs) + 1e-300, 'C13 optimum_threshold solves crossing')
        if Me == 2:
            check(mu0 - 1e-12 <= th <= mu1 + 1e-12, 'C13 optimum_threshold in [mu0,mu1]')
            if S0 == S1:
                check(abs(th - (mu0 + mu1) / 2) <= 1e-9 * dd, 'C13 optimum_threshold midpoint')
        th2 = float(U.optimum_threshold(mu0 + 3.0, mu1 + 3.0, S0, S1, mod, M))
        check(abs((th2 - 3.0) - th) <= 1e-9 * (abs(th) + dd + 3), 'C13 optimum_threshold depends on mu1-mu0')
check(float(U.optimum_threshold(0.0, 1.0, 0.01, 0.01, 'ook')) == 0.5, 'C13 optimum_threshold equal variances')

prev = None
for trial in range(120):
    P = rng.uniform(-50, 0)
    ER = float(rng.choice([rng.uniform(3, 40), np.inf]))
    amplify = bool(trial % 2)
    G = rng.uniform(0, 40)
    NF = rng.uniform(3, 10)
    BW_el = 10 ** rng.uniform(8, 10.5)
    BW_opt = BW_el * rng.uniform(1.01, 20)
    r = rng.uniform(0.05, 1)
    R_L = 10 ** rng.uniform(1, 4)
    T = rng.uniform(0, 400)
    NF_el = rng.uniform(0, 10)
    wl = 1550e-9
    f0 = c / wl
    mod, M, dec = [('ook', None, None), ('ppm', int(2 ** rng.integers(1, 9)), 'hard'), ('ppm', int(2 ** rng.integers(1, 5)), 'soft')][trial % 3]
    Me = 2 if mod == 'ook' else M
    if amplify:
        kw = dict(amplify=True, G=G, NF=NF, BW_opt=BW_opt)
    elif trial % 4 == 0:
        kw = dict(amplify=False)
    else:
        kw = dict(amplify=False, G=G, NF=NF, BW_opt=BW_opt)
    with warnings.catch_warnings():
        warnings.simplefilter('error')
        pa = U.p_ase(wavelength=wl, **kw)
        mu, mu_ase = U.average_voltages(P, mod, M, ER=ER, wavelength=wl, r=r, R_L=R_L, **kw)
        S = U.noise_variances(P, mod, M, ER=ER, wavelength=wl, r=r, BW_el=BW_el, R_L=R_L, T=T, NF_el=NF_el, **kw)
    g = 10 ** (G / 10) if amplify else 1.0
    er = 10 ** (ER / 10)
    pavg = 10 ** (P / 10 - 3)
    pon = pavg * Me / (1 + (Me - 1) / er)
    poff = pon / er
    pa_ref = 10 ** (NF / 10) * h * f0 * (g - 1) * BW_opt if amplify else 0.0
    check(abs(pa - pa_ref) <= 1e-10 * abs(pa_ref), 'C13 p_ase closed form')
    mua_ref = r * pa_ref * R_L
    mu_ref = r * g * np.array([poff, pon]) * R_L + mua_ref
    check(np.allclose(mu, mu_ref, rtol=1e-10, atol=0) and abs(mu_ase - mua_ref) <= 1e-10 * abs(mua_ref), 'C13 average_voltages levels')
    l = BW_el / BW_opt if amplify else 1.0
    S_ref = (4 * kB * T * BW_el * R_L * 10 ** (NF_el / 10) + 2 * e * mu_ref * BW_el * R_L
             + 2 * mua_ref * (mu_ref - mua_ref) * l + mua_ref ** 2 * (1 - l / 2) * l)
    check(np.allclose(S, S_ref, rtol=1e-10, atol=0), 'C13 noise_variances model')
    s = np.sqrt(S_ref)
    if s.min() <= 0:
        continue
    ber = float(U.theory_BER(P, mod, M, dec, ER=ER, f0=f0, r=r, BW_el=BW_el, R_L=R_L, T=T, NF_el=NF_el, **kw))
    if dec == 'soft':
        ser = 1 - 1 / (2 * np.pi) ** 0.5 * quad(lambda t: (1 - U.Q((mu_ref[1] - mu_ref[0] + s[1] * t) / s[0])) ** (Me - 1) * np.exp(-t ** 2 / 2), -np.inf, np.inf)[0]
        ref = ser * Me / 2 / (Me - 1)
        check(abs(ber - ref) <= 1e-6 * ref + 1e-13, 'C13 theory_BER soft = integral')
    else:
        f = err_integral(mu_ref[0], mu_ref[1], s[0], s[1], Me, dec)
        fine = f(np.linspace(mu_ref[0], mu_ref[1], 200001)).min()
        coarse = f(np.linspace(mu_ref[0], mu_ref[1], 1000)).min()
        check(fine * (1 - 1e-9) - 1e-300 <= ber <= coarse * (1 + 1e-2) + 1e-300, f'C13 theory_BER = min error integral ({mod},{dec})')
    check(0 <= ber <= Me / 2 / (Me - 1) + 1e-12, 'C13 theory_BER bounded')
    ber_hi = float(U.theory_BER(P + 1.0, mod, M, dec, ER=ER, f0=f0, r=r, BW_el=BW_el, R_L=R_L, T=T, NF_el=NF_el, **kw))
    check(ber_hi <= ber * (1 + 1e-6) + 1e-13, 'C13 theory_BER decreasing with power')
Pv = np.linspace(-40, -20, 7)
bv = U.theory_BER(Pv, 'ook')
check(bv.shape == Pv.shape and np.allclose(bv, [float(U.theory_BER(p, 'ook')) for p in Pv], rtol=1e-12), 'C13 theory_BER vectorises')
check(np.all(np.diff(bv) <= 0), 'C13 theory_BER monotone on vector')

if FAILS:
    seen = []
    for f_ in FAILS:
        if f_ not in seen:
            seen.append(f_)
    for f_ in seen[:40]:
        print('FAIL:', f_)
    sys.exit(1)
print('PASS')
