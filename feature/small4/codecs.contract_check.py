import sys, os
_here = os.path.dirname(os.path.abspath(__file__))
if sys.path and os.path.abspath(sys.path[0] or '.') == _here:
    sys.path.pop(0)

import inspect
import itertools
import warnings
import numpy as np
from scipy.optimize import minimize_scalar
from scipy.stats import norm

warnings.filterwarnings('ignore')

from opticomlib.typing import gv, binary_sequence, optical_signal, electrical_signal, eye
from opticomlib.devices import DAC, MZM, PD, SAMPLER
from opticomlib.utils import Q, optimum_threshold
from opticomlib import ppm, ook

FAILS = []


def check(cond, clause, detail=''):
    if not cond:
        FAILS.append(f'{clause}: {detail}')
        print('FAIL', clause, detail, flush=True)
        if len(FAILS) > 20:
            finish()


def finish():
    if FAILS:
        print(f'{len(FAILS)} clause checks failed; first: {FAILS[0]}')
        sys.exit(1)
    print('PASS')
    sys.exit(0)


def raises(exc, f, *a, **k):
    try:
        f(*a, **k)
    except exc:
        return True
    except Exception:
        return False
    return False


# ----------------------------------------------------------------------------- C12
def c12_codec():
    rng = np.random.default_rng(1201)
    for M in [2, 4, 8, 16, 32, 64, 128, 256]:
        k = int(np.log2(M))
        for n in range(k, 13):
            if 2**n <= 4096:
                words = itertools.product([0, 1], repeat=n)
            else:
                words = []
            for w in words:
                b = np.array(w, dtype=int)
                e = ppm.PPM_ENCODER(b, M)
                nsym = n // k
                ed = np.asarray(e.data).astype(int)
                ok = ed.size == nsym * M and (ed.reshape(nsym, M).sum(axis=1) == 1).all()
                if ok:
                    pos = ed.reshape(nsym, M).argmax(axis=1)
                    val = b[:nsym * k].reshape(nsym, k) @ (2**np.arange(k)[::-1])
                    ok = np.array_equal(pos, val)
                check(ok, 'C12 encoder one ON slot at big-endian position', f'M={M} b={w}')
                d = ppm.PPM_DECODER(e, M)
                check(np.array_equal(np.asarray(d.data).astype(int), b[:nsym * k]), 'C12 decoder inverts encoder', f'M={M} b={w}')
                if not ok:
                    return
        # long random, containers
        b = rng.integers(0, 2, 40 * k + rng.integers(0, k))
        ref = np.asarray(ppm.PPM_ENCODER(b, M).data).astype(int)
        forms = [list(b), tuple(b), b.astype(bool), b.astype(np.uint8), ' '.join(map(str, b)), ''.join(map(str, b)), binary_sequence(b)]
        for f in forms:
            e = ppm.PPM_ENCODER(f, M)
            check(isinstance(e, binary_sequence) and np.array_equal(np.asarray(e.data).astype(int), ref), 'C12 encoder container types agree', f'M={M} {type(f)}')
        refd = b[:len(b) // k * k]
        forms = [list(ref), tuple(ref), ref.astype(bool), ref.astype(np.uint8), ''.join(map(str, ref)), binary_sequence(ref)]
        for f in forms:
            d = ppm.PPM_DECODER(f, M)
            check(isinstance(d, binary_sequence) and np.array_equal(np.asarray(d.data).astype(int), refd), 'C12 decoder container types agree', f'M={M} {type(f)}')


def c12_hdd():
    for M in [2, 4, 8]:
        for nslots in range(M, 17, M):
            for seed, w in enumerate(itertools.product([0, 1], repeat=nslots)):
                if nslots == 16 and seed % 7:
                    continue
                x = np.array(w, dtype=int)
                np.random.seed(seed % 50)
                out = ppm.HDD(x, M)
                o = np.asarray(out.data).astype(int).reshape(-1, M)
                xi = x.reshape(-1, M)
                ok = isinstance(out, binary_sequence) and (o.sum(axis=1) == 1).all()
                one = xi.sum(axis=1) == 1
                ok = ok and np.array_equal(o[one], xi[one])
                many = xi.sum(axis=1) > 1
                ok = ok and (xi[many][o[many] == 1] == 1).all()
                check(ok, 'C12 HDD one ON slot / unchanged valid / keeps an ON slot', f'M={M} x={w}')
                if not ok:
                    return
    rng = np.random.default_rng(1202)
    for M in [2, 4, 8, 16, 32, 64, 128, 256]:
        k = int(np.log2(M))
        b = rng.integers(0, 2, 30 * k)
        cw = ppm.PPM_ENCODER(b, M)
        ref = np.asarray(cw.data).astype(int)
        for f in [cw, list(ref), tuple(ref), ref.astype(bool), ''.join(map(str, ref))]:
            check(np.array_equal(np.asarray(ppm.HDD(f, M).data).astype(int), ref), 'C12 HDD identity on codewords (all containers)', f'M={M} {type(f)}')
        x = rng.integers(0, 2, 50 * M)
        for seed in range(5):
            np.random.seed(seed)
            o = np.asarray(ppm.HDD(x, M).data).astype(int).reshape(-1, M)
            xi = x.reshape(-1, M)
            many = xi.sum(axis=1) > 1
            check((o.sum(axis=1) == 1).all() and (xi[many][o[many] == 1] == 1).all() and np.array_equal(o[xi.sum(axis=1) == 1], xi[xi.sum(axis=1) == 1]),
                  'C12 HDD random long', f'M={M} seed={seed}')
    for M in [3, 5, 6, 7, 12, 100]:
        check(raises(ValueError, ppm.HDD, np.zeros(M * 2, int), M), 'C12 HDD rejects non power of two with ValueError', f'M={M}')
    for M in [2, 4, 8, 16]:
        check(raises(ValueError, ppm.HDD, np.zeros(M * 2 + 1, int), M), 'C12 HDD rejects partial symbol with ValueError', f'M={M}')


def c12_sdd():
    rng = np.random.default_rng(1203)
    for sps in [4, 5, 8, 16, 33, 64]:
        gv(sps=sps, R=1e9)
        for M in [2, 4, 8, 16, 64, 256]:
            k = int(np.log2(M))
            nsym = 12
            b = rng.integers(0, 2, nsym * k)
            cw = np.asarray(ppm.PPM_ENCODER(b, M).data).astype(int)
            for shape in ['nrz', 'gaussian']:
                x = DAC(cw, Vout=rng.uniform(0.2, 3), pulse_shape=shape)
                o = ppm.SDD(x, M)
                check(isinstance(o, binary_sequence) and np.array_equal(np.asarray(o.data).astype(int), cw), 'C12 SDD identity on noiseless waveform', f'M={M} sps={sps} {shape}')
            e = rng.normal(size=(nsym * M, sps))
            en = e.sum(axis=1).reshape(nsym, M)
            ref = np.zeros((nsym, M), int)
            ref[np.arange(nsym), en.argmax(axis=1)] = 1
            for inp in [electrical_signal(e.ravel()), e.ravel()]:
                o = ppm.SDD(inp, M)
                check(np.array_equal(np.asarray(o.data).astype(int), ref.ravel()), 'C12 SDD picks the slot of largest integrated energy', f'M={M} sps={sps}')
            sn = electrical_signal(e.ravel() * 0.5, e.ravel() * 0.5)
            check(np.array_equal(np.asarray(ppm.SDD(sn, M).data).astype(int), ref.ravel()), 'C12 SDD with noise component', f'M={M} sps={sps}')
            check(raises(ValueError, ppm.SDD, np.zeros(M * sps + sps), M), 'C12 SDD rejects partial symbol with ValueError', f'M={M} sps={sps}')
        for M in [3, 5, 6, 12]:
            check(raises(ValueError, ppm.SDD, np.zeros(M * sps * 2), M), 'C12 SDD rejects non power of two with ValueError', f'M={M}')
    gv(sps=16, R=1e9)


# ----------------------------------------------------------------------------- C13
def ook_cost(r, mu, s0, s1):
    return 0.5 * (Q((mu - r) / s1) + Q(r / s0))


def ook_true_min(mu, s0, s1):
    r = np.linspace(0, mu, 20001)
    c = ook_cost(r, mu, s0, s1)
    i = int(np.argmin(c))
    lo, hi = r[max(i - 1, 0)], r[min(i + 1, r.size - 1)]
    res = minimize_scalar(ook_cost, bounds=(lo, hi), args=(mu, s0, s1), method='bounded', options={'xatol': 1e-14 * mu})
    return min(res.fun, c[i])


def ppm_hard_cost(r, mu, s0, s1, M):
    return 1 - Q((r - mu) / s1) * (1 - Q(r / s0))**(M - 1)


def c13_ook():
    rng = np.random.default_rng(1301)
    for _ in range(150):
        s = 10**rng.uniform(-3, 1)
        mu = s * rng.uniform(0.05, 20)
        v = float(ook.theory_BER(mu, s, s))
        ref = float(Q(mu / 2 / s))
        g = ook_cost(np.linspace(0, mu, 1000), mu, s, s).min()
        check(ref * (1 - 1e-9) <= v <= g * (1 + 1e-9), 'C13 ook.theory_BER(mu,s,s) = Q(mu/2s) within grid error, not below', f'mu={mu} s={s} v={v} ref={ref} grid={g}')
    for _ in range(150):
        s0, s1 = 10**rng.uniform(-3, 1, 2)
        mu = max(s0, s1) * rng.uniform(0.05, 20)
        v = float(ook.theory_BER(mu, s0, s1))
        t = ook_true_min(mu, s0, s1)
        g = ook_cost(np.linspace(0, mu, 1000), mu, s0, s1).min()
        check(t * (1 - 1e-9) - 1e-300 <= v <= g * (1 + 1e-9) + 1e-300, 'C13 ook.theory_BER = min over thresholds within 1000-point grid error, never below', f'mu={mu} s0={s0} s1={s1} v={v} true={t} grid={g}')
        check(v <= 0.5 + 1e-15, 'C13 ook.theory_BER bounded by 1/2', f'{v}')
        mus = np.sort(rng.uniform(0.01, 20, 12)) * max(s0, s1)
        vs = ook.theory_BER(mus, s0, s1)
        check(np.shape(vs) == (12,) and np.all(np.diff(vs) <= 1e-15 * np.abs(vs[:-1])), 'C13 ook.theory_BER non-increasing in mu', f's0={s0} s1={s1}')
        each = np.array([float(ook.theory_BER(m, s0, s1)) for m in mus])
        check(np.array_equal(np.asarray(vs, float), each), 'C13 ook.theory_BER vectorises element-wise', f's0={s0} s1={s1}')
    a = ook.theory_BER(np.array([[1., 2.], [3., 4.]]), np.array([0.3, 0.5]), 0.4)
    b = np.array([[float(ook.theory_BER(1., 0.3, 0.4)), float(ook.theory_BER(2., 0.5, 0.4))], [float(ook.theory_BER(3., 0.3, 0.4)), float(ook.theory_BER(4., 0.5, 0.4))]])
    check(np.array_equal(np.asarray(a, float), b), 'C13 ook.theory_BER broadcasts element-wise')


def c13_ppm():
    rng = np.random.default_rng(1302)
    for _ in range(60):
        s0, s1 = 10**rng.uniform(-2, 1, 2)
        mu = max(s0, s1) * rng.uniform(0.05, 20)
        v = float(ppm.theory_BER(mu, s0, s1, 2, 'soft'))
        ref = float(Q(mu / np.hypot(s0, s1)))
        check(abs(v - ref) <= 1e-7 * ref + 1e-300, 'C13 ppm.theory_BER soft M=2 = Q(mu/sqrt(s0^2+s1^2))', f'mu={mu} s0={s0} s1={s1} v={v} ref={ref}')
    for M in [2, 4, 8, 16, 64, 256]:
        bound = M / (2 * (M - 1))
        for _ in range(12):
            s0, s1 = 10**rng.uniform(-2, 1, 2)
            mus = np.sort(rng.uniform(0.05, 20, 8)) * max(s0, s1)
            soft = np.asarray(ppm.theory_BER(mus, s0, s1, M, 'soft'), float)
            hard = np.asarray(ppm.theory_BER(mus, s0, s1, M, 'hard'), float)
            dflt = np.asarray(ppm.theory_BER(mus, s0, s1, M), float)
            check(soft.shape == (8,) and hard.shape == (8,), 'C13 ppm.theory_BER vectorises', f'M={M}')
            check(np.all(soft <= hard * (1 + 1e-9) + 2.3e-16), 'C13 ppm soft never larger than hard', f'M={M} s0={s0} s1={s1} {soft} {hard}')
            check(np.all(soft <= bound * (1 + 1e-12)) and np.all(hard <= bound * (1 + 1e-12)), 'C13 ppm.theory_BER bounded by M/(2(M-1))', f'M={M}')
            check(np.all(np.diff(soft) <= 1e-9 * soft[:-1] + 1e-18) and np.all(np.diff(hard) <= 1e-12 * hard[:-1] + 1e-18), 'C13 ppm.theory_BER non-increasing in mu', f'M={M} s0={s0} s1={s1}')
            for j in (0, 3, 7):
                check(float(ppm.theory_BER(mus[j], s0, s1, M, 'soft')) == soft[j] and float(ppm.theory_BER(mus[j], s0, s1, M, 'hard')) == hard[j], 'C13 ppm.theory_BER element-wise', f'M={M}')
            # hard = min over thresholds of the symbol error expression
            r = np.linspace(0, mus[4], 200001)
            t = (ppm_hard_cost(r, mus[4], s0, s1, M).min()) * bound
            g = (ppm_hard_cost(np.linspace(0, mus[4], 1000), mus[4], s0, s1, M).min()) * bound
            check(t * (1 - 1e-6) - 1e-17 <= hard[4] <= g * (1 + 1e-9) + 1e-17, 'C13 ppm.theory_BER hard = min over thresholds', f'M={M} v={hard[4]} t={t} g={g}')
    check(raises(ValueError, ppm.theory_BER, 1, 0.1, 0.1, 5, 'hard'), 'ppm.theory_BER rejects M=5')
    check(raises(ValueError, ppm.theory_BER, 1, 0.1, 0.1, 4, 'neither'), 'ppm.theory_BER rejects unknown decision')


def c13_estimators():
    rng = np.random.default_rng(1303)
    for _ in range(80):
        s0, s1 = 10**rng.uniform(-2, 0.5, 2)
        d = max(s0, s1) * rng.uniform(0.5, 20)
        mu0 = rng.uniform(-2, 2)
        mu1 = mu0 + d
        step = d / 999
        e = eye(mu0=mu0, mu1=mu1, s0=s0, s1=s1)
        e0 = eye(mu0=0.0, mu1=d, s0=s0, s1=s1)
        # OOK
        th = ook.THRESHOLD_EST(e)
        check(mu0 <= th <= mu1, 'C13 ook.THRESHOLD_EST in [mu0, mu1]', f'{mu0} {th} {mu1}')
        ber = ook.BER_analizer('estimator', eye_obj=e)
        ber0 = ook.BER_analizer('estimator', eye_obj=e0)
        tb = float(ook.theory_BER(d, s0, s1))
        t = ook_true_min(d, s0, s1)
        g = ook_cost(np.linspace(0, d, 1000), d, s0, s1).min()
        tol = (g - t) * 4 + 1e-9 * g + 1e-300
        check(abs(ber - tb) <= tol and abs(ber - ber0) <= tol and ber >= t * (1 - 1e-9), 'C13 ook estimator consistent with theory_BER and depends only on mu1-mu0', f'ber={ber} ber0={ber0} theory={tb} true={t} grid={g}')
        es = eye(mu0=mu0, mu1=mu1, s0=s0, s1=s0)
        check(abs(ook.THRESHOLD_EST(es) - (mu0 + mu1) / 2) <= step, 'C13 ook.THRESHOLD_EST midpoint for equal sigmas', f'd={d} s={s0}')
        # PPM
        for M in [2, 4, 16, 256]:
            thp = ppm.THRESHOLD_EST(e, M)
            check(mu0 <= thp <= mu1, 'C13 ppm.THRESHOLD_EST in [mu0, mu1]', f'M={M}')
            thp0 = ppm.THRESHOLD_EST(e0, M)
            check(abs((thp - mu0) - thp0) <= 2 * step, 'C13 ppm.THRESHOLD_EST depends only on mu1-mu0', f'M={M} {thp - mu0} {thp0}')
            for dec in ['soft', 'hard']:
                be = ppm.BER_analizer('estimator', eye_obj=e, M=M, decision=dec)
                be0 = ppm.BER_analizer('estimator', eye_obj=e0, M=M, decision=dec)
                tbp = float(ppm.theory_BER(d, s0, s1, M, dec))
                if dec == 'soft':
                    tol = 1e-7 * tbp + 1e-300
                else:
                    r = np.linspace(0, d, 200001)
                    tt = ppm_hard_cost(r, d, s0, s1, M).min() * M / 2 / (M - 1)
                    gg = ppm_hard_cost(np.linspace(0, d, 1000), d, s0, s1, M).min() * M / 2 / (M - 1)
                    tol = 4 * abs(gg - tt) + 1e-6 * gg + 2e-16
                check(abs(be - tbp) <= tol and abs(be - be0) <= tol, f'C13 ppm estimator ({dec}) consistent with theory_BER, depends only on mu1-mu0', f'M={M} be={be} be0={be0} theory={tbp} tol={tol}')
            be_def = ppm.BER_analizer('estimator', eye_obj=e, M=M)
            be_soft = ppm.BER_analizer('estimator', eye_obj=e, M=M, decision='soft')
            be_hard = ppm.BER_analizer('estimator', eye_obj=e, M=M, decision='hard')
            check(be_def in (be_soft, be_hard), 'ppm estimator default decision is one of the two', f'M={M}')
    # threshold solves (M-1) N0 = N1 (moderate SNR, where the statement is sharp)
    for _ in range(40):
        s0, s1 = 10**rng.uniform(-1, 0, 2)
        d = max(s0, s1) * rng.uniform(6, 20)
        for M in [2, 4, 16, 256]:
            e = eye(mu0=0.3, mu1=0.3 + d, s0=s0, s1=s1)
            thp = ppm.THRESHOLD_EST(e, M)
            ref = optimum_threshold(0.3, 0.3 + d, s0**2, s1**2, 'ppm', M)
            check(abs(thp - ref) <= 0.02 * d, 'C13 ppm.THRESHOLD_EST solves (M-1)N0 = N1', f'M={M} d={d} s0={s0} s1={s1} th={thp} ref={ref}')
        e = eye(mu0=0.3, mu1=0.3 + d, s0=s0, s1=s1)
        ref = optimum_threshold(0.3, 0.3 + d, s0**2, s1**2, 'ook')
        check(abs(ook.THRESHOLD_EST(e) - ref) <= 0.02 * d, 'C13 ook.THRESHOLD_EST solves N0 = N1', f'd={d} s0={s0} s1={s1}')
    # repaired behaviours stay
    e = eye(mu0=0.0, mu1=1.0, s0=0.1, s1=0.1)
    for dec in ['Hard', 'SOFT', 'hard', 'soft']:
        check(np.isfinite(ppm.BER_analizer('estimator', eye_obj=e, M=4, decision=dec)), 'repair cb8756c: mixed-case decision', dec)
    check(abs(ook.THRESHOLD_EST(eye(mu0=0.0, mu1=1.0, s0=1e-3, s1=1e-3)) - 0.5) < 2e-3, 'repair 6081f93: middle of the tied minimisers')
    check(abs(ppm.THRESHOLD_EST(eye(mu0=0.0, mu1=1.0, s0=0.02, s1=0.02), 4) - 0.5) < 0.03, 'repair 4726e7e: resolution below 1e-16')
    v = float(ppm.theory_BER(1.67, 1e-4, 1, 2, 'soft'))
    check(abs(v - float(Q(1.67 / np.hypot(1e-4, 1)))) < 1e-8, 'repair 1baab3f: knee of the soft integrand', f'{v}')


# ----------------------------------------------------------------------------- C03
def counter_clause(mod, tx, rx, name):
    tx = np.asarray(tx).astype(int)
    check(mod.BER_analizer('counter', Tx=binary_sequence(tx), Rx=rx) == 0, f'C03 {name} BER counter reports 0')
    check(mod.BER_analizer('counter', Tx=tx, Rx=rx) == 0, f'C03 {name} BER counter reports 0 (array Tx)')
    rng = np.random.default_rng(len(tx))
    n = len(tx)
    for kk in [1, 2, n // 3]:
        f = tx.copy()
        idx = rng.choice(n, kk, replace=False)
        f[idx] ^= 1
        for a, b in [(binary_sequence(tx), binary_sequence(f)), (tx, binary_sequence(f)), (binary_sequence(tx), f), (list(tx), list(f))]:
            v = mod.BER_analizer('counter', Tx=a, Rx=b)
            check(abs(v - kk / n) < 1e-15, f'C03 {name} BER counter reports k/n', f'k={kk} n={n} v={v}')


def link(bits, sps, R, shape, Vpi, loss, ER, P, r, RL, bwf, npol):
    gv(sps=sps, R=R)
    x = DAC(bits, Vout=Vpi, pulse_shape=shape)
    n = x.len()
    amp = np.sqrt(P)
    if npol == 1:
        cw = optical_signal(np.ones(n) * amp)
    else:
        cw = optical_signal(np.array([np.ones(n) * amp, np.zeros(n)]))
    m = MZM(cw, x, bias=Vpi, Vpi=Vpi, loss_dB=loss, ER_dB=ER)
    y = PD(m, BW=bwf * R, r=r, R_load=RL, T=0, include_noise='thermal-only', i_dark=0)
    return y


def c03():
    rng = np.random.default_rng(301)
    patterns = {
        'random': lambda n: rng.integers(0, 2, n),
        'runs': lambda n: np.repeat(rng.integers(0, 2, n // 8 + 1), 8)[:n],
        'alt': lambda n: np.arange(n) % 2,
        'single1': lambda n: (np.arange(n) == n // 2).astype(int),
        'single0': lambda n: (np.arange(n) != n // 3).astype(int),
    }
    cfgs = 0
    for sps in [4, 7, 16, 33, 64]:
        for name, gen in patterns.items():
            n = 64
            bits = gen(n)
            if bits.min() == bits.max():
                bits[0] ^= 1
            shape = ['nrz', 'gaussian'][cfgs % 2]
            npol = 1 + (cfgs // 2) % 2
            R = [1e9, 2.5e9, 10e9][cfgs % 3]
            Vpi = rng.uniform(2, 6)
            y = link(bits, sps, R, shape, Vpi, rng.uniform(0, 6), rng.uniform(10, 40), 10**rng.uniform(-5, -2), rng.uniform(0.3, 1), rng.uniform(20, 200), rng.uniform(0.7, 2), npol)
            s = np.asarray(SAMPLER(y, gv.sps // 2).signal).real
            hi, lo = s[bits == 1].mean(), s[bits == 0].mean()
            dec = (s > (hi + lo) / 2).astype(int)
            check(np.array_equal(dec, bits), 'C03 noise-free link returns the transmitted bits', f'sps={sps} {name} {shape} npol={npol}')
            if name == 'random':
                rx, e_, th = ook.DSP(y)
                check(np.array_equal(np.asarray(rx.data).astype(int), bits), 'C03 ook.DSP returns the transmitted data', f'sps={sps} {shape} npol={npol}')
                counter_clause(ook, bits, rx, 'ook')
            cfgs += 1
    # PPM
    for sps in [4, 9, 16, 32]:
        for M in [2, 4, 8, 16]:
            k = int(np.log2(M))
            gv(sps=sps, R=1e9)
            b = rng.integers(0, 2, k * 40)
            cw = ppm.PPM_ENCODER(b, M)
            for shape in ['nrz', 'gaussian']:
                x = DAC(cw, Vout=rng.uniform(0.5, 2), pulse_shape=shape)
                y = link(np.asarray(cw.data).astype(int), sps, 1e9, shape, 5.0, 1.0, 30.0, 1e-3, 0.9, 50.0, 1.0, 1)
                for sig, tag in [(x, 'DAC'), (y, 'link')]:
                    for dec in ['soft', 'hard']:
                        rx = ppm.DSP(sig, M, decision=dec)
                        check(isinstance(rx, binary_sequence) and np.array_equal(np.asarray(rx.data).astype(int), b), f'C03 ppm.DSP {dec} returns the transmitted data', f'M={M} sps={sps} {shape} {tag}')
                    rx = ppm.DSP(sig, M)
                    check(np.array_equal(np.asarray(rx.data).astype(int), b), 'C03 ppm.DSP default returns the transmitted data', f'M={M} sps={sps} {shape} {tag}')
                counter_clause(ppm, b, rx, 'ppm')
    gv(sps=16, R=1e9)


# ----------------------------------------------------------------------------- optional features (skipped when absent)
def features():
    tx = np.array([0, 1, 1, 0, 1, 0, 0, 1])
    rx = np.array([0, 1, 0, 0, 1, 0, 1, 1])
    e = eye(mu0=0.1, mu1=1.3, s0=0.1, s1=0.15)
    try:
        v = ook.BER_analizer('Counter', Tx=tx, Rx=rx)
    except Exception:
        v = None
    if v is not None:
        check(v == 0.25, 'feature: ook.BER_analizer mode spelling')
        check(ook.BER_analizer('ESTIMATOR', eye_obj=e) == ook.BER_analizer('estimator', eye_obj=e), 'feature: ook.BER_analizer mode spelling (estimator)')
    check(raises(Exception, ook.BER_analizer, 'neither', Tx=tx, Rx=rx), 'ook.BER_analizer rejects unknown mode')
    check(ook.BER_analizer('counter', Tx=binary_sequence(tx), Rx=rx) == 0.25 and ook.BER_analizer('counter', Tx=tx, Rx=binary_sequence(rx)) == 0.25, 'repair 26c83bd: Tx and Rx converted independently')

    for f in (ppm.HDD, ppm.SDD):
        for M in (0, -2, -4):
            check(raises(ValueError, f, np.zeros(8 * gv.sps), M), 'repair 46b57e8: M < 1 rejected with ValueError', f'{f.__name__} M={M}')

    try:
        v = ppm.BER_analizer('estimator', eye_obj=e, M=4, decision='hard', threshold=0.6)
        has = True
    except Exception:
        has = False
    if has and v != ppm.BER_analizer('estimator', eye_obj=e, M=4, decision='hard'):
        ref = 2 / 3 * (1 - Q((0.6 - 1.3) / 0.15) * (1 - Q((0.6 - 0.1) / 0.1))**3)
        check(abs(v - ref) < 1e-12 * ref, 'feature: ppm.BER_analizer threshold')
        check(ppm.BER_analizer('estimator', eye_obj=e, M=4, decision='hard', threshold=None) == ppm.BER_analizer('estimator', eye_obj=e, M=4, decision='hard'), 'feature: threshold=None estimates')

    gv(sps=16, R=1e9)
    b = np.random.default_rng(5).integers(0, 2, 80)
    x = DAC(ppm.PPM_ENCODER(b, 4))
    out = ppm.DSP(x, 4, 'hard')
    if hasattr(out, 'threshold'):
        check(0 < out.threshold < 1, 'feature: ppm.DSP threshold attribute')
        out2 = ppm.DSP(x, 4, 'hard', threshold=0.4)
        check(out2.threshold == 0.4 and np.array_equal(out2.data, out.data), 'feature: ppm.DSP threshold attribute (given)')
        check(isinstance(ppm.DSP(x, 4, 'soft'), binary_sequence), 'feature: ppm.DSP soft still returns a sequence')

    for dec in ('Soft', 'HARD'):
        try:
            v = ppm.theory_BER(1.0, 0.1, 0.1, 4, dec)
        except ValueError:
            continue
        check(v == ppm.theory_BER(1.0, 0.1, 0.1, 4, dec.lower()), 'feature: ppm.theory_BER decision spelling')


if __name__ == '__main__':
    np.random.seed(0)
    for part in (c12_codec, c12_hdd, c12_sdd, c13_ook, c13_ppm, c13_estimators, c03, features):
        n0 = len(FAILS)
        part()
        print(f'{part.__name__}: {"ok" if len(FAILS) == n0 else "FAILED"}', flush=True)
    finish()
