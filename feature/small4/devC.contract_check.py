import os
import sys
import warnings

_here = os.path.dirname(os.path.abspath(__file__))
if sys.path and os.path.abspath(sys.path[0] or os.getcwd()) == _here:
    sys.path.pop(0)

import inspect
import io
import contextlib

import numpy as np
import scipy.signal as sg
from scipy.integrate import quad
from scipy.constants import c, pi

warnings.simplefilter("ignore")

from opticomlib import gv, optical_signal, electrical_signal
from opticomlib.devices import FBG, GET_EYE, ADC, PRBS
from opticomlib.utils import shortest_int

FAILS = []


def fail(clause, msg):
    FAILS.append(f"{clause}: {msg}")
    print(f"FAIL {clause}: {msg}", flush=True)


def fbg(x, **kw):
    kw.setdefault("print_params", False)
    kw.setdefault("retH", True)
    with contextlib.redirect_stdout(io.StringIO()):
        return FBG(x, **kw)


# --------------------------------------------------------------------------------------
# C16
# --------------------------------------------------------------------------------------
BUILTIN = ["uniform", "rcos", "gaussian", "parabolic"]
BUILTIN_F = {
    "uniform": lambda z: 1.0 + 0 * z,
    "rcos": lambda z: 0.5 * (1 + np.cos(2 * pi * z)),
    "gaussian": lambda z: np.exp(-4 * np.log(2) * (3 * z) ** 2),
    "parabolic": lambda z: 1 - (2 * z) ** 2,
}


def random_callable(rng):
    a = rng.uniform(0.3, 1.0)
    b = rng.uniform(0.0, 0.6)
    w = rng.uniform(0.08, 0.5)
    z0 = rng.uniform(-0.3, 0.3)
    return lambda z: a * (0.2 + b * np.exp(-((z - z0) / w) ** 2) + 0.1 * np.cos(3 * z) ** 2)


def check_C16():
    rng = np.random.default_rng(1601)
    SOLVER_TOL = 5e-3
    for trial in range(36):
        kL = float(rng.choice([0.1, 8.0])) if trial < 4 else float(rng.uniform(0.1, 8))
        vd = float(10 ** rng.uniform(-5, -3))
        F = float(rng.uniform(-20, 20)) if trial % 2 else 0.0
        fs = float(rng.uniform(20e9, 400e9))
        n = int(2 ** rng.integers(8, 13))
        npol = int(rng.integers(1, 3))
        kind = trial % 5
        gv(sps=16, R=fs / 16)
        fc = gv.f0

        if kind < 4:
            apo, apo_f = BUILTIN[kind], BUILTIN_F[BUILTIN[kind]]
        else:
            apo = apo_f = random_callable(rng)

        sig = rng.normal(size=(npol, n)) + 1j * rng.normal(size=(npol, n))
        if npol == 1:
            sig = sig[0]
        x = optical_signal(sig)
        tag = f"trial {trial} kL={kL:.3g} vdneff={vd:.3g} F={F:.3g} fs={fs:.3g} n={n} npol={npol} apo={apo if isinstance(apo, str) else 'callable'}"

        y, H = fbg(x, fc=fc, vdneff=vd, kL=kL, apodization=apo, F=F, filtfilt=False)
        if H.shape != (n,) or not np.all(np.isfinite(H)):
            fail("C16 finite H", tag)
            continue
        if np.abs(H).max() > 1 + SOLVER_TOL:
            fail("C16 |H|<=1", f"{tag}: max |H| = {np.abs(H).max()}")

        ref = np.fft.ifft(np.fft.fft(x.signal, axis=-1) * np.fft.ifftshift(H), axis=-1)
        if y.signal.shape != x.signal.shape or not np.allclose(y.signal, ref, rtol=1e-9, atol=1e-9 * np.abs(ref).max()):
            fail("C16 output = input filtered by H", tag)
        e_in = np.sum(np.abs(x.signal) ** 2, axis=-1)
        e_out = np.sum(np.abs(y.signal) ** 2, axis=-1)
        if np.any(e_out > e_in * (1 + 2 * SOLVER_TOL)):
            fail("C16 energy", f"{tag}: {e_out} > {e_in}")

        # filtfilt path: same magnitude response, output still filtered by the returned H
        y2, H2 = fbg(x, fc=fc, vdneff=vd, kL=kL, apodization=apo, F=F, filtfilt=True)
        if not np.allclose(np.abs(H2), np.abs(H), rtol=1e-9, atol=1e-12):
            fail("C16 filtfilt magnitude", tag)
        ref2 = np.fft.ifft(np.fft.fft(x.signal, axis=-1) * np.fft.ifftshift(H2), axis=-1)
        if not np.allclose(y2.signal, ref2, rtol=1e-9, atol=1e-9 * np.abs(ref2).max()):
            fail("C16 output = input filtered by H (filtfilt)", tag)

        if F == 0.0:
            integral = quad(apo_f, -0.5, 0.5, limit=200)[0]
            want = np.tanh(kL * integral) ** 2
            got = np.abs(H[n // 2]) ** 2
            if abs(got - want) > SOLVER_TOL * max(want, 0.05):
                fail("C16 Bragg reflectivity", f"{tag}: {got} vs tanh^2 = {want}")
            if kind == 0:
                lam = 2 * pi * c / (x.w(shift=True) + 2 * pi * gv.f0)
                lam_D = c / fc
                L = kL / (pi * vd / lam_D)
                d = (2 * pi * 1.45 * (1 / lam - 1 / lam_D) * L).astype(complex)
                k = pi * vd / lam * L
                g = np.sqrt(k ** 2 - d ** 2)
                # overflow-safe form of sinh^2 g / (cosh^2 g - d^2/k^2)
                with np.errstate(all="ignore"):
                    Rw = np.real(np.sinh(g) ** 2 / (np.cosh(g) ** 2 - d ** 2 / k ** 2))
                err = np.abs(np.abs(H) ** 2 - Rw).max()
                if err > SOLVER_TOL:
                    fail("C16 uniform spectrum", f"{tag}: max err {err}")

    # equivalent specification routes
    rng = np.random.default_rng(1602)
    for trial in range(8):
        vd = float(10 ** rng.uniform(-5, -3))
        kL0 = float(rng.uniform(0.1, 8))
        fs = float(rng.uniform(20e9, 400e9))
        gv(sps=16, R=fs / 16)
        fc = gv.f0
        lam_D = c / fc
        Lam = lam_D / (2 * 1.45)
        N = int(round(kL0 / (pi * vd / lam_D) / Lam))
        L = N * lam_D / (2 * 1.45)
        kL = pi * vd / lam_D * L
        apo = BUILTIN[trial % 4]
        F = float(rng.uniform(-20, 20)) if trial % 2 else 0.0
        x = optical_signal(rng.normal(size=2 ** 9) + 0j)
        Hs = {}
        for cname, ckw in (("fc", dict(fc=fc)), ("landa_D", dict(landa_D=lam_D))):
            for lname, lkw in (("kL", dict(kL=kL)), ("L", dict(L=L)), ("N", dict(N=N))):
                Hs[cname, lname] = fbg(x, vdneff=vd, apodization=apo, F=F, **ckw, **lkw)[1]
        H0 = Hs["fc", "kL"]
        for key, H in Hs.items():
            if not np.allclose(H, H0, rtol=1e-6, atol=1e-6):
                fail("C16 equivalent specifications", f"trial {trial} route {key}: max diff {np.abs(H - H0).max()}")

    # incomplete specifications
    gv(sps=16, R=100e9 / 16)
    x = optical_signal(np.ones(2 ** 8))
    incomplete = [
        dict(),
        dict(vdneff=1e-4, kL=2),
        dict(fc=gv.f0),
        dict(fc=gv.f0, vdneff=1e-4),
        dict(fc=gv.f0, dneff=1e-4),
        dict(fc=gv.f0, kL=2),
        dict(landa_D=c / gv.f0),
        dict(landa_D=c / gv.f0, vdneff=1e-4),
        dict(landa_D=c / gv.f0, dneff=1e-4),
        dict(landa_D=c / gv.f0, kL=2),
        dict(landa_D=c / gv.f0, L=1e-2),
    ]
    for kw in incomplete:
        try:
            fbg(x, **kw)
        except ValueError:
            continue
        except Exception as e:
            fail("C16 incomplete -> ValueError", f"{kw}: raised {type(e).__name__}")
        else:
            fail("C16 incomplete -> ValueError", f"{kw}: no error")

    # the step bound of the integrator: a localised smooth profile is not stepped over (short grating, narrow band: the
    # detuning does not force small steps)
    gv(sps=16, R=20e9 / 16)
    x = optical_signal(np.ones(2 ** 8))
    for w, z0, kL in ((0.02, 0.13, 2.0), (0.03, -0.21, 2.0), (0.05, 0.0, 2.0), (0.02, 0.3, 1.0), (0.04, 0.1, 3.0)):
        prof = lambda z, w=w, z0=z0: 0.05 + np.exp(-((z - z0) / w) ** 2)
        integral = quad(prof, -0.5, 0.5, points=[z0], limit=400)[0]
        _, H = fbg(x, fc=gv.f0, vdneff=1e-3, kL=kL, apodization=prof)
        want = np.tanh(kL * integral) ** 2
        got = np.abs(H[len(H) // 2]) ** 2
        if abs(got - want) > 5e-3 * max(want, 0.05):
            fail("C16 Bragg reflectivity (localised profile)", f"w={w} z0={z0} kL={kL}: {got} vs {want}")

    gv(sps=16, R=100e9 / 16)
    x = optical_signal(np.ones(2 ** 8))
    # additional spellings of the built-in profiles (skipped where they are not recognised)
    for alt, name in (("Gaussian", "gaussian"), (" RCOS ", "rcos"), ("raised_cosine", "rcos"), ("Parabolic", "parabolic"), ("UNIFORM", "uniform")):
        with warnings.catch_warnings(record=True) as rec:
            warnings.simplefilter("always")
            _, Ha = fbg(x, fc=gv.f0, vdneff=1e-4, kL=3.0, apodization=alt)
        if any("not recognized" in str(w.message) for w in rec):
            continue
        _, Hn = fbg(x, fc=gv.f0, vdneff=1e-4, kL=3.0, apodization=name)
        if not np.array_equal(Ha, Hn):
            fail("apodization spelling", f"{alt!r} differs from {name!r}")
    warnings.simplefilter("ignore")

    # a falsy callable profile is applied
    _, H = fbg(x, fc=gv.f0, vdneff=1e-4, kL=2.0, apodization=np.poly1d([0.5]))
    if abs(np.abs(H[len(H) // 2]) ** 2 - np.tanh(1.0) ** 2) > 5e-3:
        fail("C16 Bragg reflectivity (poly1d profile)", f"{np.abs(H[len(H)//2])**2}")


# --------------------------------------------------------------------------------------
# C17
# --------------------------------------------------------------------------------------
def nrz(bits, sps, a, b, sigma, rng, bw=0.22):
    x = np.kron(bits, np.ones(sps)).astype(float)
    # mild band-limiting: circular Gaussian filter, rise time a fraction of the slot
    f = np.fft.fftfreq(len(x), d=1 / sps)
    x = np.real(np.fft.ifft(np.fft.fft(x) * np.exp(-0.5 * (f * bw * 2 * pi) ** 2)))
    return a + (b - a) * x + rng.normal(0, sigma, len(x))


def eye_of(y, sps, seed, **kw):
    gv(sps=sps, R=1e9)
    np.random.seed(seed)
    return GET_EYE(electrical_signal(y), sps_resamp=128, **kw)


def check_eye(e, a, b, sigma, sps, tag):
    d = b - a
    vals = [e.mu0, e.mu1, e.s0, e.s1, e.threshold, e.t_left, e.t_right, e.t_opt]
    if any(v is None for v in vals) or not np.all(np.isfinite(np.array(vals, dtype=float))):
        fail("C17 finite", f"{tag}: {vals}")
        return
    if abs(e.mu0 - a) > 0.08 * d:
        fail("C17 mu0", f"{tag}: mu0={e.mu0} a={a}")
    if abs(e.mu1 - b) > 0.08 * d:
        fail("C17 mu1", f"{tag}: mu1={e.mu1} b={b}")
    for name, s in (("s0", e.s0), ("s1", e.s1)):
        if not (sigma / 2 <= s <= 2 * sigma + 0.03 * d):
            fail(f"C17 {name}", f"{tag}: {name}={s} sigma={sigma}")
    if not (e.mu0 < e.threshold < e.mu1):
        fail("C17 threshold", f"{tag}: {e.mu0} < {e.threshold} < {e.mu1}")
    if abs((e.t_right - e.t_left) - 1) > 0.1:
        fail("C17 crossings", f"{tag}: t_left={e.t_left} t_right={e.t_right}")
    if abs(e.t_opt - (e.t_left + e.t_right) / 2) > 1.5 / 128:
        fail("C17 optimum midway", f"{tag}: t_opt={e.t_opt} t_left={e.t_left} t_right={e.t_right}")
    if not (isinstance(e.i, (int, np.integer)) and 0 <= e.i < sps):
        fail("C17 sampling index", f"{tag}: i={e.i!r}")


def check_C17():
    rng = np.random.default_rng(1701)
    trial = 0
    for sps in (8, 16, 32):
        for d in (1e-3, 0.05, 1.0, 100.0):
            for rep in range(3):
                trial += 1
                nb = int(rng.choice([64, 65, 127, 200, 511, 1024]))
                if rep == 0:
                    gv(sps=sps, R=1e9)
                    bits = np.asarray(PRBS(order=7, len=nb).data, dtype=float)
                else:
                    p = rng.uniform(0.25, 0.75)
                    bits = (rng.random(nb) < p).astype(float)
                    bits[:2] = [0, 1]
                a = float(rng.uniform(-1, 1) * d * rng.choice([0, 1, 10]))
                b = a + d
                sigma = float(rng.uniform(0.005, 0.05) * d)
                y = nrz(bits, sps, a, b, sigma, rng)
                seed = int(rng.integers(0, 2 ** 31))
                tag = f"trial {trial} sps={sps} nb={nb} a={a:.4g} b={b:.4g} sigma={sigma:.3g} seed={seed}"
                e = eye_of(y, sps, seed)
                check_eye(e, a, b, sigma, sps, tag)

                alpha = float(10 ** rng.uniform(-3, 3))
                beta = float(rng.uniform(-2, 2) * alpha * d)
                e2 = eye_of(alpha * y + beta, sps, seed)
                check_eye(e2, alpha * a + beta, alpha * b + beta, alpha * sigma, sps, tag + f" alpha={alpha:.4g} beta={beta:.4g}")
                tol = 1e-6 * alpha * d
                try:
                    if abs(e2.mu0 - (alpha * e.mu0 + beta)) > tol or abs(e2.mu1 - (alpha * e.mu1 + beta)) > tol:
                        fail("C17 equivariance of levels", f"{tag} alpha={alpha} beta={beta}")
                    if abs(e2.s0 - alpha * e.s0) > tol or abs(e2.s1 - alpha * e.s1) > tol:
                        fail("C17 equivariance of deviations", f"{tag} alpha={alpha} beta={beta}")
                    if (e2.t_left, e2.t_right, e2.t_opt, e2.i) != (e.t_left, e.t_right, e.t_opt, e.i):
                        fail("C17 timing invariance", f"{tag} alpha={alpha} beta={beta}")
                except TypeError:
                    fail("C17 equivariance", f"{tag}: missing outputs")

    # optional features (skipped where absent)
    params = inspect.signature(GET_EYE).parameters
    rng = np.random.default_rng(1704)
    bits = (rng.random(128) < 0.5).astype(float)
    y = nrz(bits, 16, 0.2, 1.2, 0.03, rng)
    base = eye_of(y, 16, 11)
    if "kde_points" in params:
        for m in (3, 64, 2000):
            e = eye_of(y, 16, 11, kde_points=m)
            check_eye(e, 0.2, 1.2, 0.03, 16, f"kde_points={m}")
            if (e.mu0, e.mu1, e.s0, e.s1, e.t_left, e.t_right, e.i) != (base.mu0, base.mu1, base.s0, base.s1, base.t_left, base.t_right, base.i):
                fail("kde_points leaves the other outputs alone", f"kde_points={m}")
        e = eye_of(y, 16, 11, kde_points=params["kde_points"].default)
        if e.threshold != base.threshold:
            fail("kde_points default", f"{e.threshold} vs {base.threshold}")
    for name in ("nslots", "v_split"):
        if hasattr(base, name):
            print(f"note: eye.{name} = {getattr(base, name)}")

    # behaviour the recent repairs were made for
    # one level holding a handful of samples (clustering starts at the extremes)
    rng = np.random.default_rng(1702)
    bits = np.zeros(4096)
    bits[[100, 1700, 3000]] = 1
    y = np.kron(bits, np.ones(8)) + rng.normal(0, 0.05, 4096 * 8)
    gv(sps=8, R=1e9)
    np.random.seed(5)
    e = GET_EYE(electrical_signal(y))
    if not (abs(e.mu0) < 0.08 and abs(e.mu1 - 1) < 0.08):
        fail("repair a3e7d8c (few ones)", f"mu0={e.mu0} mu1={e.mu1}")
    # short PPM records with inter-symbol interference: the threshold is the valley between the bulks of the two populations
    gv(sps=25, R=1e9)
    for case in (43, 51, 103, 181, 261, 296):
        r = np.random.default_rng(case)
        nsym = int(r.integers(2, 5))
        bits = np.zeros(4 * nsym)
        for k in range(nsym):
            bits[4 * k + r.integers(0, 4)] = 1
        x = np.kron(bits, np.ones(25))
        f = np.fft.fftfreq(len(x), d=1 / 25)
        bw = r.uniform(0.3, 0.9)
        Hf = np.exp(-0.5 * (f * bw * 2 * pi) ** 2) * np.exp(1j * r.uniform(0, 8) * f ** 2 * 4)
        y = np.abs(np.fft.ifft(np.fft.fft(x) * Hf)) ** 2 * 0.06 + r.normal(0, 2e-4, len(x))
        np.random.seed(1)
        e = GET_EYE(electrical_signal(y))
        lo, hi = e.mu0 + 2 * e.s0, e.mu1 - 2 * e.s1
        if e.threshold is None or not np.isfinite(e.threshold):
            fail("repair d6c351b (valley between the bulks)", f"case {case}: threshold={e.threshold}")
        elif lo < hi and not (lo <= e.threshold <= hi or abs(e.threshold - (e.mu0 + e.mu1) / 2) < 1e-12):
            fail("repair d6c351b (valley between the bulks)", f"case {case}: threshold={e.threshold} outside [{lo}, {hi}]")
    # odd slot count keeps the last slot
    rng = np.random.default_rng(1703)
    bits = (rng.random(65) < 0.5).astype(float)
    y = nrz(bits, 16, 0, 1, 0.02, rng)
    e = eye_of(y, 16, 7)
    if len(e.y) != 66 * 128:
        fail("repair 06b8398 (odd slot count)", f"len(y)={len(e.y)}")


# --------------------------------------------------------------------------------------
# C18
# --------------------------------------------------------------------------------------
def check_shortest_int(data, p, tag):
    lo, hi = shortest_int(data, p)
    srt = np.sort(data)
    lag = int(len(data) * p / 100)
    diffs = srt[lag:] - srt[: len(srt) - lag]
    if not lo <= hi:
        fail("C18 shortest_int order", tag)
    ok = any(srt[i] == lo and srt[i + lag] == hi for i in np.where(diffs == hi - lo)[0])
    if not ok:
        fail("C18 shortest_int order statistics lag apart", tag)
    if hi - lo > diffs.min():
        fail("C18 shortest_int minimal", f"{tag}: {hi - lo} > {diffs.min()}")
    if np.count_nonzero((data >= lo) & (data <= hi)) < lag + 1:
        fail("C18 shortest_int coverage", tag)


def check_C18():
    rng = np.random.default_rng(1801)
    gv(sps=16, R=1e9)
    lengths = [2, 3, 7, 100, 1000, 9999, 10000, 20000, 2 ** 15, 2 ** 17]
    trial = 0
    for length in lengths:
        for dist in ("gauss", "uniform", "sine", "quantised"):
            trial += 1
            scale = float(10 ** rng.uniform(-3, 2))
            off = float(rng.uniform(-2, 2) * scale)
            if dist == "gauss":
                x = rng.normal(0, 1, length)
            elif dist == "uniform":
                x = rng.uniform(-1, 1, length)
            elif dist == "sine":
                x = np.sin(2 * pi * rng.uniform(0.001, 0.2) * np.arange(length) + rng.uniform(0, 6))
            else:
                x = np.round(rng.normal(0, 1, length) * 3) / 3
                if length > 4 and np.ptp(x) == 0:
                    x[0] += 1 / 3
            x = x * scale + off
            if length > 10000 and dist != "sine":
                x[rng.integers(0, length)] += 40 * scale  # a far outlier, excluded by the 99.99% range
            n = int(rng.integers(1, 13))
            tag = f"trial {trial} len={length} dist={dist} n={n} scale={scale:.3g}"
            Vmin, Vmax = shortest_int(x, 99.99)
            if length > 10000 and dist != "sine" and not Vmax < x.max():
                fail("C18 99.99% range excludes the outlier", tag)
            for arg in (x, electrical_signal(x)):
                out_n = ADC(arg, n=n, otype="n")
                out_v = ADC(arg, n=n, otype="v")
                cn = np.asarray(out_n.signal)
                cv = np.asarray(out_v.signal)
                if len(cn) != length or len(cv) != length:
                    fail("C18 length", tag)
                    continue
                if Vmax == Vmin:
                    continue
                if len(np.unique(cv)) > 2 ** n or len(np.unique(cn)) > 2 ** n:
                    fail("C18 at most 2^n values", tag)
                step = (Vmax - Vmin) / (2 ** n - 1)
                eps = 1e-9 * max(abs(Vmax), abs(Vmin), Vmax - Vmin)
                if cv.min() < Vmin - eps or cv.max() > Vmax + eps:
                    fail("C18 within the full-scale range", f"{tag}: [{cv.min()}, {cv.max()}] vs [{Vmin}, {Vmax}]")
                if not np.all(cn == np.round(cn)) or cn.min() < 0 or cn.max() > 2 ** n - 1:
                    fail("C18 integer codes", tag)
                inside = (x >= Vmin) & (x <= Vmax)
                if np.any(np.abs(cv[inside] - x[inside]) > step / 2 * (1 + 1e-9) + eps):
                    fail("C18 half a step", f"{tag}: {np.abs(cv[inside] - x[inside]).max()} > {step / 2}")
                if np.any(np.abs(cn[inside] * step + Vmin - x[inside]) > step / 2 * (1 + 1e-9) + eps):
                    fail("C18 half a step (codes)", tag)
                if np.any(cn[x > Vmax] != 2 ** n - 1) or np.any(cn[x < Vmin] != 0):
                    fail("C18 saturation at the end codes", tag)
                if np.any(np.abs(cv[x > Vmax] - Vmax) > eps) or np.any(np.abs(cv[x < Vmin] - Vmin) > eps):
                    fail("C18 saturation (amplitudes)", tag)
            for p in (0.5, 10, 50, 90, 99.99):
                check_shortest_int(x, p, tag + f" p={p}")

    # the saturation before the integer cast: far outliers and a zero-width range
    x = rng.normal(0, 1, 20000)
    x[5] = 1e300
    x[6] = np.inf
    cn = np.asarray(ADC(x, n=8, otype="n").signal)
    if cn[5] != 255 or cn[6] != 255:
        fail("repair 0d9c046 (far outlier saturates at the top code)", f"{cn[5]}, {cn[6]}")
    x = np.zeros(30000)
    x[7] = 1.0
    cn = np.asarray(ADC(x, n=4, otype="n").signal)
    if cn[7] != 15 or len(cn) != 30000:
        fail("repair 0d9c046 (zero-width range)", f"code {cn[7]}")
    try:
        ADC(rng.normal(size=100), otype="x")
    except ValueError:
        pass
    except Exception as e:
        print("note: otype error type", type(e).__name__)


if __name__ == "__main__":
    for f in (check_C18, check_C17, check_C16):
        try:
            f()
        except Exception as e:
            import traceback
            traceback.print_exc()
            fail(f.__name__, f"crashed: {type(e).__name__}: {e}")
    if FAILS:
        print(f"FAIL ({len(FAILS)} clauses)")
        sys.exit(1)
    print("PASS")
    sys.exit(0)
