import sys, os
_here = os.path.dirname(os.path.abspath(__file__))
if sys.path and os.path.abspath(sys.path[0] or os.getcwd()) == _here:
    sys.path.pop(0)

import inspect
import re
import warnings
import numpy as np
from scipy.integrate import quad
from scipy.optimize import minimize_scalar
from scipy.special import erfc
from scipy.constants import k as kB, e as qe, h, c

import opticomlib
from opticomlib import utils as U
from opticomlib import ook, ppm
from opticomlib.devices import ADC

warnings.simplefilter('ignore')
FAILS = []


def check(cond, clause, detail=''):
    if not cond:
        FAILS.append(f'{clause} {detail}')


def raises(exc, f, *a, **k):
    try:
        f(*a, **k)
    except exc:
        return True
    except Exception:
        return False
    return False


def Qr(x):
    return 0.5*erfc(np.asarray(x, dtype=float)/np.sqrt(2))


# ---------------------------------------------------------------- C19
def c19_units():
    rng = np.random.default_rng(1901)
    x = 10**rng.uniform(-15, 15, 4000)
    check(np.allclose(U.idb(U.db(x)), x, rtol=1e-12, atol=0), 'C19 idb(db(x))=x array')
    check(np.allclose(U.idbm(U.dbm(x)), x, rtol=1e-12, atol=0), 'C19 idbm(dbm(x))=x array')
    for v in x[:300]:
        v = float(v)
        check(abs(U.idb(U.db(v))/v - 1) < 1e-12, 'C19 idb(db(x))=x scalar', v)
        check(abs(U.idbm(U.dbm(v))/v - 1) < 1e-12, 'C19 idbm(dbm(x))=x scalar', v)
        check(abs(U.dbm(v) - (U.db(v) + 30)) < 1e-10, 'C19 dbm=db+30', v)
    d = rng.uniform(-300, 300, 4000)
    check(np.allclose(U.db(U.idb(d)), d, rtol=0, atol=1e-10), 'C19 db(idb(d))=d')
    check(np.allclose(U.dbm(U.idbm(d)), d, rtol=0, atol=1e-10), 'C19 dbm(idbm(d))=d')
    for v in d[:200]:
        check(abs(U.db(U.idb(float(v))) - v) < 1e-10, 'C19 db(idb(d))=d scalar', v)
    a, b = 10**rng.uniform(-7, 7, 2000), 10**rng.uniform(-7, 7, 2000)
    check(np.allclose(U.db(a*b), U.db(a) + U.db(b), rtol=0, atol=1e-10), 'C19 db(xy)=db(x)+db(y)')
    check(np.allclose(U.dbm(a), U.db(a) + 30, rtol=0, atol=1e-10), 'C19 dbm=db+30 array')
    for f in (U.db, U.dbm):
        check(raises(ValueError, f, -1.0), 'C19 negative raises ValueError scalar', f.__name__)
        check(raises(ValueError, f, [1.0, -2.0]), 'C19 negative raises ValueError list', f.__name__)
        check(raises(ValueError, f, np.array([3, -1])), 'C19 negative raises ValueError int array', f.__name__)
    check(np.ndim(U.db(2.0)) == 0 and np.shape(U.db([1, 2, 3])) == (3,), 'C19 db scalar/array shapes')
    for dt in (np.uint8, np.int8, np.uint16, np.int16, np.int32, np.int64):
        xi = np.array([1, 2, 3, 7, 100, 127], dtype=dt)
        out = U.db(xi)
        check(np.allclose(out, 10*np.log10(xi.astype(float)), rtol=0, atol=1e-12), 'C19 db integer arrays in double precision (repair c246e27)', dt.__name__)
        check(np.allclose(U.idb(out), xi, rtol=1e-13), 'C19 idb(db(int array))', dt.__name__)
    check(U.db(1) == 0.0 and abs(U.dbm(1) - 30) < 1e-12, 'C19 db(1)=0 dbm(1)=30')

    xs = np.linspace(-8, 8, 3201)
    q = U.Q(xs)
    check(np.allclose(q + U.Q(-xs), 1, rtol=0, atol=1e-15), 'C19 Q(x)+Q(-x)=1')
    check(np.all(np.diff(q) <= 0) and np.all(np.diff(q[xs >= -5]) < 0), 'C19 Q decreasing')
    check(U.Q(0) == 0.5, 'C19 Q(0)=1/2')
    check(np.allclose(q, Qr(xs), rtol=1e-13, atol=0), 'C19 Q closed form')
    check(np.allclose(U.Q(list(xs[:5])), q[:5]), 'C19 Q list')
    for mu, s in [(None, None), (0, 1), (2.5, 0.3), (-4, 7.0), (1e3, 1e-2)]:
        m_, s_ = (0 if mu is None else mu), (1 if s is None else s)
        I = quad(lambda t: float(U.gaus(t, mu, s)), m_ - 12*s_, m_ + 12*s_, points=[m_], epsabs=0, epsrel=1e-12)[0]
        check(abs(I - 1) < 1e-9, 'C19 gaus integrates to one', (mu, s))
        g = U.gaus(np.linspace(m_ - 3*s_, m_ + 3*s_, 7), mu, s)
        check(np.allclose(g, g[::-1], rtol=1e-9), 'C19 gaus symmetric')

    for alpha in (0, 0.1, 0.25, 0.5, 0.75, 1):
        for T in (0.5, 1, 2, 1e-9):
            f = np.linspace(-2/T, 2/T, 2001)
            H = U.rcos(f, alpha, T)
            check(np.all((H >= 0) & (H <= 1)), 'C19 rcos in [0,1]', (alpha, T))
            check(np.allclose(H, U.rcos(-f, alpha, T), atol=1e-12), 'C19 rcos even', (alpha, T))
            check(np.all(H[np.abs(f) > (1 + alpha)/(2*T)*(1 + 1e-12)] == 0), 'C19 rcos vanishes', (alpha, T))
            if alpha > 0:
                check(abs(U.rcos(1/(2*T), alpha, T) - 0.5) < 1e-12, 'C19 rcos(1/2T)=1/2 scalar', (alpha, T))
                check(abs(U.rcos(np.array([1/(2*T)]), alpha, T)[0] - 0.5) < 1e-12, 'C19 rcos(1/2T)=1/2 array', (alpha, T))
            for v in (0.0, 0.3/T, -0.7/T, 1.5/T):
                check(abs(U.rcos(v, alpha, T) - U.rcos(np.array([v]), alpha, T)[0]) < 1e-12, 'C19 rcos scalar=array', (alpha, T, v))
    check(abs(U.rcos(np.array([0, 1, 2]), 1, 0.5)[1] - 0.5) < 1e-12, 'C19 rcos integer grid (repair ef4b3b4)')


def c19_dec2bin():
    for d in range(1, 17):
        vs = range(2**d) if d <= 11 else list(range(0, 2**d, 37)) + [2**d - 1]
        for v in vs:
            b = U.dec2bin(v, d)
            if len(b) != d or int(''.join(map(str, np.asarray(b).astype(int))), 2) != v:
                check(False, 'C19 dec2bin expansion', (v, d))
                return
        check(raises(ValueError, U.dec2bin, 2**d, d), 'C19 dec2bin too large ValueError', d)
        check(raises(ValueError, U.dec2bin, 2**d + 5, d), 'C19 dec2bin too large ValueError', d)
    check(np.array_equal(U.dec2bin(5, 4), [0, 1, 0, 1]), 'C19 dec2bin(5,4)')


def _render(arr, sep, rowsep, imag='j'):
    def one(v):
        if np.iscomplexobj(arr):
            re_, im_ = repr(float(v.real)), repr(float(abs(v.imag)))
            return f'{fix(re_)}{"+" if v.imag >= 0 else "-"}{fix(im_)}{imag}'
        if arr.dtype.kind == 'f':
            return fix(repr(float(v)))
        return str(int(v))

    def fix(s):
        return s if 'e' not in s else f'{float(s):.12f}'
    rows = np.atleast_2d(arr)
    txt = rowsep.join(sep.join(one(v) for v in r) for r in rows)
    return txt


def c19_str2array():
    rng = np.random.default_rng(1902)
    shapes = [(n,) for n in range(1, 7)] + [(r, cc) for r in (2, 3) for cc in range(1, 7)]
    for shape in shapes:
        for sep in (',', ' ', ', ', '  '):
            for rowsep in (';', '; ', ' ; '):
                ai = rng.integers(-999, 1000, shape)
                ai.flat[0] = 7  # not only 0/1 digits
                af = np.round(rng.uniform(-500, 500, shape), 4)
                ac = np.round(rng.uniform(-50, 50, shape), 3) + 1j*np.round(rng.uniform(-50, 50, shape), 3)
                for arr, kind in ((ai, 'iu'), (af, 'f'), (ac, 'c')):
                    for im in ('j', 'i'):
                        txt = _render(arr, sep, rowsep, im)
                        out = U.str2array(txt)
                        ok = out.shape == arr.shape and out.dtype.kind in kind and np.allclose(out, arr, rtol=1e-12, atol=1e-12)
                        check(ok, 'C19 str2array inverts textual form', repr(txt))
                        if not np.iscomplexobj(arr):
                            break
                out = U.str2array(_render(ai, sep, rowsep), dtype=float)
                check(out.dtype == np.float64 and np.array_equal(out, ai), 'C19 str2array honours dtype float')
                out = U.str2array(_render(ai, sep, rowsep), dtype=complex)
                check(out.dtype == np.complex128 and np.array_equal(out, ai), 'C19 str2array honours dtype complex')
                out = U.str2array(_render(af, sep, rowsep), dtype=np.float32)
                check(out.dtype == np.float32 and np.allclose(out, af, rtol=1e-6), 'C19 str2array honours dtype float32')
                bits = rng.integers(0, 2, shape)
                txt = _render(bits, sep, rowsep)
                out = U.str2array(txt)
                check(out.dtype == bool and out.shape == bits.shape and np.array_equal(out, bits), 'C19 str2array 0/1 text is bit pattern', repr(txt))
                for dt in (int, float, complex, np.int64, np.uint8, np.float32, np.int16):
                    out = U.str2array(txt, dtype=dt)
                    check(out.dtype == np.dtype(dt) and out.shape == bits.shape and np.array_equal(out, bits), 'C19 str2array 0/1 text numeric dtype', (txt, dt))
                out = U.str2array(txt, dtype=bool)
                check(out.dtype == bool and np.array_equal(out, bits), 'C19 str2array 0/1 text bool dtype')
    check(np.array_equal(U.str2array('10101'), [1, 0, 1, 0, 1]) and U.str2array('10101').dtype == bool, 'C19 str2array 10101')
    check(np.array_equal(U.str2array('10 100 1000'), [1, 0, 1, 0, 0, 1, 0, 0, 0]), 'C19 str2array digit by digit')
    check(np.array_equal(U.str2array('100;101'), [[1, 0, 0], [1, 0, 1]]), 'C19 str2array 2-D digits')
    for dt in (int, float, complex, np.int64, np.int32, np.float32, np.uint16):
        out = U.str2array('1 0 1 10', dtype=dt)
        check(np.array_equal(out, [1, 0, 1, 10]) and out.dtype == np.dtype(dt), 'C19 str2array token by token (repair 3584e5c)', dt)
    check(np.array_equal(U.str2array('1 0 1 10; 11 0 1 1', dtype=np.int64), [[1, 0, 1, 10], [11, 0, 1, 1]]), 'C19 str2array token by token 2-D (repair 3584e5c)')
    for bad in ('1 2 a', '1,2;3x', 'hello', '1e3 2', '[1, 2]', '1 2 #', '3 4 k', '1+2j 3*4', '0 1 b', '(1,2)', '1_000', '1 2 $', '0x1f'):
        check(raises(ValueError, U.str2array, bad), 'C19 str2array ValueError on other characters', repr(bad))
        check(raises(ValueError, U.str2array, bad, float), 'C19 str2array ValueError on other characters (dtype)', repr(bad))


_PREF = {'f': -15, 'p': -12, 'n': -9, 'u': -6, 'μ': -6, 'µ': -6, 'm': -3, '': 0, 'k': 3, 'M': 6, 'G': 9, 'T': 12}


def c19_si():
    rng = np.random.default_rng(1903)
    xs = list(10**rng.uniform(-15, 15, 3000))
    for p in range(-15, 15):
        xs += [10.0**p, float(f'1e{p}'), np.nextafter(10.0**p, np.inf), 9.99*10.0**p, 5*10.0**p, 999.4*10.0**p if p % 3 == 0 else 2*10.0**p]
        if p > -15:
            xs.append(np.nextafter(float(f'1e{p}'), 0))
    for x in xs:
        x = float(x)
        if not (1e-15 <= x < 1e15):
            continue
        for unit in ('Hz', 's', 'W'):
            for k in (1, 3):
                txt = U.si(x, unit, k)
                m = re.fullmatch(r'(\d+\.\d{%d}) (.?)%s' % (k, re.escape(unit)), txt or '')
                if not m or m.group(2) not in _PREF:
                    check(False, 'C19 si format', (x, txt))
                    continue
                p10 = _PREF[m.group(2)]
                mant = float(m.group(1))
                check(abs(mant*10.0**p10 - x) <= (0.5*10.0**-k*(1 + 1e-9) + 1e-12*mant)*10.0**p10, 'C19 si mantissa*prefix gives x', (x, txt))
                um = x/10.0**p10
                check(1 - 1e-12 <= um < 1000*(1 + 1e-12), 'C19 si unrounded mantissa in [1,1000)', (x, txt))
            break
    check(U.si(0.002, 's') == '2.0 ms' and U.si(1e9, 'Hz') == '1.0 GHz' and U.si(2.5e12, 'Hz') == '2.5 THz', 'C19 si examples')


# ---------------------------------------------------------------- C18
def _brute_shortest(data, p):
    s = np.sort(np.asarray(data))
    lag = int(np.floor(len(s)*p/100))
    w = s[lag:] - s[:len(s) - lag]
    return s, lag, w.min()


def c18_shortest_int():
    rng = np.random.default_rng(1801)
    sets = []
    for n in (2, 3, 5, 10, 37, 100, 1000, 4096):
        sets += [rng.normal(0, 1, n), rng.uniform(-3, 5, n), np.sin(np.linspace(0, 20, n)),
                 np.round(rng.normal(0, 2, n)), rng.integers(0, 4, n), np.round(rng.normal(0, 1, n)*4)/4,
                 rng.integers(-5, 6, n).astype(float)*0.1]
    for data in sets:
        for p in (0.5, 1, 10, 25, 33.3, 50, 68, 90, 99, 99.99):
            s, lag, wmin = _brute_shortest(data, p)
            if lag >= len(s):
                continue
            out = U.shortest_int(data, p)
            lo, hi = out
            ok = len(out) == 2 and lo <= hi
            ok = ok and (lo in s) and (hi in s)
            # lo and hi exactly lag order statistics apart
            il = np.where(s == lo)[0]
            apart = any(i + lag < len(s) and s[i + lag] == hi for i in il)
            ok = ok and apart and (hi - lo) == wmin
            ok = ok and np.count_nonzero((s >= lo) & (s <= hi)) >= lag + 1
            check(ok, 'C18 shortest_int shortest covering interval', (len(data), p, lo, hi, wmin))
    lo, hi = U.shortest_int(np.array([3.0, 1.0, 2.0]), 10)
    check(lo == hi, 'C18 shortest_int lag 0 (repair e42fd5a)')
    lo, hi = U.shortest_int(np.array([0, 0, 0, 5, 9, 9, 9, 20.0]), 30)
    check(hi - lo == 0, 'C18 shortest_int ties (repair 9d4e0d3)')
    lo, hi = U.shortest_int(list(range(10)), 50)
    check(hi - lo == 5, 'C18 shortest_int list input')


def c18_adc():
    rng = np.random.default_rng(1802)
    N = 20000
    sigs = {
        'gauss': rng.normal(0, 1, N),
        'uniform': rng.uniform(-2, 3, N),
        'sine': np.sin(2*np.pi*np.arange(N)/97.3),
        'quantised': np.round(rng.normal(0, 1, N)*8)/8,
        'short': rng.normal(0, 1, 64),
        'outlier': np.r_[rng.normal(0, 1, N - 1), 1e6],
    }
    for name, x in sigs.items():
        vmin, vmax = np.sort(x)[[0, -1]]
        for n in (1, 2, 4, 8, 12):
            yn = np.asarray(ADC(x, n=n, otype='n').signal)
            yv = np.asarray(ADC(x, n=n, otype='v').signal)
            lo, hi = U.shortest_int(x, 99.99)
            check(len(yn) == len(x) and len(yv) == len(x), 'C18 ADC length', (name, n))
            check(len(np.unique(yn)) <= 2**n and len(np.unique(yv)) <= 2**n, 'C18 ADC at most 2^n values', (name, n))
            check(np.all(yn == np.round(yn)) and yn.min() >= 0 and yn.max() <= 2**n - 1, 'C18 ADC codes', (name, n))
            check(yv.min() >= lo - 1e-9*abs(lo) - 1e-12 and yv.max() <= hi + 1e-9*abs(hi) + 1e-12, 'C18 ADC within range', (name, n))
            if hi > lo:
                step = (hi - lo)/(2**n - 1)
                ins = (x >= lo) & (x <= hi)
                check(np.all(np.abs(yv[ins] - x[ins]) <= step/2*(1 + 1e-9) + 1e-12), 'C18 ADC half step', (name, n))
                check(np.all(yn[x > hi] == 2**n - 1) and np.all(yn[x < lo] == 0), 'C18 ADC saturates', (name, n))


# ---------------------------------------------------------------- C13
def _ook_true_min(d, s0, s1):
    f = lambda x: 0.5*(Qr((d - x)/s1) + Qr(x/s0))
    g = np.linspace(0, d, 20001)
    v = f(g)
    i = int(np.argmin(v))
    a, b = g[max(i - 1, 0)], g[min(i + 1, len(g) - 1)]
    r = minimize_scalar(f, bounds=(a, b), method='bounded', options={'xatol': 1e-14*d})
    return min(v[i], float(r.fun))


def _ppm_hard_true_min(d, s0, s1, M):
    f = lambda x: 1 - Qr((x - d)/s1)*(1 - Qr(x/s0))**(M - 1)
    g = np.linspace(0, d, 40001)
    return float(np.min(f(g)))


def _ppm_soft_ref(d, s0, s1, M):
    f = lambda x: -np.expm1((M - 1)*np.log1p(-Qr((d + s1*x)/s0)))*np.exp(-x**2/2)
    k = -d/s1
    pts = np.clip(k + s0/s1*np.array([-30, -10, -3, -1, 0, 1, 3, 10, 30]), -39, 39)
    edges = np.unique(np.r_[-39, pts, 39])
    with np.errstate(all='ignore'):
        tot = sum(quad(f, a, b, epsabs=0, epsrel=1e-11, limit=200)[0] for a, b in zip(edges[:-1], edges[1:]))
    return tot/np.sqrt(2*np.pi)


def c13_closed_forms():
    rng = np.random.default_rng(1301)
    s = 10**rng.uniform(-3, 1, 60)
    mu = s*rng.uniform(0.05, 20, 60)
    out = ook.theory_BER(mu, s, s)
    ref = Qr(mu/(2*s))
    check(np.all(out >= ref*(1 - 1e-12)) and np.allclose(out, ref, rtol=1e-2, atol=1e-300), 'C13 ook.theory_BER(mu,s,s)=Q(mu/2s)')
    for i in range(25):
        s0, s1 = 10**rng.uniform(-2, 0, 2)
        m = rng.uniform(0.05, 20)*min(s0, s1)
        v = float(ook.theory_BER(m, s0, s1))
        t = _ook_true_min(m, s0, s1)
        check(v >= t*(1 - 1e-10) and v <= t*1.05 + 1e-300, 'C13 ook.theory_BER min over thresholds', (m, s0, s1, v, t))
        check(v <= 0.5 + 1e-15, 'C13 ook bound')
    for i in range(20):
        s0, s1 = 10**rng.uniform(-2, 0, 2)
        m = rng.uniform(0.05, 12)*min(s0, s1)
        v = float(ppm.theory_BER(m, s0, s1, 2, 'soft'))
        ref = float(Qr(m/np.hypot(s0, s1)))
        check(abs(v - ref) <= 1e-8*ref + 1e-300, 'C13 ppm soft M=2 = Q(mu/sqrt(s0^2+s1^2))', (m, s0, s1, v, ref))
        for M in (2, 4, 16, 64, 256):
            so = float(ppm.theory_BER(m, s0, s1, M, 'soft'))
            ha = float(ppm.theory_BER(m, s0, s1, M, 'hard'))
            check(so <= ha*(1 + 1e-9) + 1e-300, 'C13 ppm soft <= hard', (m, s0, s1, M, so, ha))
            check(ha <= M/(2*(M - 1)) + 1e-12 and so <= M/(2*(M - 1)) + 1e-12, 'C13 ppm bound M/(2(M-1))', (M,))
            ref = _ppm_soft_ref(m, s0, s1, M)*M/2/(M - 1)
            check(abs(so - ref) <= 1e-7*ref + 1e-300, 'C13 ppm soft = integral', (m, s0, s1, M, so, ref))
    mus = np.linspace(0.1, 12, 40)
    for M in (2, 8, 256):
        for dec in ('soft', 'hard'):
            v = ppm.theory_BER(mus, 0.7, 1.3, M, dec)
            check(np.shape(v) == mus.shape and np.all(np.diff(v) <= 1e-12*v[:-1]), 'C13 ppm non-increasing in mu / vectorises', (M, dec))
    v = ook.theory_BER(mus, 0.7, 1.3)
    check(np.shape(v) == mus.shape and np.all(np.diff(v) <= 1e-12*v[:-1]), 'C13 ook non-increasing in mu / vectorises')


def c13_optimum_threshold():
    rng = np.random.default_rng(1302)
    N = lambda r, m, S: np.exp(-(r - m)**2/(2*S))/np.sqrt(2*np.pi*S)
    for i in range(400):
        s0, s1 = 10**rng.uniform(-3, 0, 2)
        mu0 = rng.uniform(-1, 1)
        d = rng.uniform(0.5, 20)*max(s0, s1)
        mu1 = mu0 + d
        S0, S1 = s0**2, s1**2
        r = U.optimum_threshold(mu0, mu1, S0, S0, 'ook')
        check(abs(r - (mu0 + mu1)/2) <= 1e-12*(abs(mu0) + abs(mu1)), 'C13 optimum_threshold midpoint equal sigmas (repair 29a229e)', (mu0, mu1, S0))
        for mod, M in (('ook', None), ('OOK', None), ('ppm', 2), ('ppm', 4), ('ppm', 16), ('PPM', 256)):
            Mm = 2 if M is None else M
            if d**2 + 2*(S1 - S0)*np.log(s1/s0*(Mm - 1)) < 1e-9*d**2:
                continue
            r = U.optimum_threshold(mu0, mu1, S0, S1, mod, M)
            lhs, rhs = np.log(Mm - 1) - (r - mu0)**2/(2*S0) - 0.5*np.log(S0), -(r - mu1)**2/(2*S1) - 0.5*np.log(S1)
            check(abs(lhs - rhs) <= 1e-8*(1 + abs(lhs)), 'C13 optimum_threshold solves (M-1)N0=N1', (mu0, mu1, S0, S1, M, r))
            r2 = U.optimum_threshold(0.0, d, S0, S1, mod, M)
            check(abs((r - mu0) - r2) <= 1e-9*d, 'C13 optimum_threshold depends on mu1-mu0 only', (mu0, mu1, S0, S1, M))
            if mod.lower() == 'ook' and d >= 6*max(s0, s1):
                check(mu0 <= r <= mu1, 'C13 optimum_threshold in [mu0,mu1]', (mu0, mu1, S0, S1))
        r = U.optimum_threshold(mu0, mu1, S0, S0, 'ppm', 2)
        check(abs(r - (mu0 + mu1)/2) <= 1e-12*(abs(mu0) + abs(mu1)), 'C13 optimum_threshold midpoint ppm M=2 equal sigmas')
    r = U.optimum_threshold(np.float64(0), np.float64(1), np.float64(0.01), np.float64(0.01), 'ook')
    check(np.isfinite(r) and abs(r - 0.5) < 1e-14, 'C13 optimum_threshold S0==S1 numpy floats (repair 29a229e)')


def _params(rng, amplify):
    p = dict(ER=float(rng.choice([3, 6, 10, 13, 20, 30, np.inf])), r=float(rng.uniform(0.05, 1)), R_L=float(10**rng.uniform(1, 4)),
             T=float(rng.uniform(0, 400)), NF_el=float(rng.uniform(0, 6)), BW_el=float(10**rng.uniform(8.5, 10)))
    if amplify:
        p.update(amplify=True, G=float(rng.uniform(0, 40)), NF=float(rng.uniform(3, 10)))
        p['BW_opt'] = p['BW_el']*float(rng.uniform(1.5, 20))
    else:
        p.update(amplify=False)
    return p


def c13_receiver_model():
    rng = np.random.default_rng(1303)
    f0 = 193.4145e12
    wl = c/f0
    for it in range(60):
        amplify = bool(it % 2)
        p = _params(rng, amplify)
        P = float(rng.uniform(-50, 0))
        mod, M = [('ook', None), ('ppm', 2), ('ppm', 4), ('ppm', 16), ('ppm', 256)][it % 5]
        Mm = 2 if M is None else M
        er = 10**(p['ER']/10)
        pav = 1e-3*10**(P/10)
        pon = pav*Mm/(1 + (Mm - 1)/er)
        poff = pon/er
        g = 10**(p['G']/10) if amplify else 1
        pase = 10**(p['NF']/10)*h*f0*(g - 1)*p['BW_opt'] if amplify else 0
        kw = {k: v for k, v in p.items() if k in ('amplify', 'G', 'NF', 'BW_opt')}
        check(abs(U.p_ase(wavelength=wl, **kw) - pase) <= 1e-12*pase, 'C13 p_ase model')
        mu, muase = U.average_voltages(P, mod, M, p['ER'], wavelength=wl, r=p['r'], R_L=p['R_L'], **kw)
        mu_ref = p['r']*g*np.array([poff, pon])*p['R_L'] + p['r']*pase*p['R_L']
        check(np.allclose(mu, mu_ref, rtol=1e-11, atol=0) and abs(muase - p['r']*pase*p['R_L']) <= 1e-11*muase, 'C13 average_voltages ON/OFF levels', (P, mod, M, p))
        S = U.noise_variances(P, mod, M, p['ER'], wavelength=wl, r=p['r'], BW_el=p['BW_el'], R_L=p['R_L'], T=p['T'], NF_el=p['NF_el'], **kw)
        l = p['BW_el']/p['BW_opt'] if amplify else 1
        mA = p['r']*pase*p['R_L']
        S_ref = (4*kB*p['T']*p['BW_el']*p['R_L']*10**(p['NF_el']/10) + 2*qe*mu_ref*p['BW_el']*p['R_L']
                 + 2*mA*(mu_ref - mA)*l + mA**2*(1 - l/2)*l)
        check(np.allclose(S, S_ref, rtol=1e-10, atol=0), 'C13 noise_variances thermal/shot/beat terms', (P, mod, M, p))
        d, s0, s1 = mu_ref[1] - mu_ref[0], S_ref[0]**0.5, S_ref[1]**0.5
        tk = dict(ER=p['ER'], amplify=amplify, f0=f0, r=p['r'], BW_el=p['BW_el'], R_L=p['R_L'], T=p['T'], NF_el=p['NF_el'])
        if amplify:
            tk.update(G=p['G'], NF=p['NF'], BW_opt=p['BW_opt'])
        if mod == 'ook':
            v = float(U.theory_BER(P, 'ook', **tk))
            t = _ook_true_min(d, s0, s1)
            check(v >= t*(1 - 1e-9) and v <= t*1.02 + 1e-290, 'C13 utils.theory_BER ook = error integral', (P, p, v, t))
            th = float(rng.uniform(0.1, 0.9))
            v = float(U.theory_BER(P, 'ook', threshold=th, **tk))
            t = 0.5*(Qr((d - th*d)/s1) + Qr(th*d/s0))
            check(abs(v - t) <= 1e-7*t + 1e-290, 'C13 utils.theory_BER ook fixed threshold', (P, p, v, t))
        else:
            v = float(U.theory_BER(P, 'ppm', M, 'hard', **tk))
            t = _ppm_hard_true_min(d, s0, s1, Mm)*Mm/2/(Mm - 1)
            check(v >= t*(1 - 1e-6) - 1e-15 and v <= t*1.02 + 1e-15, 'C13 utils.theory_BER ppm hard = error integral', (P, M, p, v, t))
            vs = float(U.theory_BER(P, 'ppm', M, 'soft', **tk))
            t = _ppm_soft_ref(d, s0, s1, Mm)*Mm/2/(Mm - 1)
            check(abs(vs - t) <= 1e-6*t + 1e-290, 'C13 utils.theory_BER ppm soft = error integral', (P, M, p, vs, t))
            check(vs <= v*(1 + 1e-9) + 1e-15, 'C13 utils.theory_BER soft <= hard', (P, M, p))
            check(v <= Mm/(2*(Mm - 1)) + 1e-12, 'C13 utils.theory_BER bound')
        Ps = np.linspace(-50, 0, 26)
        if mod == 'ook':
            vv = U.theory_BER(Ps, 'ook', **tk)
        else:
            vv = U.theory_BER(Ps, 'ppm', M, ('soft', 'hard')[it % 2], **tk)
        check(np.shape(vv) == Ps.shape and np.all(np.isfinite(vv)), 'C13 utils.theory_BER vectorises/finite', (mod, M, p))
        check(np.all(np.diff(vv) <= 1e-9*vv[:-1] + 1e-15), 'C13 utils.theory_BER decreases with power', (mod, M, p, vv))
    for P in (-50, -30, -10, 0):
        v = float(U.theory_BER(P, 'ook', T=0))
        check(np.isfinite(v) and 0 <= v <= 0.5, 'C13 theory_BER noise-free OFF level (repair 6a304cd) ook', (P, v))
        v = float(U.theory_BER(P, 'ppm', 4, 'hard', T=0))
        check(np.isfinite(v) and 0 <= v <= 2/3, 'C13 theory_BER noise-free OFF level (repair 6a304cd) ppm', (P, v))
    check(raises(ValueError, U.theory_BER, -20, 'ppm', 5, 'hard'), 'C13 theory_BER M power of 2')


# ---------------------------------------------------------------- new features (skipped when absent)
def features():
    # db / dbm numpy scalars
    try:
        v = U.db(np.float32(2.0))
        has = True
    except TypeError:
        has = False
    if has:
        check(abs(float(v) - 10*np.log10(2)) < 1e-6, 'feature db(np.float32)')
        check(abs(float(U.db(np.int64(100))) - 20) < 1e-12, 'feature db(np.int64)')
        check(abs(float(U.db(np.uint8(100))) - 20) < 1e-12, 'feature db(np.uint8) double precision')
        check(abs(float(U.dbm(np.float32(1.0))) - 30) < 1e-5, 'feature dbm(np.float32)')
        check(raises(ValueError, U.db, np.float32(-1)) and raises(ValueError, U.dbm, np.int64(-1)), 'feature db negative numpy scalar')
        check(raises(TypeError, U.db, 'x') and raises(TypeError, U.dbm, None), 'feature db still rejects other kinds')
    # theory_BER validation
    if raises(ValueError, U.theory_BER, -20, 'ook', T=-1):
        check(raises(ValueError, U.theory_BER, -20, 'ook', R_L=0), 'feature theory_BER rejects R_L<=0')
        check(np.isfinite(float(U.theory_BER(-20, 'ook', T=0))), 'feature theory_BER accepts T=0')
    # str2array message
    try:
        U.str2array('1 2 x y')
    except ValueError as ex:
        if "'x'" in str(ex):
            check("'y'" in str(ex), 'feature str2array message names characters')
    # optimum_threshold relative
    if 'relative' in inspect.signature(U.optimum_threshold).parameters:
        a = U.optimum_threshold(0.2, 1.7, 0.01, 0.04, 'ppm', 8)
        b = U.optimum_threshold(0.2, 1.7, 0.01, 0.04, 'ppm', 8, relative=True)
        check(abs(b - (a - 0.2)/1.5) < 1e-14, 'feature optimum_threshold relative')
        check(abs(U.optimum_threshold(0.2, 1.7, 0.01, 0.01, 'ook', relative=True) - 0.5) < 1e-14, 'feature optimum_threshold relative midpoint')
    # shortest_int NaN
    d = np.array([np.nan, 1.0, 1.1, 5.0, np.nan, 9.0, 1.2, 20.0])
    try:
        out = U.shortest_int(d, 40)
    except (IndexError, ValueError):
        out = None
    if out is not None and not np.any(np.isnan(out)):
        ref = U.shortest_int(d[~np.isnan(d)], 40)
        check(np.array_equal(out, ref) and out[1] - out[0] == 1.2 - 1.0, 'feature shortest_int ignores NaN', tuple(out))
        check(raises(ValueError, U.shortest_int, np.array([np.nan, np.nan]), 50), 'feature shortest_int all-NaN raises ValueError')


if __name__ == '__main__':
    for f in (c19_units, c19_dec2bin, c19_str2array, c19_si, c18_shortest_int, c18_adc,
              c13_closed_forms, c13_optimum_threshold, c13_receiver_model, features):
        try:
            f()
        except Exception as ex:
            import traceback
            FAILS.append(f'{f.__name__} raised {type(ex).__name__}: {ex}\n{traceback.format_exc()}')
    if FAILS:
        print('FAIL')
        for m in FAILS[:40]:
            print(' -', m)
        sys.exit(1)
    print('PASS')
    sys.exit(0)
