"""Checks of the semantic contract C01, C02, C14 and C15 of opticomlib.typing on sampled inputs.

Prints PASS and exits 0 when every clause holds, prints the failing clause and exits 1 otherwise.
The package under test is the `opticomlib` found through PYTHONPATH.
"""
import sys, os

_here = os.path.dirname(os.path.abspath(__file__))
if sys.path and os.path.abspath(sys.path[0] or os.getcwd()) == _here:
    del sys.path[0]  # PYTHONPATH decides which opticomlib is imported

import inspect
import itertools
import warnings

import numpy as np
from numpy.fft import fft, ifft, fftfreq, fftshift, ifftshift
from scipy.constants import c, pi

warnings.simplefilter('ignore')

import opticomlib
from opticomlib.typing import gv, binary_sequence, electrical_signal, optical_signal


class ContractViolation(Exception):
    pass


def check(cond, clause, detail=''):
    if not cond:
        raise ContractViolation(f'{clause}: {detail}')


def raises(fn, excs):
    try:
        fn()
    except excs:
        return True
    except Exception:
        return False
    return False


def has_param(fn, name):
    try:
        return name in inspect.signature(fn).parameters
    except (TypeError, ValueError):
        return False


NEW = {
    'norm': has_param(electrical_signal.__call__, 'norm'),
    'strict': has_param(electrical_signal.__init__, 'strict'),
    'w_unit': has_param(electrical_signal.w, 'unit'),
    'power_unit': has_param(electrical_signal.power, 'unit'),
    'normalize': has_param(binary_sequence.ones, 'normalize'),
    'result_helper': hasattr(electrical_signal, '_result'),
    'array_ufunc': getattr(binary_sequence, '__array_ufunc__', 0) is None,
    'gv_atomic': hasattr(type(gv), '_update_grid'),
}

LENGTHS = [1, 2, 3, 5, 8, 13, 16, 17, 64, 101, 128, 1000]
DTYPES = [int, float, complex]


# ----------------------------------------------------------------------------------------------------
# helpers: models of the signal containers
# ----------------------------------------------------------------------------------------------------
def rand_values(rng, shape, dtype, lo=-4, hi=5, avoid_binary=False):
    if dtype is int:
        v = rng.integers(lo, hi, size=shape)
        if avoid_binary:
            v = np.where((v == 0) | (v == 1), 2, v)
        return v.astype(int)
    if dtype is float:
        return np.round(rng.uniform(lo, hi, size=shape), 3) + 0.0625
    return (np.round(rng.uniform(lo, hi, size=shape), 3) + 0.0625) + 1j*(np.round(rng.uniform(lo, hi, size=shape), 3) + 0.125)


def arrays_of(x):
    return [a for a in (x.signal, x.noise) if a is not None]


def assert_valid(x, cls, n_pol, n, clause):
    check(type(x) is cls, clause, f'class {type(x).__name__} instead of {cls.__name__}')
    check(isinstance(x.signal, np.ndarray), clause, 'signal is not an ndarray')
    if cls is optical_signal:
        check(x.n_pol == n_pol, clause, f'n_pol {x.n_pol} instead of {n_pol}')
    shape = (n,) if n_pol == 1 else (2, n)
    check(n >= 1 and x.signal.shape == shape, clause, f'signal shape {x.signal.shape} instead of {shape}')
    check(x.len() == n and len(x) == n, clause, f'len {x.len()} instead of {n}')
    if x.noise is not None:
        check(isinstance(x.noise, np.ndarray) and x.noise.shape == shape, clause, f'noise shape {getattr(x.noise, "shape", None)} != {shape}')
    check(x.signal.dtype.kind in 'biufc', clause, f'non numeric dtype {x.signal.dtype}')


def no_alias(x, others, clause):
    for a in arrays_of(x):
        for o in others:
            arrs = arrays_of(o) if hasattr(o, 'signal') else ([o] if isinstance(o, np.ndarray) else [])
            for b in arrs:
                check(not np.shares_memory(a, b), clause, 'result shares memory with an operand')


class Frozen:
    """Snapshot of an operand to verify it is left bit-for-bit unchanged."""
    def __init__(self, obj):
        self.obj = obj
        if hasattr(obj, 'signal'):
            self.snap = (obj.signal.copy(), None if obj.noise is None else obj.noise.copy(), obj.signal.dtype, obj.signal.shape)
        elif isinstance(obj, np.ndarray):
            self.snap = (obj.copy(), obj.dtype, obj.shape)
        elif isinstance(obj, (list, tuple)):
            self.snap = type(obj)(obj)
        else:
            self.snap = obj

    def verify(self, clause):
        obj = self.obj
        if hasattr(obj, 'signal'):
            s, n, dt, sh = self.snap
            ok = obj.signal.dtype == dt and obj.signal.shape == sh and np.array_equal(obj.signal, s, equal_nan=True)
            ok = ok and ((n is None) == (obj.noise is None))
            if ok and n is not None:
                ok = obj.noise.shape == n.shape and obj.noise.dtype == n.dtype and np.array_equal(obj.noise, n, equal_nan=True)
            check(ok, clause, 'an operand object was modified')
        elif isinstance(obj, np.ndarray):
            s, dt, sh = self.snap
            check(obj.dtype == dt and obj.shape == sh and np.array_equal(obj, s), clause, 'an ndarray operand was modified')
        else:
            check(obj == self.snap and type(obj) is type(self.snap), clause, 'an operand was modified')


def close(a, b, rtol=1e-9):
    a = np.asarray(a); b = np.asarray(b)
    if a.shape != b.shape:
        return False
    scale = max(1.0, float(np.max(np.abs(b))) if b.size else 1.0)
    return np.allclose(a, b, rtol=rtol, atol=rtol*scale)


def total(sig, noi):
    return sig if noi is None else sig + noi


def make(rng, cls, n_pol, n, dtype, noise, **kw):
    shape = (n,) if n_pol == 1 else (2, n)
    s = rand_values(rng, shape, dtype, **kw)
    nz = rand_values(rng, shape, dtype, **kw) if noise else None
    if cls is electrical_signal:
        x = cls(s) if nz is None else cls(s, nz)
    else:
        x = cls(s, n_pol=n_pol) if nz is None else cls(s, nz, n_pol=n_pol)
    return x, (s, nz)


def fmt(v):
    v = complex(v)
    if v.imag == 0:
        return repr(v.real)
    return f'{v.real!r}{v.imag:+}j'


def to_str(values):
    return ', '.join(fmt(v) for v in np.asarray(values).ravel())


# model of the noise component of the result of `a op b` (None = operand without noise)
def model_noise(op, na, nb):
    if na is None and nb is None:
        return None
    if op == '+':
        return nb if na is None else na if nb is None else na + nb
    if op == '-':
        return -nb if na is None else na if nb is None else na - nb
    if op == 'r-':  # b - a
        return nb if na is None else -na if nb is None else -na + nb
    if op == '*':
        return nb if na is None else na if nb is None else na*nb
    raise AssertionError(op)


def model_signal(op, sa, sb):
    return {'+': lambda: sa + sb, '-': lambda: sa - sb, 'r-': lambda: -sa + sb, '*': lambda: sa*sb}[op]()


def apply(op, a, b):
    return {'+': lambda: a + b, '-': lambda: a - b, 'r-': lambda: b - a, '*': lambda: a*b, 'r+': lambda: b + a, 'r*': lambda: b*a}[op]()


# ----------------------------------------------------------------------------------------------------
# C01
# ----------------------------------------------------------------------------------------------------
def check_C01_constructors(rng):
    cl = 'C01 constructor forms'
    for n, dtype, with_noise in itertools.product([1, 2, 3, 7, 16, 101], DTYPES, [False, True]):
        s = rand_values(rng, (n,), dtype, avoid_binary=True)
        nz = rand_values(rng, (n,), dtype, avoid_binary=True) if with_noise else None
        forms = {
            'ndarray': lambda v: v,
            'list': lambda v: v.tolist(),
            'tuple': lambda v: tuple(v.tolist()),
            'str': lambda v: to_str(v),
        }
        for name, form in forms.items():
            # electrical_signal
            sin = form(s); nin = None if nz is None else form(nz)
            fr = [Frozen(sin), Frozen(nin)]
            x = electrical_signal(sin) if nin is None else electrical_signal(sin, nin)
            assert_valid(x, electrical_signal, 1, n, cl)
            check(close(x.signal, s), cl, f'electrical_signal({name}) signal values')
            check((x.noise is None) == (nz is None), cl, 'noise presence')
            if nz is not None:
                check(close(x.noise, nz), cl, f'electrical_signal({name}) noise values')
            no_alias(x, [sin, nin], cl)
            for f in fr: f.verify(cl)

            # optical_signal one polarisation (default and explicit)
            for kw in ({}, {'n_pol': 1}):
                o = optical_signal(sin, **kw) if nin is None else optical_signal(sin, nin, **kw)
                assert_valid(o, optical_signal, 1, n, cl)
                check(close(o.signal, s) and (nz is None or close(o.noise, nz)), cl, f'optical_signal({name}) 1 pol values')
                no_alias(o, [sin, nin], cl)
            # 1D input duplicated in two polarisations
            o = optical_signal(sin, n_pol=2) if nin is None else optical_signal(sin, nin, n_pol=2)
            assert_valid(o, optical_signal, 2, n, cl)
            check(close(o.signal, np.array([s, s])) and (nz is None or close(o.noise, np.array([nz, nz]))), cl, f'optical_signal({name}, n_pol=2) values')
            no_alias(o, [sin, nin], cl)
            for f in fr: f.verify(cl)

        # two rows
        s2 = rand_values(rng, (2, n), dtype, avoid_binary=True)
        n2 = rand_values(rng, (2, n), dtype, avoid_binary=True) if with_noise else None
        forms2 = {
            'ndarray': lambda v: v,
            'list': lambda v: v.tolist(),
            'tuple': lambda v: tuple(tuple(r) for r in v.tolist()),
            'str': lambda v: '; '.join(to_str(r) for r in v),
        }
        for name, form in forms2.items():
            sin = form(s2); nin = None if n2 is None else form(n2)
            fr = [Frozen(sin), Frozen(nin)]
            for kw in ({}, {'n_pol': 2}):
                o = optical_signal(sin, **kw) if nin is None else optical_signal(sin, nin, **kw)
                assert_valid(o, optical_signal, 2, n, cl)
                check(close(o.signal, s2) and (n2 is None or close(o.noise, n2)), cl, f'optical_signal 2 rows ({name}) values')
                no_alias(o, [sin, nin], cl)
            o = optical_signal(sin, n_pol=1) if nin is None else optical_signal(sin, nin, n_pol=1)
            assert_valid(o, optical_signal, 1, n, cl)
            check(close(o.signal, s2[0]), cl, 'optical_signal 2 rows, n_pol=1 keeps the first row')
            no_alias(o, [sin, nin], cl)
            for f in fr: f.verify(cl)
        # one row 2D
        row = s2[:1]
        o = optical_signal(row)
        assert_valid(o, optical_signal, 2, n, cl)
        check(close(o.signal, np.array([s2[0], s2[0]])), cl, 'optical_signal single row 2D input')
        o = optical_signal(row, n_pol=1)
        assert_valid(o, optical_signal, 1, n, cl)

    # scalars
    for v in (3, -2.5, 1.5 - 2j, np.float64(2.25), np.int64(4)):
        x = electrical_signal(v)
        assert_valid(x, electrical_signal, 1, 1, cl)
        check(x.signal[0] == v and x.noise is None, cl, 'scalar electrical_signal')
        x = electrical_signal(v, 2*v)
        assert_valid(x, electrical_signal, 1, 1, cl)
        check(x.noise[0] == 2*v, cl, 'scalar electrical_signal with noise')
        o = optical_signal(v)
        assert_valid(o, optical_signal, 1, 1, cl)
        o = optical_signal(v, n_pol=2)
        assert_valid(o, optical_signal, 2, 1, cl)
        check(np.all(o.signal == v), cl, 'scalar optical_signal two polarisations')
        o = optical_signal(v, v, n_pol=2)
        assert_valid(o, optical_signal, 2, 1, cl)

    # dtype argument
    x = electrical_signal([1, 2, 3], dtype=complex)
    check(x.signal.dtype == complex and close(x.signal, [1, 2, 3]), cl, 'dtype argument')
    x = electrical_signal([1, 2, 3], [0.5, 0.5, 0.5])
    check(x.signal.dtype == x.noise.dtype == float, cl, 'common type of signal and noise')

    # rejected shapes
    cl = 'C01 shape contract (non-empty 1-D / two equal rows / noise of the same shape)'
    bad = [
        lambda: electrical_signal([]), lambda: electrical_signal([[1, 2, 3]]), lambda: electrical_signal([[1, 2], [3, 4]]),
        lambda: electrical_signal([1, 2, 3], [1, 2]), lambda: electrical_signal([1, 2], [1, 2, 3]), lambda: electrical_signal(np.zeros((0,))),
        lambda: optical_signal([]), lambda: optical_signal([[1, 2, 3], [4, 5, 6], [7, 8, 9]]), lambda: optical_signal([[[1, 2, 3]]]),
        lambda: optical_signal([1, 2, 3], [1, 2]), lambda: optical_signal([[1, 2], [3, 4]], [1, 2]), lambda: optical_signal(np.zeros((2, 0))),
    ]
    for i, b in enumerate(bad):
        check(raises(b, ValueError), cl, f'invalid construction #{i} not rejected with ValueError')


def operand_kinds(rng, cls, n_pol, n, dtype):
    """Yield (name, operand, model (signal, noise), allowed on the left?)."""
    shape = (n,)
    v = rand_values(rng, shape, dtype, avoid_binary=True)
    yield 'list', v.tolist(), (v, None), True
    v = rand_values(rng, shape, dtype, avoid_binary=True)
    yield 'tuple', tuple(v.tolist()), (v, None), True
    v = rand_values(rng, shape, dtype, avoid_binary=True)
    yield 'str', to_str(v), (v, None), True
    v = rand_values(rng, shape, dtype, avoid_binary=True)
    yield 'ndarray', v, (v, None), False
    for sc in (3, -2, 2.5, -0.75, 1.5 - 2j):
        yield f'scalar {type(sc).__name__}', sc, (np.array([sc]), None), True
    for sc in (np.int64(3), np.float64(-1.25), np.complex128(2 + 1j), np.float32(0.5)):
        yield f'numpy scalar {type(sc).__name__}', sc, (np.array([sc]), None), False
    v = rand_values(rng, (1,), dtype, avoid_binary=True)
    yield 'length-1 list', v.tolist(), (v, None), True
    yield 'length-1 str', to_str(v), (v, None), True
    yield 'length-1 ndarray', v, (v, None), False
    o, m = make(rng, cls, 1, 1, dtype, False, avoid_binary=True)
    yield 'length-1 object', o, m, False


def check_result(res, cls, n_pol, n, op, ma, mb, operands, clause):
    assert_valid(res, cls, n_pol, n, clause)
    sa, na = ma; sb, nb = mb
    exp_s = model_signal(op, sa, sb)
    exp_n = model_noise(op, na, nb)
    exp_s = np.broadcast_to(exp_s, res.signal.shape)
    check((res.noise is None) == (exp_n is None), clause, f'noise presence for {op}: result has noise={res.noise is not None}')
    if exp_n is not None:
        exp_n = np.broadcast_to(exp_n, res.signal.shape)
    if op in ('+', '-', 'r-'):
        ta, tb = total(sa, na), total(sb, nb)
        exp_t = {'+': ta + tb, '-': ta - tb, 'r-': tb - ta}[op]
        check(close(total(res.signal, res.noise), np.broadcast_to(exp_t, res.signal.shape)), clause, f'total field of {op}')
    check(close(res.signal, exp_s), clause, f'signal of {op} against the array-pair model')
    if exp_n is not None:
        check(close(res.noise, exp_n), clause, f'noise of {op} against the array-pair model')
    no_alias(res, operands, clause)


def check_C01_arithmetic(rng):
    for cls, n_pol in ((electrical_signal, 1), (optical_signal, 1), (optical_signal, 2)):
        for n, dtype in itertools.product([1, 2, 3, 7, 101, 1024], DTYPES):
            for noise_a, noise_b in itertools.product([False, True], repeat=2):
                cl = f'C01 arithmetic ({cls.__name__}, {n_pol} pol, n={n}, {dtype.__name__}, noise {noise_a}/{noise_b})'
                a, ma = make(rng, cls, n_pol, n, dtype, noise_a, avoid_binary=True)
                b, mb = make(rng, cls, n_pol, n, dtype2 := DTYPES[rng.integers(3)], noise_b, avoid_binary=True)
                fa, fb = Frozen(a), Frozen(b)
                for op in ('+', '-', '*'):
                    res = apply(op, a, b)
                    check_result(res, cls, n_pol, n, op, ma, mb, [a, b], cl)
                res = a + a
                check_result(res, cls, n_pol, n, '+', ma, ma, [a], cl + ' a+a')
                res = a - a
                check_result(res, cls, n_pol, n, '-', ma, ma, [a], cl + ' a-a')
                fa.verify(cl); fb.verify(cl)

            for noise_a in (False, True):
                a, ma = make(rng, cls, n_pol, n, dtype, noise_a, avoid_binary=True)
                fa = Frozen(a)
                for name, other, mo, left_ok in operand_kinds(rng, cls, n_pol, n, dtype):
                    cl = f'C01 arithmetic with {name} ({cls.__name__}, {n_pol} pol, n={n}, {dtype.__name__}, noise={noise_a})'
                    fo = Frozen(other)
                    for op in ('+', '-', '*'):
                        res = apply(op, a, other)
                        check_result(res, cls, n_pol, n, op, ma, mo, [a, other], cl + f' [a {op} other]')
                    if left_ok:
                        res = apply('r+', a, other)
                        check_result(res, cls, n_pol, n, '+', ma, mo, [a, other], cl + ' [other + a]')
                        res = apply('r-', a, other)
                        check_result(res, cls, n_pol, n, 'r-', ma, mo, [a, other], cl + ' [other - a]')
                        res = apply('r*', a, other)
                        check_result(res, cls, n_pol, n, '*', ma, mo, [a, other], cl + ' [other * a]')
                    fo.verify(cl); fa.verify(cl)

            # operands of different lengths are rejected with ValueError
            if n > 1:
                a, _ = make(rng, cls, n_pol, n, dtype, True, avoid_binary=True)
                for m in {n + 1, max(2, n - 1), 2*n} - {n}:
                    b, _ = make(rng, cls, n_pol, m, dtype, bool(m % 2), avoid_binary=True)
                    cl = f'C01 different lengths rejected with ValueError ({cls.__name__}, {n_pol} pol, {n} vs {m})'
                    v = rand_values(rng, (m,), dtype, avoid_binary=True)
                    for other in (b, v, v.tolist(), tuple(v.tolist()), to_str(v)):
                        for op in ('+', '-', '*'):
                            check(raises(lambda: apply(op, a, other), ValueError), cl, f'a {op} {type(other).__name__}')
                    for other in (b, v.tolist(), tuple(v.tolist()), to_str(v)):
                        for op in ('r+', 'r-', 'r*'):
                            check(raises(lambda: apply(op, a, other), ValueError), cl, f'{type(other).__name__} {op} a')


SLICES = [slice(None), slice(1, None), slice(None, -1), slice(None, None, 2), slice(1, None, 3), slice(None, None, -1), slice(-3, None),
          slice(2, 5), slice(0, 1), slice(None, 1000), slice(-1000, None), slice(None, None, -2), slice(-1, None)]


def check_C01_slicing(rng):
    for cls, n_pol in ((electrical_signal, 1), (optical_signal, 1), (optical_signal, 2)):
        for n, dtype, noise in itertools.product([1, 2, 3, 7, 16, 101], DTYPES, [False, True]):
            cl = f'C01 slicing ({cls.__name__}, {n_pol} pol, n={n}, {dtype.__name__}, noise={noise})'
            x, (s, nz) = make(rng, cls, n_pol, n, dtype, noise)
            fx = Frozen(x)
            keys = list(SLICES) + [0, -1, n - 1, -n, n//2]
            for key in keys:
                k = key if isinstance(key, slice) else slice(key, key + 1 if key != -1 else None)
                exp_s = s[..., k]
                if exp_s.shape[-1] == 0:
                    continue
                y = x[key]
                assert_valid(y, cls, n_pol, exp_s.shape[-1], cl + f' key={key}')
                check(np.array_equal(y.signal, exp_s), cl, f'selected signal samples key={key}')
                check((y.noise is None) == (nz is None), cl, 'noise presence')
                if nz is not None:
                    check(np.array_equal(y.noise, nz[..., k]), cl, f'selected noise samples key={key}')
                no_alias(y, [x], cl)
            for key in (n, -n - 1, n + 5):
                check(raises(lambda: x[key], IndexError), cl, f'index {key} out of range must raise IndexError')
            # copy
            y = x.copy()
            assert_valid(y, cls, n_pol, n, cl + ' copy()')
            check(y is not x and np.array_equal(y.signal, s) and ((nz is None and y.noise is None) or np.array_equal(y.noise, nz)), cl, 'copy() values')
            no_alias(y, [x], cl + ' copy()')
            if n > 2:
                y = x.copy(n - 2)
                assert_valid(y, cls, n_pol, n - 2, cl + ' copy(n)')
                check(np.array_equal(y.signal, s[..., :n - 2]), cl, 'copy(n) values')
                no_alias(y, [x], cl + ' copy(n)')
            # domain transforms
            for d in ('w', 'f', 't'):
                for sh in (False, True):
                    y = x(d, shift=sh) if sh else x(d)
                    assert_valid(y, cls, n_pol, n, cl + f" x('{d}')")
                    check((y.noise is None) == (nz is None), cl, 'noise presence after transform')
                    no_alias(y, [x], cl + ' transform')
            fx.verify(cl)


def gen_tree(rng, cls, n_pol, L, depth, dtype, leaves):
    """Random expression of depth <= `depth` whose value has length L; returns (object, (signal, noise))."""
    choice = rng.integers(0, 7) if depth > 0 else 0
    if choice == 0:
        noise = bool(rng.integers(2))
        dt = dtype if dtype is not int else int
        x, m = make(rng, cls, n_pol, L, dt, noise, lo=-2, hi=3)
        leaves.append(Frozen(x))
        return x, m
    if choice in (1, 2, 3):
        op = ('+', '-', '*')[choice - 1]
        a, ma = gen_tree(rng, cls, n_pol, L, depth - 1, dtype, leaves)
        kind = rng.integers(0, 4)
        if kind == 0:
            b, mb = gen_tree(rng, cls, n_pol, L, min(depth - 1, 2), dtype, leaves)
        elif kind == 1:
            sc = [2, -1, 0.5, 1 - 1j, 3][rng.integers(5)]
            b, mb = sc, (np.array([sc]), None)
        elif kind == 2:
            v = rand_values(rng, (L,), dtype, lo=-2, hi=3, avoid_binary=True)
            b = [v.tolist(), tuple(v.tolist()), to_str(v), v][rng.integers(4)]
            mb = (v, None)
        else:
            b, mb = gen_tree(rng, cls, n_pol, L, 0, dtype, leaves)
        reflected = (not isinstance(b, (np.ndarray, np.generic))) and bool(rng.integers(2))
        if reflected and not hasattr(b, 'signal'):
            res = {'+': lambda: b + a, '-': lambda: b - a, '*': lambda: b*a}[op]()
            mop = {'+': '+', '-': 'r-', '*': '*'}[op]
            return res, (np.broadcast_to(model_signal(mop, ma[0], mb[0]), ma[0].shape), model_noise(mop, ma[1], mb[1]))
        res = apply(op, a, b)
        sig = model_signal(op, ma[0], mb[0])
        noi = model_noise(op, ma[1], mb[1])
        return res, (sig, noi)
    if choice in (4, 5):
        form = rng.integers(0, 4)
        if form == 0:
            k = int(rng.integers(1, 4)); L2 = L + k; key = slice(k, None)
        elif form == 1:
            k = int(rng.integers(1, 4)); L2 = L + k; key = slice(None, -k)
        elif form == 2:
            L2 = 2*L - int(rng.integers(2)); key = slice(None, None, 2)
            if L2 < 1: L2 = 1
        else:
            L2 = L; key = slice(None, None, -1)
        a, ma = gen_tree(rng, cls, n_pol, L2, depth - 1, dtype, leaves)
        if L == 1 and rng.integers(2) and form == 0:
            key = -1
            return a[key], (ma[0][..., -1:], None if ma[1] is None else ma[1][..., -1:])
        return a[key], (ma[0][..., key], None if ma[1] is None else ma[1][..., key])
    a, ma = gen_tree(rng, cls, n_pol, L, depth - 1, dtype, leaves)
    return a.copy(), ma


def check_C01_trees(rng):
    count = 0
    for cls, n_pol in ((electrical_signal, 1), (optical_signal, 1), (optical_signal, 2)):
        for trial in range(250):
            L = int([1, 2, 3, 5, 11, 32][rng.integers(6)])
            dtype = DTYPES[rng.integers(3)]
            depth = int(rng.integers(1, 7))
            leaves = []
            cl = f'C01 expression tree ({cls.__name__}, {n_pol} pol, L={L}, depth<={depth}, trial {trial})'
            res, (ms, mn) = gen_tree(rng, cls, n_pol, L, depth, dtype, leaves)
            assert_valid(res, cls, n_pol, L, cl)
            shape = res.signal.shape
            check(close(res.signal, np.broadcast_to(ms, shape), rtol=1e-8), cl, 'signal differs from the array-pair model')
            check((res.noise is None) == (mn is None), cl, 'noise presence differs from the model')
            if mn is not None:
                check(close(res.noise, np.broadcast_to(mn, shape), rtol=1e-8), cl, 'noise differs from the array-pair model')
            for f in leaves:
                f.verify(cl)
                no_alias(res, [f.obj] if f.obj is not res else [], cl)
            count += 1
    return count


# ----------------------------------------------------------------------------------------------------
# C02
# ----------------------------------------------------------------------------------------------------
GV_CONFIGS = [dict(sps=16, R=1e9), dict(sps=8, R=10e9), dict(sps=4, fs=40e9), dict(R=2.5e9, fs=80e9), dict(sps=64, R=1e9, N=8), dict(sps=3, R=1e6), dict(sps=1, R=1e9)]


def check_C02(rng):
    for cfg in GV_CONFIGS:
        gv.clean()
        gv(**cfg)
        fs = gv.fs
        for cls, n_pol in ((electrical_signal, 1), (optical_signal, 1), (optical_signal, 2)):
            for n, dtype, noise in itertools.product(LENGTHS, [float, complex], [False, True]):
                cl = f'C02 transforms ({cls.__name__}, {n_pol} pol, n={n}, {dtype.__name__}, noise={noise}, gv={cfg})'
                x, (s, nz) = make(rng, cls, n_pol, n, dtype, noise)
                fx = Frozen(x)
                X = x('w')
                check(close(X.signal, fft(s, axis=-1), 1e-12), cl, "x('w') is the row-wise DFT of the signal")
                check(close(x('f').signal, fft(s, axis=-1), 1e-12), cl, "x('f') is the row-wise DFT of the signal")
                if noise:
                    check(close(X.noise, fft(nz, axis=-1), 1e-12), cl, "x('w') is the row-wise DFT of the noise")
                xt = x('t')
                check(close(xt.signal, ifft(s, axis=-1), 1e-12), cl, "x('t') is the row-wise inverse DFT of the signal")
                if noise:
                    check(close(xt.noise, ifft(nz, axis=-1), 1e-12), cl, "x('t') is the row-wise inverse DFT of the noise")
                # mutual inverses
                back = X('t')
                check(close(back.signal, s, 1e-10) and (not noise or close(back.noise, nz, 1e-10)), cl, "x('w')('t') reproduces x")
                back = xt('w')
                check(close(back.signal, s, 1e-10) and (not noise or close(back.noise, nz, 1e-10)), cl, "x('t')('w') reproduces x")
                # Parseval per polarisation
                lhs = np.sum(np.abs(X.signal)**2, axis=-1); rhs = n*np.sum(np.abs(s)**2, axis=-1)
                check(np.allclose(lhs, rhs, rtol=1e-10), cl, 'Parseval sum|X|^2 = N sum|x|^2')
                # shift only reorders
                Xs = x('w', shift=True)
                check(close(ifftshift(Xs.signal, axes=-1), fft(s, axis=-1), 1e-12), cl, 'ifftshift recovers the unshifted forward transform')
                check(np.array_equal(Xs.signal, fftshift(X.signal, axes=-1)), cl, 'shift=True is fftshift of the forward transform')
                xs = x('t', shift=True)
                check(close(fftshift(xs.signal, axes=-1), ifft(s, axis=-1), 1e-12), cl, 'fftshift recovers the unshifted inverse transform')
                check(np.array_equal(xs.signal, ifftshift(xt.signal, axes=-1)), cl, 'shift=True is ifftshift of the inverse transform')
                if noise:
                    check(np.array_equal(Xs.noise, fftshift(X.noise, axes=-1)) and np.array_equal(xs.noise, ifftshift(xt.noise, axes=-1)), cl, 'shift of the noise')
                check((Xs.noise is None) == (not noise), cl, 'noise presence')
                # w axis
                w = 2*pi*fftfreq(n)*fs
                check(np.allclose(x.w(), w, rtol=1e-14, atol=0) and x.w().shape == (n,), cl, 'w() = 2 pi fftfreq(len) fs')
                check(np.allclose(x.w(shift=True), fftshift(w), rtol=1e-14, atol=0), cl, 'w(shift=True) = fftshift(w())')
                check(np.allclose(x.w(False), w, rtol=1e-14, atol=0) and np.allclose(x.w(True), fftshift(w), rtol=1e-14, atol=0), cl, 'w positional shift')
                # power
                p = np.mean(np.abs(total(s, nz))**2, axis=-1)
                check(np.allclose(x.power(), p, rtol=1e-12) and np.shape(x.power()) == np.shape(p), cl, 'power() = mean |signal+noise|^2 per polarisation')
                check(np.allclose(x.power('all'), p, rtol=1e-12), cl, "power('all')")
                check(np.allclose(x.abs(), np.abs(total(s, nz)), rtol=1e-14), cl, 'abs()')
                fx.verify(cl)
        # the axis follows the sampling rate currently configured
        x = electrical_signal(np.arange(10.0))
        w1 = x.w()
        gv(sps=gv.sps, R=gv.R*2)
        check(np.allclose(x.w(), 2*w1, rtol=1e-14), 'C02 w() uses the sampling rate currently configured in gv', str(cfg))
    gv.clean()


# ----------------------------------------------------------------------------------------------------
# C14
# ----------------------------------------------------------------------------------------------------
GRID = ('sps', 'R', 'fs', 'dt', 'wavelength', 'f0', 'N', 't', 'dw', 'w')


def assert_grid(clause, custom):
    check(isinstance(gv.sps, (int, np.integer)) and not isinstance(gv.sps, bool) and gv.sps >= 1, clause, f'sps must be a positive integer, is {gv.sps!r}')
    check(np.isclose(gv.fs, gv.R*gv.sps, rtol=1e-12, atol=0), clause, f'fs = R*sps ({gv.fs} vs {gv.R}*{gv.sps})')
    check(np.isclose(gv.dt, 1/gv.fs, rtol=1e-15, atol=0), clause, 'dt = 1/fs')
    check(np.isclose(gv.f0, c/gv.wavelength, rtol=1e-15, atol=0), clause, 'f0 = c/wavelength')
    if gv.N is not None:
        n = gv.N*gv.sps
        check(gv.t is not None and gv.w is not None and gv.dw is not None, clause, 't, w, dw defined when N is in effect')
        check(len(gv.t) == n and len(gv.w) == n, clause, f't and w must have N*sps = {n} points, have {len(gv.t)} and {len(gv.w)}')
        check(np.isclose(gv.dw, 2*pi*gv.fs/n, rtol=1e-14, atol=0), clause, 'dw = 2 pi fs/(N sps)')
        check(np.allclose(gv.w, 2*pi*fftshift(fftfreq(n))*gv.fs, rtol=1e-12, atol=0), clause, 'w on the current fs')
        check(gv.t[0] == 0 and (n == 1 or np.all(np.diff(gv.t) > 0)) and np.isclose(gv.t[-1], n*gv.dt if n > 1 else 0, rtol=1e-12), clause, 't on the current fs')
        check(np.allclose(gv.t, np.linspace(0, n*gv.dt, n, endpoint=True), rtol=1e-12), clause, 't on the current fs')
    else:
        check(gv.t is None and gv.w is None and gv.dw is None, clause, 't, w, dw undefined without N')
    for key, value in custom.items():
        check(hasattr(gv, key) and getattr(gv, key) == value, clause, f'custom attribute {key} must persist until clean()')


def assert_defaults(clause, removed):
    check(gv.sps == 16 and gv.R == 1e9 and gv.fs == 16e9 and gv.dt == 1/16e9, clause, 'clean() restores sps, R, fs, dt')
    check(gv.wavelength == 1550e-9 and gv.f0 == c/1550e-9, clause, 'clean() restores wavelength, f0')
    check(gv.N is None and gv.t is None and gv.dw is None and gv.w is None, clause, 'clean() restores N, t, dw, w')
    for key in removed:
        check(not hasattr(gv, key), clause, f'clean() must remove custom attribute {key}')


def check_C14_gv(rng):
    gv.clean()
    assert_defaults('C14 clean()', [])
    for trial in range(300):
        gv.clean()
        custom = {}
        exp = dict(sps=16, R=1e9, fs=16e9, N=None)
        for step in range(int(rng.integers(1, 9))):
            cl = f'C14 gv history (trial {trial}, step {step})'
            if rng.random() < 0.15:
                gv.clean()
                assert_defaults(cl, list(custom))
                custom = {}
                exp = dict(sps=16, R=1e9, fs=16e9, N=None)
                assert_grid(cl, custom)
                continue
            kw = {}
            mode = rng.integers(0, 7)
            sps = int([1, 2, 3, 4, 8, 16, 32, 50, 64][rng.integers(9)])
            R = float([1e6, 1e9, 2.5e9, 10e9, 40e9, 1.25e9][rng.integers(6)])
            if mode == 0:
                kw.update(sps=sps, R=R); exp.update(sps=sps, R=R, fs=R*sps)
            elif mode == 1:
                fs = R*sps; kw.update(sps=sps, fs=fs); exp.update(sps=sps, fs=fs, R=fs/sps)
            elif mode == 2:
                fs = R*sps; kw.update(R=R, fs=fs); exp.update(sps=sps, fs=fs, R=R)
            elif mode == 3:
                kw.update(sps=sps); exp.update(sps=sps, fs=exp['R']*sps)
            elif mode == 4:
                kw.update(R=R); exp.update(R=R, fs=R*exp['sps'])
            elif mode == 5:
                fs = exp['R']*sps; kw.update(fs=fs); exp.update(fs=fs, sps=sps)
            wl = None
            if rng.random() < 0.4:
                wl = float([1550e-9, 1310e-9, 1549.32e-9, 850e-9][rng.integers(4)])
                kw['wavelength'] = wl
            if rng.random() < 0.5:
                N = int([1, 2, 5, 10, 16, 33, 128][rng.integers(7)])
                kw['N'] = N; exp['N'] = N
            if rng.random() < 0.5:
                for key in rng.choice(['alpha', 'beta', 'Vpi', 'G', 'NF', 'BW', 'my_list'], size=int(rng.integers(1, 3)), replace=False):
                    val = [0.5, 3, 'text', (1, 2), 20.0][rng.integers(5)]
                    kw[str(key)] = val; custom[str(key)] = val
            ret = gv(**kw)
            check(ret is gv, cl, 'gv(...) returns gv')
            check(gv.sps == exp['sps'] and np.isclose(gv.R, exp['R'], rtol=1e-12) and np.isclose(gv.fs, exp['fs'], rtol=1e-12), cl,
                  f'values in force after gv({kw}): sps={gv.sps}, R={gv.R}, fs={gv.fs}, expected {exp}')
            check(gv.N == exp['N'], cl, f'N in force {gv.N} instead of {exp["N"]}')
            if wl is not None:
                check(gv.wavelength == wl, cl, 'wavelength passed is in force')
            assert_grid(cl, custom)
        gv.clean()
        assert_defaults('C14 clean() at the end of a history', list(custom))
    # callable / odd custom values also persist
    gv.clean()
    gv(sps=8, R=1e9, N=4, note='abc')
    gv(sps=4, R=2e9)
    check(gv.note == 'abc' and gv.N == 4 and len(gv.t) == 16, 'C14 later calls omitting N', 'grid must follow the new sps with the N in effect')
    assert_grid('C14 later calls omitting N', {'note': 'abc'})
    gv.clean()
    assert_defaults('C14 clean()', ['note'])


def gv_snapshot():
    snap = {}
    for k, v in vars(gv).items():
        snap[k] = v.copy() if isinstance(v, np.ndarray) else v
    return snap


def gv_same(a, b):
    if a.keys() != b.keys():
        return False
    for k in a:
        if isinstance(a[k], np.ndarray) or isinstance(b[k], np.ndarray):
            if not (isinstance(a[k], np.ndarray) and isinstance(b[k], np.ndarray) and np.array_equal(a[k], b[k])):
                return False
        elif a[k] != b[k] or type(a[k]) is not type(b[k]):
            return False
    return True


def same_output(a, b):
    if isinstance(a, binary_sequence):
        return isinstance(b, binary_sequence) and np.array_equal(a.data, b.data)
    if hasattr(a, 'signal'):
        if type(a) is not type(b) or not np.array_equal(a.signal, b.signal, equal_nan=True):
            return False
        if (a.noise is None) != (b.noise is None):
            return False
        return a.noise is None or np.array_equal(a.noise, b.noise, equal_nan=True)
    if isinstance(a, np.ndarray):
        return isinstance(b, np.ndarray) and np.array_equal(a, b, equal_nan=True)
    return a == b


def out_arrays(o):
    if isinstance(o, binary_sequence):
        return [o.data]
    if hasattr(o, 'signal'):
        return arrays_of(o)
    if isinstance(o, np.ndarray):
        return [o]
    return []


def check_C14_purity(rng):
    from opticomlib.devices import PRBS, DAC, LPF, PD, EDFA, MZM, ADC, SAMPLER, DM, BPF
    from opticomlib.ppm import PPM_ENCODER, PPM_DECODER, HDD
    gv.clean()
    gv(sps=8, R=1e9, N=32, Vpi=4)

    bits = PRBS(7, len=32)
    volt = DAC(bits, Vout=2, pulse_shape='gaussian')
    carrier = optical_signal(np.ones(volt.len()))*0.03
    carrier2 = optical_signal(np.ones(volt.len()), n_pol=2)*0.03
    mod = MZM(carrier, volt, bias=1, Vpi=4)
    mod2 = MZM(carrier2, volt, bias=1, Vpi=4)
    amp = EDFA(mod, G=10, NF=5)
    np.random.seed(3)
    det = PD(amp, BW=2e9)
    esig = electrical_signal(rng.normal(size=64), rng.normal(size=64))
    thr = rng.uniform(0, 1, size=64)

    calls = {
        'PRBS': (lambda: PRBS(9, len=40), []),
        'DAC': (lambda: DAC(bits, Vout=2, pulse_shape='gaussian'), [bits]),
        'DAC nrz': (lambda: DAC(bits.data, Vout=1, bias=0.5), [bits]),
        'MZM': (lambda: MZM(carrier, volt, bias=1, Vpi=4), [carrier, volt]),
        'MZM 2 pol': (lambda: MZM(carrier2, volt, bias=1, Vpi=4, pol='y'), [carrier2, volt]),
        'EDFA': (lambda: EDFA(mod, G=10, NF=5), [mod]),
        'EDFA 2 pol': (lambda: EDFA(mod2, G=10, NF=5), [mod2]),
        'BPF': (lambda: BPF(amp, 3e9), [amp]),
        'DM': (lambda: DM(mod, 100), [mod]),
        'PD': (lambda: PD(amp, BW=2e9), [amp]),
        'PD no noise': (lambda: PD(mod, BW=2e9, include_noise='thermal-only'), [mod]),
        'LPF': (lambda: LPF(det, BW=1e9), [det]),
        'ADC': (lambda: ADC(det, fs=gv.fs/2), [det]),
        'SAMPLER': (lambda: SAMPLER(det, 3), [det]),
        'PPM_ENCODER': (lambda: PPM_ENCODER(bits, 4), [bits]),
        'PPM codec': (lambda: PPM_DECODER(PPM_ENCODER(bits, 4), 4), [bits]),
        'HDD': (lambda: HDD(PPM_ENCODER(bits, 4), 4), [bits]),
        'signal +': (lambda: esig + esig, [esig]),
        'signal *': (lambda: 2*esig - esig*esig, [esig]),
        "signal ('w')": (lambda: esig('w', shift=True), [esig]),
        'signal slice': (lambda: esig[3:40:2], [esig]),
        'signal copy': (lambda: esig.copy(), [esig]),
        'signal >': (lambda: esig > thr, [esig, thr]),
        'signal <': (lambda: esig < 0.3, [esig]),
        'optical +': (lambda: mod2 + mod2*0.5, [mod2]),
        'optical slice': (lambda: mod2[5:50], [mod2]),
        'bits +': (lambda: bits + ~bits + bits[3:9], [bits]),
        'power': (lambda: amp.power(), [amp]),
        'abs': (lambda: amp.abs(), [amp]),
        'w': (lambda: amp.w(shift=True), [amp]),
    }

    reference = {}
    for seed in (0, 1, 12345):
        for name, (fn, inputs) in calls.items():
            cl = f'C14 purity of {name} (seed {seed})'
            frozen = []
            for i in inputs:
                if isinstance(i, binary_sequence):
                    frozen.append((i, i.data.copy()))
                else:
                    frozen.append(Frozen(i))
            before = gv_snapshot()
            np.random.seed(seed)
            out1 = fn()
            np.random.seed(seed)
            out2 = fn()
            check(gv_same(before, gv_snapshot()), cl, 'gv was modified')
            for f in frozen:
                if isinstance(f, tuple):
                    check(np.array_equal(f[0].data, f[1]) and f[0].data.dtype == np.uint8, cl, 'a binary_sequence argument was modified')
                else:
                    f.verify(cl)
            check(same_output(out1, out2), cl, 'repeating the call after np.random.seed(s) does not reproduce the output bit-for-bit')
            for a in out_arrays(out1):
                for i in inputs:
                    for b in out_arrays(i):
                        check(not np.shares_memory(a, b), cl, 'the output aliases an input buffer')
            reference.setdefault((name, seed), out1)

    # whatever was called before: run in another order and compare
    order = list(calls)
    for seed in (0, 12345):
        rng.shuffle(order)
        for name in order:
            np.random.seed(seed)
            out = calls[name][0]()
            check(same_output(out, reference[(name, seed)]), f'C14 order independence of {name} (seed {seed})', 'result depends on the call history')
    gv.clean()


# ----------------------------------------------------------------------------------------------------
# C15
# ----------------------------------------------------------------------------------------------------
def assert_bits(b, expected, clause):
    check(type(b) is binary_sequence, clause, f'result is {type(b).__name__}')
    check(isinstance(b.data, np.ndarray) and b.data.ndim == 1 and b.data.dtype == np.uint8, clause, f'stored data must be a 1-D uint8 array, is {getattr(b.data, "dtype", None)} ndim {getattr(b.data, "ndim", None)}')
    check(np.all((b.data == 0) | (b.data == 1)), clause, 'stored data must be 0/1')
    if expected is not None:
        expected = np.asarray(expected)
        check(b.data.shape == expected.shape and np.array_equal(b.data, expected), clause, f'bits {b.data} instead of {expected}')
    check(len(b) == b.len() == b.data.size, clause, 'len')


def container_forms(arr):
    s = ''.join(str(int(v)) for v in arr)
    return {
        'str': s,
        'str spaced': ' '.join(s),
        'str commas': ','.join(s),
        'list': [int(v) for v in arr],
        'tuple': tuple(int(v) for v in arr),
        'ndarray int': np.array(arr, dtype=int),
        'ndarray uint8': np.array(arr, dtype=np.uint8),
        'ndarray bool': np.array(arr, dtype=bool),
        'ndarray float': np.array(arr, dtype=float),
        'list bool': [bool(v) for v in arr],
        'list float': [float(v) for v in arr],
    }


def check_C15(rng):
    # scalars
    for v, e in ((0, [0]), (1, [1]), (True, [1]), (False, [0]), (np.uint8(1), [1]), (1.0, [1]), ('1', [1]), ('0', [0]), (np.bool_(True), [1])):
        assert_bits(binary_sequence(v), e, f'C15 scalar construction {v!r}')

    # invalid data
    cl = 'C15 only 1-D 0/1 data is accepted (ValueError/TypeError otherwise)'
    invalid = [[0, 1, 2], [0, -1], [0.5, 1], '012', '0 1 3', [[0, 1], [1, 0]], np.zeros((2, 3)), '01;10', [np.nan, 1], 2, -1, 0.5, None,
               [0, 1j], ['a', 'b'], [None, 1], [[0, 1]], np.array([[1]]), [1, 0, 7], (3,), '2', [0, 1, 1e-9], object()]
    for bad in invalid:
        check(raises(lambda: binary_sequence(bad), (ValueError, TypeError)), cl, f'binary_sequence({bad!r}) must raise')
    a = binary_sequence('0110')
    for bad in ([0, 2], '012', [[0, 1]], (0, 5), np.array([0.5]), 1, 1.0, None, 2, {0: 1}):
        check(raises(lambda: a + bad, (ValueError, TypeError)), cl, f'a + {bad!r} must raise')
        check(raises(lambda: bad + a, (ValueError, TypeError)), cl, f'{bad!r} + a must raise')
    assert_bits(a, [0, 1, 1, 0], cl)

    # exhaustive up to length 12
    all_strings = [np.array(bits, dtype=np.uint8) for L in range(1, 13) for bits in itertools.product((0, 1), repeat=L)]
    pool = [all_strings[i] for i in rng.integers(0, len(all_strings), size=64)]
    form_names = list(container_forms(np.array([0, 1])))
    for idx, arr in enumerate(all_strings):
        L = arr.size
        cl = f'C15 algebra on {"".join(map(str, arr))}'
        forms = container_forms(arr)
        if L <= 6:
            chosen = form_names
        else:
            chosen = ['str', form_names[idx % len(form_names)], form_names[(idx*7 + 3) % len(form_names)]]
        for name in chosen:
            src = forms[name]
            keep = Frozen(src) if not isinstance(src, str) else None
            a = binary_sequence(src)
            assert_bits(a, arr, cl + f' built from {name}')
            if isinstance(src, np.ndarray):
                check(not np.shares_memory(a.data, src), cl, 'data shares memory with the input array')
            if keep is not None:
                keep.verify(cl)
        a = binary_sequence(forms['str'])
        a0 = a.data.copy()
        # inversion
        na = ~a
        assert_bits(na, 1 - arr, cl + ' ~a')
        assert_bits(~na, arr, cl + ' ~~a')
        check((~~a) == a, cl, '~~a == a')
        check(not np.shares_memory(na.data, a.data), cl, '~a shares memory')
        # counts
        check(a.ones() + a.zeros() == len(a) and a.ones() == int(arr.sum()) and a.zeros() == L - int(arr.sum()), cl, 'ones()+zeros() == len()')
        check(na.ones() == a.zeros() and na.zeros() == a.ones(), cl, 'ones(~a) == zeros(a)')
        # concatenation with some partners, every accepted container
        for j in range(3):
            barr = pool[(idx + 17*j) % len(pool)]
            bforms = container_forms(barr)
            bname = form_names[(idx + j) % len(form_names)]
            for other in (binary_sequence(barr), bforms[bname]):
                cat = a + other
                assert_bits(cat, np.concatenate((arr, barr)), cl + f' a + {bname}')
                check(len(cat) == len(a) + barr.size, cl, 'len(a+b) = len(a)+len(b)')
                check(cat[:len(a)] == a, cl, '(a+b)[:len(a)] == a')
                check(cat[len(a):] == binary_sequence(barr), cl, '(a+b)[len(a):] == b')
                check(not np.shares_memory(cat.data, a.data), cl, 'a+b shares memory with a')
                if isinstance(other, np.ndarray) and not NEW['array_ufunc']:
                    continue
                cat = other + a
                assert_bits(cat, np.concatenate((barr, arr)), cl + f' {bname} + a')
                check(cat[:barr.size] == binary_sequence(barr) and cat[barr.size:] == a, cl, '(b+a) halves')
        # slices
        keys = [slice(None), slice(1, None), slice(None, -1), slice(None, None, 2), slice(None, None, -1), slice(2, 5), slice(-3, None), slice(0, 0), 0, -1, L - 1, -L]
        if L <= 5:
            rngs = [None] + list(range(-L - 1, L + 2))
            keys += [slice(i, j, k) for i in rngs for j in rngs for k in (None, 1, 2, -1, -2)]
        for key in keys:
            sub = a[key]
            exp = arr[key] if isinstance(key, slice) else arr[key:key + 1 if key != -1 else None]
            assert_bits(sub, exp, cl + f' a[{key}]')
            check(not np.shares_memory(sub.data, a.data), cl, 'slice shares memory with a')
        check(raises(lambda: a[L], IndexError) and raises(lambda: a[-L - 1], IndexError), cl, 'out of range index raises IndexError')
        check(np.array_equal(a.data, a0) and a.data.dtype == np.uint8, cl, 'operand modified')

    # long random sequences and random expressions
    for trial in range(200):
        cl = f'C15 random expression (trial {trial})'
        leaves = []

        def gen(depth):
            ch = rng.integers(0, 5) if depth > 0 else 0
            if ch == 0:
                arr = rng.integers(0, 2, size=int(rng.integers(1, [8, 40, 3000][rng.integers(3)]))).astype(np.uint8)
                b = binary_sequence(container_forms(arr)[form_names[rng.integers(len(form_names))]])
                leaves.append((b, arr.copy()))
                return b, arr
            if ch in (1, 2):
                x, mx = gen(depth - 1)
                kind = rng.integers(0, 3)
                if kind == 0:
                    y, my = gen(depth - 1)
                else:
                    my = rng.integers(0, 2, size=int(rng.integers(1, 9))).astype(np.uint8)
                    names = [n for n in form_names if NEW['array_ufunc'] or not n.startswith('ndarray')]
                    y = container_forms(my)[names[rng.integers(len(names))]]
                if ch == 1:
                    return x + y, np.concatenate((mx, my))
                return y + x, np.concatenate((my, mx))
            if ch == 3:
                x, mx = gen(depth - 1)
                return ~x, (1 - mx).astype(np.uint8)
            x, mx = gen(depth - 1)
            n = mx.size
            i, j = sorted(rng.integers(-n, n + 1, size=2).tolist())
            key = slice(i, j, [None, 1, 2, -1][rng.integers(4)])
            return x[key], mx[key]

        res, model = gen(int(rng.integers(1, 7)))
        assert_bits(res, model, cl)
        for b, arr in leaves:
            check(np.array_equal(b.data, arr) and b.data.dtype == np.uint8, cl, 'an operand was modified')
            if b is not res:
                check(not np.shares_memory(b.data, res.data), cl, 'result shares memory with an operand')

    # comparisons of electrical signals with thresholds
    for n, dtype, noise in itertools.product([1, 2, 3, 7, 64, 1001], [int, float, complex], [False, True]):
        cl = f'C15 threshold comparison (n={n}, {dtype.__name__}, noise={noise})'
        x, (s, nz) = make(rng, electrical_signal, 1, n, dtype, noise)
        fx = Frozen(x)
        thresholds = [0, 1, 2.5, -1.0, np.float64(0.7), rng.uniform(-3, 3, size=n), rng.uniform(0, 3, size=n).tolist(), tuple(rng.integers(0, 4, size=n).tolist()),
                      electrical_signal(rng.uniform(0, 3, size=n)), 1 + 1j, rng.uniform(0, 3, size=n) + 1j*rng.uniform(0, 3, size=n), [1.5], np.array([0.5])]
        for th in thresholds:
            for r in (x > th, x < th):
                assert_bits(r, None, cl)
                check(len(r) == n, cl, f'length {len(r)} instead of {n}')
        fx.verify(cl)
        if dtype is not complex:
            # non-negative real signal (+ noise) and thresholds: element-wise comparison of signal+noise
            s = np.abs(s); nz = None if nz is None else np.abs(nz)
            x = electrical_signal(s) if nz is None else electrical_signal(s, nz)
            tot = total(s, nz)
            for th in (0, 1, 2, 2.5, 0.0625, np.float64(3.0), np.abs(rng.uniform(0, 6, size=n)), rng.integers(0, 6, size=n), rng.integers(0, 6, size=n).tolist(),
                       tuple(rng.uniform(0, 6, size=n).tolist()), tot.copy(), electrical_signal(np.abs(rng.uniform(0, 6, size=n)))):
                tv = th.signal if hasattr(th, 'signal') else np.asarray(th)
                assert_bits(x > th, (tot > tv).astype(np.uint8)*np.ones(n, dtype=np.uint8), cl + ' >')
                assert_bits(x < th, (tot < tv).astype(np.uint8)*np.ones(n, dtype=np.uint8), cl + ' <')
        if n > 1:
            check(raises(lambda: x > np.ones(n + 1), ValueError), cl, 'thresholds of another length are rejected')


# ----------------------------------------------------------------------------------------------------
# behaviour added on top of the original API: the objects it produces must obey the same contract
# ----------------------------------------------------------------------------------------------------
def check_extensions(rng):
    done = []
    if NEW['norm']:
        for cls, n_pol in ((electrical_signal, 1), (optical_signal, 2)):
            for n in (1, 2, 5, 16, 101):
                x, (s, nz) = make(rng, cls, n_pol, n, complex, True)
                for norm in (None, 'backward', 'ortho', 'forward'):
                    cl = f'C02 round trip with norm={norm}'
                    X = x('w', norm=norm)
                    assert_valid(X, cls, n_pol, n, cl)
                    back = X('t', norm=norm)
                    check(close(back.signal, s, 1e-10) and close(back.noise, nz, 1e-10), cl, 'inverse pair')
                    no_alias(X, [x], cl)
                check(np.array_equal(x('w', norm=None).signal, x('w').signal) and np.array_equal(x('w', norm='backward').signal, x('w').signal), 'C02 default normalisation', 'norm=None must be the plain DFT')
                check(close(x('w', norm='ortho').signal, fft(s, axis=-1)/np.sqrt(n), 1e-12), 'C02 ortho', 'scaling')
                for alias, ref in (('time', 't'), ('T', 't'), ('freq', 'f'), ('frequency', 'f'), ('omega', 'w'), ('W', 'w'), (' f ', 'f')):
                    check(same_output(x(alias), x(ref)) and same_output(x(alias, shift=True), x(ref, shift=True)), 'C02 domain spellings', alias)
                check(raises(lambda: x('z'), ValueError) and raises(lambda: x(3), (TypeError, ValueError)), 'C02 invalid domain', 'must raise')
        done.append('norm')
    if NEW['strict']:
        cl = 'C01 strict constructor'
        x = electrical_signal([1.0, np.nan, 3.0])
        assert_valid(x, electrical_signal, 1, 3, cl)
        check(raises(lambda: electrical_signal([1.0, np.nan], strict=True), ValueError), cl, 'nan rejected in strict mode')
        check(raises(lambda: optical_signal([[1.0, 2.0], [np.inf, 1.0]], strict=True), ValueError), cl, 'inf rejected in strict mode')
        check(raises(lambda: electrical_signal([1.0, 2.0], [np.nan, 0.0], strict=True), ValueError), cl, 'nan noise rejected in strict mode')
        assert_valid(electrical_signal([1, 2, 3], [0, 1, 0], strict=True), electrical_signal, 1, 3, cl)
        assert_valid(optical_signal([1, 2, 3], n_pol=2, strict=True), optical_signal, 2, 3, cl)
        # lazily evaluated inputs and copy construction
        src = np.arange(5.0)
        g = electrical_signal(v for v in src)
        assert_valid(g, electrical_signal, 1, 5, cl + ' generator')
        check(np.array_equal(g.signal, src), cl, 'generator values')
        g = optical_signal(iter(src.tolist()), (v/2 for v in src), n_pol=2)
        assert_valid(g, optical_signal, 2, 5, cl + ' iterator')
        check(np.array_equal(g.noise[1], src/2), cl, 'iterator values')
        x, (s, nz) = make(rng, electrical_signal, 1, 9, complex, True)
        for cls, n_pol in ((electrical_signal, 1), (optical_signal, 1)):
            y = cls(x)
            assert_valid(y, cls, n_pol, 9, cl + ' copy construction')
            check(np.array_equal(y.signal, s) and np.array_equal(y.noise, nz), cl, 'copy construction values')
            no_alias(y, [x], cl)
        o, (s, nz) = make(rng, optical_signal, 2, 9, float, True)
        y = optical_signal(o)
        assert_valid(y, optical_signal, 2, 9, cl + ' copy construction 2 pol')
        check(np.array_equal(y.signal, s) and np.array_equal(y.noise, nz), cl, 'copy construction values')
        no_alias(y, [o], cl)
        for bad in (['a', 'b'], [None, 1], object(), {1: 2}):
            check(raises(lambda: electrical_signal(bad), (TypeError, ValueError)), cl, f'non numeric samples {bad!r} must be rejected')
        for bad in (0, 3, 1.5, '2', True):
            check(raises(lambda: optical_signal([1, 2, 3], n_pol=bad), (TypeError, ValueError)), cl, f'n_pol={bad!r} must be rejected')
        # strings of 0's and 1's behave numerically
        a = electrical_signal('1 0 1') + '1 1 1'
        check(close(total(a.signal, a.noise), [2, 1, 2]), 'C01 total field of + with 0/1 strings', str(a.signal))
        a = electrical_signal('1 0 1', '1 1 0') - electrical_signal('0 1 1')
        check(close(total(a.signal, a.noise), [2, 0, 0]), 'C01 total field of - with 0/1 strings', str(a.signal))
        a = '1 1' - optical_signal('1 0', n_pol=2)
        assert_valid(a, optical_signal, 2, 2, 'C01 0/1 strings')
        check(close(a.signal, [[0, 1], [0, 1]]), 'C01 total field of reflected - with 0/1 strings', str(a.signal))
        done.append('strict')
    if NEW['result_helper']:
        # length-1 operands carrying noise broadcast as well
        for cls, n_pol in ((electrical_signal, 1), (optical_signal, 1), (optical_signal, 2)):
            for noise_a in (False, True):
                a, ma = make(rng, cls, n_pol, 6, float, noise_a)
                b, mb = make(rng, cls, 1, 1, complex, True)
                fa, fb = Frozen(a), Frozen(b)
                for op in ('+', '-', '*'):
                    res = apply(op, a, b)
                    check_result(res, cls, n_pol, 6, op, ma, mb, [a, b], f'C01 length-1 operand with noise broadcasts ({cls.__name__}, {n_pol} pol, {op})')
                fa.verify('C01 operands'); fb.verify('C01 operands')
        # numpy integer index on two polarisations
        o, (s, nz) = make(rng, optical_signal, 2, 7, float, True)
        for k in (np.int64(3), np.int32(-1), np.uint8(0)):
            y = o[k]
            assert_valid(y, optical_signal, 2, 1, 'C01 numpy integer index')
            check(np.array_equal(y.signal[:, 0], s[:, int(k)]) and np.array_equal(y.noise[:, 0], nz[:, int(k)]), 'C01 numpy integer index', 'values')
        e, (s, nz) = make(rng, electrical_signal, 1, 7, float, True)
        mask = np.array([True, False, True, True, False, False, True])
        y = e[mask]
        assert_valid(y, electrical_signal, 1, 4, 'C01 mask index')
        check(np.array_equal(y.signal, s[mask]) and np.array_equal(y.noise, nz[mask]), 'C01 mask index', 'values')
        y = o[[0, 2, 4]]
        assert_valid(y, optical_signal, 2, 3, 'C01 list index')
        check(np.array_equal(y.signal, s if False else o.signal[:, [0, 2, 4]]), 'C01 list index', 'values')
        no_alias(y, [o], 'C01 list index')
        # copy keeps the execution time and validates n
        e.execution_time = 1.5
        check(e.copy().execution_time == 1.5 and e.copy(3).len() == 3, 'copy()', 'execution_time kept')
        check(raises(lambda: e.copy(2.5), TypeError), 'copy()', 'non integer n')
        done.append('result_helper')
    if NEW['w_unit']:
        gv.clean(); gv(sps=4, R=10e9)
        x = optical_signal(np.ones(11), n_pol=2)
        check(np.allclose(x.w(unit='Hz')*2*pi, x.w(), rtol=1e-14) and np.allclose(x.w(True, unit='hz'), fftshift(fftfreq(11))*gv.fs), 'w(unit)', 'Hz axis')
        check(raises(lambda: x.w(unit='rpm'), ValueError), 'w(unit)', 'invalid unit')
        gv.clean()
        done.append('w_unit')
    if NEW['power_unit']:
        x, (s, nz) = make(rng, optical_signal, 2, 50, complex, True)
        p = np.mean(np.abs(s + nz)**2, axis=-1)
        check(np.allclose(x.power(unit='W'), p) and np.allclose(x.power(unit='mW'), p*1e3) and np.allclose(x.power('all', 'dBm'), 10*np.log10(p*1e3)), 'power(unit)', 'units')
        for alias, ref in (('SIGNAL', 'signal'), ('sig', 'signal'), ('n', 'noise'), ('total', 'all'), ('both', 'all'), ('Signal+Noise', 'all')):
            check(np.array_equal(x.power(alias), x.power(ref)) and np.array_equal(x.abs(alias), x.abs(ref)), 'power/abs spellings of `by`', alias)
        check(raises(lambda: x.power('z'), ValueError) and raises(lambda: x.abs('z'), ValueError) and raises(lambda: x.power(3), TypeError) and raises(lambda: x.power(unit='hp'), ValueError), 'power/abs', 'invalid arguments')
        y = electrical_signal([1 + 1j, 2])
        check(np.array_equal(y.abs('noise'), np.zeros(2)) and y.power('noise') == 0, "abs('noise') without noise", 'zeros')
        done.append('power_unit')
    if NEW['normalize']:
        a = binary_sequence('1101')
        check(a.ones(normalize=True) == 0.75 and a.zeros(normalize=True) == 0.25 and a.ones() == 3 and a.zeros() == 1, 'ones(normalize)', 'fractions')
        check(binary_sequence([]).ones(normalize=True) == 0.0, 'ones(normalize)', 'empty')
        # lazily evaluated containers and sequences
        b = binary_sequence(v % 2 for v in range(5))
        assert_bits(b, [0, 1, 0, 1, 0], 'C15 generator')
        assert_bits(binary_sequence(a), [1, 1, 0, 1], 'C15 copy construction')
        check(not np.shares_memory(binary_sequence(a).data, a.data), 'C15 copy construction', 'shares memory')
        assert_bits(a + range(2), [1, 1, 0, 1, 0, 1], 'C15 a + range')
        assert_bits(range(2) + a, [0, 1, 1, 1, 0, 1], 'C15 range + a')
        assert_bits(a + (v for v in (1, 1)), [1, 1, 0, 1, 1, 1], 'C15 a + generator')
        check(raises(lambda: a + range(3), ValueError) and raises(lambda: a + 1, TypeError) and raises(lambda: 1 + a, TypeError), 'C15 invalid operands', 'must raise')
        assert_bits(a, [1, 1, 0, 1], 'C15 operands unchanged')
        done.append('normalize')
    if NEW['array_ufunc']:
        a = binary_sequence('0110')
        arr = np.array([1, 0, 0])
        r = arr + a
        assert_bits(r, [1, 0, 0, 0, 1, 1, 0], 'C15 ndarray + a')
        check(np.array_equal(arr, [1, 0, 0]) and (arr == binary_sequence([1, 0, 0])), 'C15 ndarray + a', 'operand changed')
        check(raises(lambda: np.array([0, 2]) + a, ValueError), 'C15 ndarray + a', 'non binary array')
        done.append('array_ufunc')
    if NEW['gv_atomic']:
        cl = 'C14 gv extensions'
        check(gv.clean() is gv, cl, 'clean() returns gv')
        gv(sps=8, R=10e9, N=10.0, f0=193.1e12, alpha=1)
        assert_grid(cl, {'alpha': 1})
        check(gv.N == 10 and isinstance(gv.N, int) and np.isclose(gv.wavelength, c/193.1e12, rtol=1e-15), cl, 'N float / f0 keyword')
        gv(sps=4, R=10e9)
        assert_grid(cl, {'alpha': 1})
        gv(N=np.int64(6), wavelength=1310e-9)
        assert_grid(cl, {'alpha': 1})
        check(gv.wavelength == 1310e-9 and gv.N == 6, cl, 'values in force')
        before = gv_snapshot()
        bad_calls = [dict(sps=-2, R=1e9), dict(R=-1e9), dict(fs=np.inf), dict(sps='8'), dict(N=0), dict(N=2.5), dict(N=-3), dict(wavelength=-1.0), dict(wavelength=0),
                     dict(f0=1e14, wavelength=1550e-9), dict(dt=1e-9), dict(sps=8, R=1e9, w=3), dict(R=1e9, fs=1e8), dict(sps=0.2, R=1e9), dict(sps=8, R=1e9, N='4')]
        for kw in bad_calls:
            check(raises(lambda: gv(**kw), (ValueError, TypeError)), cl, f'gv({kw}) must be rejected')
            check(gv_same(before, gv_snapshot()), cl, f'a rejected call gv({kw}) must leave gv untouched')
        assert_grid(cl, {'alpha': 1})
        gv(func=len, sps=2, R=1e9)
        gv.clean()
        assert_defaults(cl, ['alpha', 'func'])
        check('sps=16' in repr(gv) and 'Global Variables' in str(gv), cl, 'repr/str')
        done.append('gv_atomic')
    return done


def main():
    rng = np.random.default_rng(20240917)
    np.random.seed(7)
    steps = [
        ('C01 constructors', check_C01_constructors),
        ('C01 arithmetic', check_C01_arithmetic),
        ('C01 slicing/copy/transforms', check_C01_slicing),
        ('C01 expression trees', check_C01_trees),
        ('C02', check_C02),
        ('C14 gv', check_C14_gv),
        ('C14 purity', check_C14_purity),
        ('C15', check_C15),
        ('extensions', check_extensions),
    ]
    if os.environ.get('CONTRACT_CHECK_VERBOSE'):
        print(f'  testing {os.path.dirname(opticomlib.__file__)}', flush=True)
    try:
        for name, fn in steps:
            out = fn(rng)
            if os.environ.get('CONTRACT_CHECK_VERBOSE'):
                print(f'  ok  {name}' + (f' ({out})' if out else ''), flush=True)
    except ContractViolation as e:
        print(f'FAIL {e}')
        return 1
    finally:
        try:
            gv.clean()
        except Exception:
            pass
    print('PASS')
    return 0


if __name__ == '__main__':
    sys.exit(main())
