"""Sampled check of the C13 / C18 / C19 contract clauses for opticomlib.utils (and what is built on it)."""
import sys, os

_here = os.path.dirname(os.path.abspath(__file__))
if sys.path and os.path.abspath(sys.path[0] or os.getcwd()) == _here:
    del sys.path[0]

import inspect
import itertools
import re
import warnings

import numpy as np
from scipy.constants import c, h, e, k as kB, pi
from scipy.integrate import quad
from scipy.optimize import minimize_scalar
from scipy.special import erfc

warnings.filterwarnings('ignore')

import opticomlib
from opticomlib import utils as U
from opticomlib import ook, ppm
from opticomlib.devices import ADC
from opticomlib.typing import eye

FAILS = []


def check(cond, clause, detail=''):
    if not bool(cond):
        FAILS.append(f'{clause}: {detail}')
        if len(FAILS) > 40:
            finish()


def finish():
    if FAILS:
        for f in FAILS:
            print('FAIL', f)
        sys.exit(1)
    print('PASS')
    sys.exit(0)


def has_param(fun, name):
    return name in inspect.signature(fun).parameters


def raises(exc, fun, *a, **k):
    try:
        fun(*a, **k)
    except exc:
        return True
    except Exception:
        return False
    return False


def Qref(x):
    return 0.5 * erfc(np.asarray(x, float) / np.sqrt(2))


# =====================================================================================
# C19
# =====================================================================================
def c19_units():
    rng = np.random.default_rng(1901)
    x = 10 ** rng.uniform(-15, 15, 4000)
    y = 10 ** rng.uniform(-15, 15, 4000)
    edges = 10.0 ** np.arange(-15, 16)
    for arr in (x, edges):
        check(np.allclose(U.idb(U.db(arr)), arr, rtol=1e-12, atol=0), 'C19 idb(db(x))=x', 'array')
        check(np.allclose(U.idbm(U.dbm(arr)), arr, rtol=1e-12, atol=0), 'C19 idbm(dbm(x))=x', 'array')
    # lists, tuples, scalars
    check(np.allclose(U.idb(U.db(list(x[:50]))), x[:50], rtol=1e-12), 'C19 idb(db(x))=x', 'list')
    check(np.allclose(U.idbm(U.dbm(tuple(x[:50]))), x[:50], rtol=1e-12), 'C19 idbm(dbm(x))=x', 'tuple')
    for v in x[:300]:
        v = float(v)
        check(abs(U.idb(U.db(v)) - v) <= 1e-12 * v, 'C19 idb(db(x))=x', f'scalar {v}')
        check(abs(U.idbm(U.dbm(v)) - v) <= 1e-12 * v, 'C19 idbm(dbm(x))=x', f'scalar {v}')
        check(np.ndim(U.db(v)) == 0 and np.ndim(U.idb(v)) == 0, 'C19 scalars stay scalars', f'{v}')
    for v in (1, 2, 1000, 10 ** 9):
        check(abs(U.idb(U.db(v)) - v) <= 1e-12 * v, 'C19 idb(db(x))=x', f'int {v}')
        check(abs(U.idbm(U.dbm(v)) - v) <= 1e-12 * v, 'C19 idbm(dbm(x))=x', f'int {v}')

    d = np.concatenate([rng.uniform(-300, 300, 4000), [-300, 300, 0, -30, 30]])
    check(np.allclose(U.db(U.idb(d)), d, rtol=0, atol=1e-9), 'C19 db(idb(d))=d', 'array')
    check(np.allclose(U.dbm(U.idbm(d)), d, rtol=0, atol=1e-9), 'C19 dbm(idbm(d))=d', 'array')
    for v in d[:300]:
        v = float(v)
        check(abs(U.db(U.idb(v)) - v) <= 1e-9, 'C19 db(idb(d))=d', f'scalar {v}')
        check(abs(U.dbm(U.idbm(v)) - v) <= 1e-9, 'C19 dbm(idbm(d))=d', f'scalar {v}')
    for v in (-300, -3, 0, 3, 300):
        check(abs(U.db(U.idb(v)) - v) <= 1e-9, 'C19 db(idb(d))=d', f'int {v}')
        check(abs(U.dbm(U.idbm(v)) - v) <= 1e-9, 'C19 dbm(idbm(d))=d', f'int {v}')

    xs, ys = 10 ** rng.uniform(-7.5, 7.5, 4000), 10 ** rng.uniform(-7.5, 7.5, 4000)
    check(np.allclose(U.db(xs * ys), U.db(xs) + U.db(ys), rtol=0, atol=1e-9), 'C19 db(xy)=db(x)+db(y)')
    check(np.allclose(U.dbm(x), U.db(x) + 30, rtol=0, atol=1e-9), 'C19 dbm=db+30', 'array')
    for v in x[:200]:
        check(abs(U.dbm(float(v)) - (U.db(float(v)) + 30)) <= 1e-9, 'C19 dbm=db+30', f'scalar {v}')
    check(abs(U.db(1)) <= 1e-12 and abs(U.dbm(1e-3)) <= 1e-9 and abs(U.dbm(1) - 30) <= 1e-9, 'C19 db/dbm reference values')

    for fun in (U.db, U.dbm):
        for bad in (-1, -1.5, -1e-30, [1, -2, 3], (1.0, -1e-9), np.array([3.0, -1.0]), np.array([-5]), np.array([[1, 2], [3, -4]])):
            check(raises(ValueError, fun, bad), f'C19 {fun.__name__} negative input raises ValueError', repr(bad))


def c19_Q_gaus_rcos():
    rng = np.random.default_rng(1902)
    x = np.concatenate([rng.uniform(-12, 12, 5000), np.linspace(-40, 40, 801)])
    check(np.allclose(U.Q(x) + U.Q(-x), 1, rtol=0, atol=1e-15), 'C19 Q(x)+Q(-x)=1', 'array')
    for v in x[:200]:
        check(abs(U.Q(float(v)) + U.Q(-float(v)) - 1) <= 1e-15, 'C19 Q(x)+Q(-x)=1', f'scalar {v}')
    check(U.Q(0) == 0.5 and U.Q(0.0) == 0.5 and U.Q([0])[0] == 0.5, 'C19 Q(0)=1/2')
    xs = np.sort(x)
    q = U.Q(xs)
    check(np.all(np.diff(q) <= 0), 'C19 Q decreasing (non-increasing everywhere)')
    inner = np.linspace(-5, 30, 4000)
    check(np.all(np.diff(U.Q(inner)) < 0), 'C19 Q strictly decreasing on [-5, 30]')
    check(np.allclose(U.Q(x), Qref(x), rtol=1e-12, atol=0), 'C19 Q closed form')
    check(np.allclose(U.Q(list(x[:20])), Qref(x[:20]), rtol=1e-12), 'C19 Q list input')

    for mu, std in [(None, None), (0, 1), (1.5, 0.2), (-3, 4), (1e-3, 1e-4), (250.0, 30.0)]:
        m, s = (0 if mu is None else mu), (1 if std is None else std)
        t = np.linspace(m - 12 * s, m + 12 * s, 200001)
        g = U.gaus(t, mu, std)
        area = np.trapz(g, t)
        check(abs(area - 1) < 1e-9, 'C19 gaus integrates to one', f'mu={mu} std={std} area={area}')
        check(np.all(g >= 0), 'C19 gaus non-negative')
        val, err = quad(lambda v: float(U.gaus(v, mu, std)), m - 12 * s, m + 12 * s, points=[m])
        check(abs(val - 1) < 1e-7, 'C19 gaus integrates to one (scalar calls)', f'mu={mu} std={std} area={val}')
    check(abs(U.gaus(0, 0, 1) - 1 / np.sqrt(2 * pi)) < 1e-15, 'C19 gaus peak value')
    check(abs(np.trapz(U.gaus(np.linspace(-10, 10, 100001)), np.linspace(-10, 10, 100001)) - 1) < 1e-9, 'C19 gaus defaults integrate to one')

    for alpha, T in itertools.product([0, 1e-3, 0.1, 0.25, 0.5, 0.77, 1], [1e-9, 0.5, 1, 2, 3.7, 1e3]):
        f = np.concatenate([np.linspace(-2 / T, 2 / T, 4001), rng.uniform(-3 / T, 3 / T, 2000),
                            [1 / (2 * T), -1 / (2 * T), (1 + alpha) / (2 * T), (1 - alpha) / (2 * T), 0.0]])
        H = np.asarray(U.rcos(f, alpha, T))
        check(H.shape == f.shape, 'C19 rcos vectorises')
        check(np.all((H >= 0) & (H <= 1)), 'C19 rcos in [0,1]', f'alpha={alpha} T={T}')
        check(np.array_equal(H, np.asarray(U.rcos(-f, alpha, T))), 'C19 rcos even', f'alpha={alpha} T={T}')
        beyond = np.abs(f) > (1 + alpha) / (2 * T)
        check(np.all(H[beyond] == 0), 'C19 rcos vanishes beyond (1+alpha)/(2T)', f'alpha={alpha} T={T}')
        if alpha > 0:
            check(abs(U.rcos(1 / (2 * T), alpha, T) - 0.5) < 1e-12, 'C19 rcos = 1/2 at 1/(2T) (scalar)', f'alpha={alpha} T={T}')
            check(abs(U.rcos(-1 / (2 * T), alpha, T) - 0.5) < 1e-12, 'C19 rcos = 1/2 at -1/(2T) (scalar)', f'alpha={alpha} T={T}')
            check(abs(np.asarray(U.rcos(np.array([1 / (2 * T)]), alpha, T))[0] - 0.5) < 1e-12, 'C19 rcos = 1/2 at 1/(2T) (array)', f'alpha={alpha} T={T}')
        for v in f[::400]:
            s = U.rcos(float(v), alpha, T)
            check(0 <= s <= 1, 'C19 rcos scalar in [0,1]', f'{v} {alpha} {T}')
            check(s == U.rcos(-float(v), alpha, T), 'C19 rcos scalar even')
            if abs(v) > (1 + alpha) / (2 * T):
                check(s == 0, 'C19 rcos scalar vanishes beyond band')
        check(U.rcos(0.0, alpha, T) == 1, 'C19 rcos(0)=1')
        lst = list(f[:10])
        check(np.allclose(np.asarray(U.rcos(lst, alpha, T), float), H[:10]), 'C19 rcos list input')


def c19_dec2bin():
    for d in range(0, 17):
        shifts = np.arange(d - 1, -1, -1)
        for v in range(2 ** d):
            out = np.asarray(U.dec2bin(v, d))
            exp = (v >> shifts) & 1
            if out.shape != (d,) or not np.array_equal(out, exp):
                check(False, 'C19 dec2bin big-endian expansion', f'v={v} d={d} out={out}')
                return
        for v in (2 ** d, 2 ** d + 1, 2 ** (d + 1), 2 ** 20 + 3):
            check(raises(ValueError, U.dec2bin, v, d), 'C19 dec2bin too large raises ValueError', f'v={v} d={d}')
    for d in (1, 3, 8, 16):
        for v in (0, 2 ** d - 1, 2 ** d // 2):
            out = np.asarray(U.dec2bin(np.int64(v), d))
            check(np.array_equal(out, (v >> np.arange(d - 1, -1, -1)) & 1), 'C19 dec2bin numpy integer', f'{v} {d}')
    check(np.array_equal(U.dec2bin(5), [0, 0, 0, 0, 0, 1, 0, 1]), 'C19 dec2bin default digits')
    if has_param(U.dec2bin, 'bitorder'):
        check(np.array_equal(U.dec2bin(5, 4, bitorder='little'), [1, 0, 1, 0]), 'dec2bin bitorder=little')
        check(np.array_equal(U.dec2bin(5, 4, bitorder='big'), [0, 1, 0, 1]), 'dec2bin bitorder=big')


def _fmt_real(v, kind):
    if kind == 'int':
        return str(int(v))
    return f'{v:.3f}'


def _fmt_complex(z, unit, rng):
    re_, im_ = z.real, z.imag
    return f'{re_:.3f}{im_:+.3f}{unit}'


def c19_str2array():
    rng = np.random.default_rng(1903)
    elem_seps = [',', ' ', ', ', '  ', ' ,']
    row_seps = [';', '; ', ' ; ', ' ;']
    shapes = [(n,) for n in range(1, 7)] + [(r, cc) for r in (1, 2, 3) for cc in range(1, 7)]
    for shape in shapes:
        for kind in ('int', 'float', 'complex'):
            for esep, rsep in itertools.product(elem_seps, row_seps):
                if kind == 'int':
                    arr = rng.integers(-999, 1000, shape)
                    if np.all((arr == 0) | (arr == 1)):
                        arr.flat[0] = 7
                    txt_el = np.vectorize(lambda v: _fmt_real(v, 'int'))(arr)
                    expected = arr
                elif kind == 'float':
                    arr = np.round(rng.uniform(-500, 500, shape), 3)
                    txt_el = np.vectorize(lambda v: _fmt_real(v, 'float'))(arr)
                    expected = np.vectorize(float)(txt_el)
                else:
                    arr = np.round(rng.uniform(-50, 50, shape), 3) + 1j * np.round(rng.uniform(-50, 50, shape), 3)
                    unit = 'j' if rng.random() < 0.5 else 'i'
                    txt_el = np.vectorize(lambda z: _fmt_complex(z, unit, rng))(arr)
                    expected = np.vectorize(lambda t: complex(t.replace('i', 'j')))(txt_el)
                if len(shape) == 1:
                    text = esep.join(txt_el)
                    exp = expected
                else:
                    if shape[0] == 1:
                        # a single row has no row separator: it reads back as 1-D
                        text = esep.join(txt_el[0])
                        exp = expected[0]
                    else:
                        text = rsep.join(esep.join(row) for row in txt_el)
                        exp = expected
                try:
                    out = U.str2array(text)
                except Exception as ex:
                    check(False, 'C19 str2array inverts textual form', f'{text!r} raised {ex!r}')
                    continue
                ok = out.shape == exp.shape and np.array_equal(out, exp)
                check(ok, 'C19 str2array inverts textual form', f'{text!r} -> {out!r}')
                want = {'int': 'iu', 'float': 'f', 'complex': 'c'}[kind]
                check(out.dtype.kind in want, 'C19 str2array inferred dtype', f'{text!r} -> {out.dtype}')
                # explicit dtype is honoured
                for dt in (float, complex) if kind != 'complex' else (complex,):
                    o2 = U.str2array(text, dt)
                    check(o2.dtype == np.dtype(dt) and o2.shape == exp.shape and np.array_equal(o2, exp.astype(dt)),
                          'C19 str2array honours explicit dtype', f'{text!r} {dt}')
                if kind == 'int':
                    o2 = U.str2array(text, int)
                    check(o2.dtype.kind == 'i' and np.array_equal(o2, exp), 'C19 str2array honours dtype=int', text)

    # 0/1 arrays (any kind) rendered as integers read back with the same values
    for shape in shapes:
        arr = rng.integers(0, 2, shape)
        for esep, rsep in itertools.product(elem_seps, row_seps):
            rows = [arr] if arr.ndim == 1 else list(arr)
            text = rsep.join(esep.join(str(v) for v in row) for row in rows) if len(rows) > 1 else esep.join(str(v) for v in rows[0])
            exp = arr if (arr.ndim == 1 or arr.shape[0] > 1) else arr[0]
            out = U.str2array(text)
            check(out.dtype == bool and out.shape == exp.shape and np.array_equal(out, exp), 'C19 str2array 0/1 text is a bit pattern', f'{text!r}')
            for dt in (int, float, complex, bool):
                o2 = U.str2array(text, dt)
                check(o2.dtype == np.dtype(dt) and o2.shape == exp.shape and np.array_equal(o2, exp.astype(dt)), 'C19 str2array 0/1 text with dtype', f'{text!r} {dt}')

    # digit-by-digit reading
    check(np.array_equal(U.str2array('10101'), [1, 0, 1, 0, 1]) and U.str2array('10101').dtype == bool, 'C19 str2array bit pattern')
    check(np.array_equal(U.str2array('10 100 1000'), [1, 0, 1, 0, 0, 1, 0, 0, 0]), 'C19 str2array bit pattern with spaces')
    check(np.array_equal(U.str2array('100;101'), [[1, 0, 0], [1, 0, 1]]), 'C19 str2array 2-D bit pattern')
    check(np.array_equal(U.str2array('10101', dtype=bool), [1, 0, 1, 0, 1]), 'C19 str2array bit pattern dtype=bool')
    for dt in (int, float, complex):
        o = U.str2array('1 0 1 10', dtype=dt)
        check(o.dtype == np.dtype(dt) and np.array_equal(o, [1, 0, 1, 10]), 'C19 str2array numeric dtype disables bit reading', f'{dt}')
        o = U.str2array('10 11; 100 101', dtype=dt)
        check(o.dtype == np.dtype(dt) and np.array_equal(o, [[10, 11], [100, 101]]), 'C19 str2array numeric dtype disables bit reading (2-D)', f'{dt}')
    for n in range(1, 40):
        bits = rng.integers(0, 2, n)
        check(np.array_equal(U.str2array(''.join(map(str, bits))), bits), 'C19 str2array bit pattern random')

    # invalid characters
    allowed = set('0123456789,; .+-ij\t\n\r\x0b\x0c')
    others = [ch for ch in map(chr, range(33, 127)) if ch not in allowed] + ['é', 'µ', '∞']
    for ch in others:
        for base in ('1 2 3', '101', '1.5 2.5; 3 4', '1+2j 3-4i'):
            for text in (base + ch, ch + base, base[:2] + ch + base[2:]):
                check(raises(ValueError, U.str2array, text), 'C19 str2array raises ValueError on other characters', repr(text))
                check(raises(ValueError, U.str2array, text, float), 'C19 str2array raises ValueError on other characters (dtype)', repr(text))


def c19_si():
    rng = np.random.default_rng(1904)
    powers = {'f': -15, 'p': -12, 'n': -9, 'u': -6, 'μ': -6, 'µ': -6, 'm': -3, '': 0, 'k': 3, 'M': 6, 'G': 9, 'T': 12}
    xs = list(10 ** rng.uniform(-15, 15, 3000))
    for p in range(-15, 16):
        xs += [10.0 ** p, float(f'1e{p}'), float(f'1e{p}') * (1 + 2e-16), 9.99 * 10.0 ** p, 5 * 10.0 ** p, 2.5 * 10.0 ** p]
        if p > -15:
            xs.append(np.nextafter(float(f'1e{p}'), 0))
    xs += [1, 10, 999, 1000, 12345, 10 ** 6, 10 ** 12]
    for x in xs:
        if x < 1e-15:
            continue
        for unit in ('s', 'Hz', 'W'):
            for k in (0, 1, 2, 3, 6):
                out = U.si(x, unit, k) if k != 1 else U.si(x, unit)
                m = re.fullmatch(r'(\d+(?:\.\d+)?)\s?([fpnuμµmkMGT]?)' + unit, out) if isinstance(out, str) else None
                if m is None:
                    check(False, 'C19 si format "mantissa prefix+unit"', f'x={x!r} -> {out!r}')
                    continue
                mant, pref = float(m.group(1)), m.group(2)
                dec = len(m.group(1).split('.')[1]) if '.' in m.group(1) else 0
                check(dec == k, 'C19 si printed precision', f'x={x!r} k={k} -> {out!r}')
                p10 = powers[pref]
                scale = float(f'1e{p10}')
                check(abs(mant * scale - x) <= (0.5 * 10.0 ** -k) * scale * (1 + 1e-9) + 4e-16 * x, 'C19 si mantissa*prefix gives back x', f'x={x!r} k={k} -> {out!r}')
                if x < 1e15:
                    um = x / scale
                    check(1 - 1e-12 <= um < 1000 * (1 + 1e-12), 'C19 si unrounded mantissa in [1,1000)', f'x={x!r} -> {out!r}')
                else:
                    check(pref == 'T', 'C19 si largest prefix', f'x={x!r} -> {out!r}')
    # the unit 'm' (metres) must not be mistaken for the milli prefix
    for x, want in ((2.0, ''), (2e-3, 'm'), (2e3, 'k'), (1550e-9, 'μ')):
        out = U.si(x, 'm')
        m = re.fullmatch(r'(\d+\.\d)\s?([fpnuμµmkMGT]?)m', out)
        check(m is not None and m.group(2).replace('µ', 'μ').replace('u', 'μ') == want, 'C19 si with unit m', f'{x} -> {out!r}')
    check(U.si(0.002, 's') == '2.0 ms' and U.si(1e9, 'Hz') == '1.0 GHz', 'C19 si documented examples')
    if has_param(U.si, 'sep'):
        check(U.si(2e-3, 's', 1, sep='') == '2.0ms', 'si sep keyword')
        check(U.si(-2e-3, 's') == '-2.0 ms', 'si negative values')


# =====================================================================================
# C18
# =====================================================================================
def _check_shortest(data, p, out, clause):
    srt = np.sort(np.asarray(data, float).ravel())
    n = len(srt)
    lag = int(np.floor(p * n / 100))
    lo, hi = out
    check(len(out) == 2 and lo <= hi, clause + ' lo<=hi', f'n={n} p={p}')
    diffs = srt[lag:] - srt[:n - lag]
    i_ok = np.where((srt[:n - lag] == lo) & (srt[lag:] == hi))[0]
    check(len(i_ok) > 0, clause + ' returns order statistics lag apart', f'n={n} p={p} lag={lag} out={out}')
    check((hi - lo) == diffs.min(), clause + ' no closer pair', f'n={n} p={p} lag={lag} out={out} min={diffs.min()}')
    check(np.count_nonzero((srt >= lo) & (srt <= hi)) >= lag + 1, clause + ' contains lag+1 samples', f'n={n} p={p}')


def c18_shortest_int():
    rng = np.random.default_rng(1801)
    cases = []
    for n in (2, 3, 5, 10, 64, 101, 1000, 4096, 10000, 2 ** 17):
        reps = 1 if n > 5000 else 6
        for _ in range(reps):
            cases.append(rng.normal(size=n))
            cases.append(rng.uniform(-1, 1, size=n))
            cases.append(np.round(rng.normal(size=n) * 4) / 4)          # quantised: many ties
            cases.append(rng.integers(0, 4, size=n).astype(float))      # few levels
            cases.append(np.round(np.sin(np.linspace(0, 20, n)) * 8))   # quantised sinusoid
            cases.append(np.full(n, 1.25))                              # all equal
    lag0 = has_param(U.shortest_int, 'tie')   # degenerate lag=0 is only supported by the extended function
    for data in cases:
        n = len(data)
        ps = [50, 99.99, 1, 10, 25, 75, 90, 99, float(rng.uniform(0.01, 99.99)), float(rng.uniform(0.01, 99.99))]
        if n > 5000:
            ps = [50, 99.99, float(rng.uniform(1, 99))]
        for p in ps:
            lag = int(np.floor(p * n / 100))
            if lag >= n:
                continue
            if lag == 0 and not lag0:
                continue
            out = U.shortest_int(data, p)
            _check_shortest(data, p, out, 'C18 shortest_int')
            if lag0 and n <= 1000:
                for tie in ('first', 'middle', 'last'):
                    _check_shortest(data, p, U.shortest_int(data, p, tie=tie), f'C18 shortest_int tie={tie}')
    out = U.shortest_int(cases[0])
    _check_shortest(cases[0], 50, out, 'C18 shortest_int default percent')
    if lag0:
        _check_shortest([3, 1, 2, 2, 5, 9], 50, U.shortest_int([3, 1, 2, 2, 5, 9], 50), 'C18 shortest_int list input')
        _check_shortest(np.arange(12.).reshape(3, 4), 50, U.shortest_int(np.arange(12.).reshape(3, 4), 50), 'C18 shortest_int flattened input')


def c18_adc():
    rng = np.random.default_rng(1802)
    sigs = []
    for n in (2, 7, 100, 1000, 10000, 2 ** 14):
        t = np.arange(n)
        sigs += [rng.normal(size=n), rng.uniform(-3, 5, size=n), np.sin(2 * pi * t / 37.3) * 2 + 0.5,
                 np.round(rng.normal(size=n) * 8) / 8]
    sigs = [s for s in sigs if np.ptp(s) > 0]
    big = rng.normal(size=2 ** 17)
    big[:5] = [40, -35, 60, -80, 100]      # outliers are excluded from the 99.99 % range
    jobs = [(s, n, o) for s in sigs for n in range(1, 13) for o in ('v', 'n')]
    jobs += [(big, n, o) for n in (1, 8, 12) for o in ('v', 'n')]
    s10 = rng.normal(size=10000); s10[0] = 1e3
    jobs += [(s10, n, o) for n in (2, 8) for o in ('v', 'n')]
    for sig, n, otype in jobs:
        vmin, vmax = U.shortest_int(sig, 99.99)
        if not vmax > vmin:
            continue
        out = ADC(sig.copy(), n=n, otype=otype)
        y = np.asarray(out.signal)
        tag = f'len={len(sig)} n={n} otype={otype}'
        check(y.shape == sig.shape, 'C18 ADC keeps length', tag)
        check(len(np.unique(y)) <= 2 ** n, 'C18 ADC at most 2^n values', tag + f' got {len(np.unique(y))}')
        step = (vmax - vmin) / (2 ** n - 1)
        inside = (sig >= vmin) & (sig <= vmax)
        if otype == 'v':
            tol = 1e-9 * max(abs(vmin), abs(vmax), 1e-300)
            check(np.all((y >= vmin - tol) & (y <= vmax + tol)), 'C18 ADC output within full-scale range', tag)
            check(np.all(np.abs(y[inside] - sig[inside]) <= step / 2 * (1 + 1e-9) + tol), 'C18 ADC inside samples move <= half step', tag)
            check(np.allclose(y[sig > vmax], vmax, rtol=0, atol=tol) and np.allclose(y[sig < vmin], vmin, rtol=0, atol=tol), 'C18 ADC saturation', tag)
            codes = (y - vmin) / step
            check(np.allclose(codes, np.round(codes), atol=1e-6), 'C18 ADC levels on the quantisation grid', tag)
        else:
            check(np.all(y == np.round(y)) and y.min() >= 0 and y.max() <= 2 ** n - 1, 'C18 ADC codes are integers in [0, 2^n-1]', tag)
            rec = y * step + vmin
            check(np.all(np.abs(rec[inside] - sig[inside]) <= step / 2 * (1 + 1e-9)), 'C18 ADC (codes) inside samples move <= half step', tag)
            check(np.all(y[sig > vmax] == 2 ** n - 1) and np.all(y[sig < vmin] == 0), 'C18 ADC (codes) saturate at end codes', tag)
    if len(big):
        vmin, vmax = U.shortest_int(big, 99.99)
        check(vmax < 10 and vmin > -10, 'C18 99.99 % range excludes outliers', f'{vmin} {vmax}')


# =====================================================================================
# C13
# =====================================================================================
def ook_true_min(d, s0, s1):
    f = lambda x: 0.5 * (Qref((d - x) / s1) + Qref(x / s0))
    g = np.linspace(0, d, 20001)
    v = f(g)
    i = int(np.argmin(v))
    lo, hi = g[max(i - 1, 0)], g[min(i + 1, len(g) - 1)]
    r = minimize_scalar(f, bounds=(lo, hi), method='bounded', options={'xatol': 1e-14 * max(d, 1e-300)})
    return min(v[i], float(r.fun))


def ppm_hard_true_min(d, s0, s1, M):
    f = lambda x: 1 - Qref((x - d) / s1) * (1 - Qref(x / s0)) ** (M - 1)
    g = np.linspace(0, d, 40001)
    v = f(g)
    i = int(np.argmin(v))
    lo, hi = g[max(i - 1, 0)], g[min(i + 1, len(g) - 1)]
    r = minimize_scalar(f, bounds=(lo, hi), method='bounded', options={'xatol': 1e-13 * max(d, 1e-300)})
    return min(v[i], float(r.fun))


def ppm_soft(d, s0, s1, M):
    return 1 - 1 / (2 * pi) ** 0.5 * quad(lambda x: (1 - Qref((d + s1 * x) / s0)) ** (M - 1) * np.exp(-x ** 2 / 2), -np.inf, np.inf)[0]


def c13_ook_ppm_formulas():
    rng = np.random.default_rng(1301)
    # ook.theory_BER(mu,s,s) = Q(mu/2s)
    for _ in range(150):
        s = 10 ** rng.uniform(-3, 1)
        mu = s * rng.uniform(0.05, 20)
        v = float(ook.theory_BER(mu, s, s))
        ref = float(Qref(mu / 2 / s))
        check(ref * (1 - 1e-9) <= v <= ref * 1.02 + 1e-300, 'C13 ook.theory_BER(mu,s,s)=Q(mu/2s)', f'mu={mu} s={s} v={v} ref={ref}')
    for _ in range(150):
        s0, s1 = 10 ** rng.uniform(-2, 0, 2)
        mu = max(s0, s1) * rng.uniform(0.05, 20)
        v = float(ook.theory_BER(mu, s0, s1))
        ref = ook_true_min(mu, s0, s1)
        g = np.linspace(0, mu, 1000)
        grid = float(np.min(0.5 * (Qref((mu - g) / s1) + Qref(g / s0))))
        check(ref * (1 - 1e-9) <= v <= grid * (1 + 1e-9) + 1e-300, 'C13 ook.theory_BER = min over thresholds', f'mu={mu} s0={s0} s1={s1} v={v} ref={ref} grid={grid}')
        check(v <= 0.5 * (1 + 1e-12), 'C13 ook.theory_BER bounded by 1/2')
    mus = np.linspace(0.01, 20, 120)
    for s0, s1 in ((1, 1), (0.5, 1.3), (2, 0.7)):
        v = ook.theory_BER(mus, s0, s1)
        check(np.all(np.diff(v) <= 1e-18), 'C13 ook.theory_BER non-increasing in mu', f'{s0} {s1}')
        each = np.array([float(ook.theory_BER(float(m), s0, s1)) for m in mus[::10]])
        check(np.array_equal(each, v[::10]), 'C13 ook.theory_BER vectorises element-wise')

    # ppm
    for _ in range(60):
        s0, s1 = 10 ** rng.uniform(-0.6, 0, 2)
        mu = max(s0, s1) * rng.uniform(0.05, 20)
        v = float(ppm.theory_BER(mu, s0, s1, 2, 'soft'))
        ref = float(Qref(mu / np.hypot(s0, s1)))
        check(abs(v - ref) <= 1e-6 * ref + 1e-12, 'C13 ppm.theory_BER soft M=2 closed form', f'mu={mu} s0={s0} s1={s1} v={v} ref={ref}')
    for M in (2, 4, 8, 16, 64, 256):
        for _ in range(12):
            s0, s1 = 10 ** rng.uniform(-0.6, 0, 2)
            mu = max(s0, s1) * rng.uniform(0.05, 20)
            vs = float(ppm.theory_BER(mu, s0, s1, M, 'soft'))
            vh = float(ppm.theory_BER(mu, s0, s1, M, 'hard'))
            check(vs <= vh * (1 + 1e-6) + 1e-12, 'C13 ppm soft <= hard', f'M={M} mu={mu} s0={s0} s1={s1} {vs} {vh}')
            bound = M / (2 * (M - 1))
            check(vs <= bound * (1 + 1e-9) and vh <= bound * (1 + 1e-9), 'C13 ppm bounded by M/(2(M-1))', f'M={M}')
            rh = ppm_hard_true_min(mu, s0, s1, M) * M / 2 / (M - 1)
            check(rh * (1 - 1e-9) - 1e-15 <= vh <= rh * 1.05 + 1e-14, 'C13 ppm hard = min over thresholds', f'M={M} mu={mu} s0={s0} s1={s1} v={vh} ref={rh}')
            rs = ppm_soft(mu, s0, s1, M) * M / 2 / (M - 1)
            check(abs(vs - rs) <= 1e-6 * rs + 1e-12, 'C13 ppm soft integral', f'M={M}')
        mus = np.linspace(0.05, 12, 40)
        for dec in ('soft', 'hard'):
            v = ppm.theory_BER(mus, 0.6, 0.9, M, dec)
            check(np.all(np.diff(v) <= 1e-12), 'C13 ppm.theory_BER non-increasing in mu', f'M={M} {dec}')
            each = np.array([float(ppm.theory_BER(float(m), 0.6, 0.9, M, dec)) for m in mus[::8]])
            check(np.allclose(each, v[::8], rtol=1e-12, atol=0), 'C13 ppm.theory_BER vectorises element-wise', f'M={M} {dec}')


def c13_estimators():
    rng = np.random.default_rng(1302)
    for _ in range(60):
        mu0 = rng.uniform(-1, 1)
        d = 10 ** rng.uniform(-1, 1)
        s0, s1 = d / rng.uniform(2, 20, 2)
        e1 = eye(**{'mu0': mu0, 'mu1': mu0 + d, 's0': s0, 's1': s1})
        e2 = eye(**{'mu0': 0.0, 'mu1': d, 's0': s0, 's1': s1})
        t1, t2 = ook.THRESHOLD_EST(e1), ook.THRESHOLD_EST(e2)
        check(mu0 <= t1 <= mu0 + d, 'C13 ook.THRESHOLD_EST in [mu0,mu1]')
        check(abs((t1 - mu0) - t2) <= 1e-9 * d + d / 999, 'C13 ook.THRESHOLD_EST depends on mu1-mu0')
        ee = eye(**{'mu0': mu0, 'mu1': mu0 + d, 's0': s0, 's1': s0})
        check(abs(ook.THRESHOLD_EST(ee) - (mu0 + d / 2)) <= d / 999, 'C13 ook.THRESHOLD_EST midpoint for equal sigmas')
        b1 = ook.BER_analizer('estimator', eye_obj=e1)
        b2 = ook.BER_analizer('estimator', eye_obj=e2)
        check(abs(b1 - b2) <= 0.05 * max(b1, b2) + 1e-300, 'C13 ook estimator depends on mu1-mu0 only')
        ref = ook_true_min(d, s0, s1)
        check(ref * (1 - 1e-9) <= b1 <= ref * 1.05 + 1e-300, 'C13 ook estimator consistent with the error integral', f'{b1} {ref}')
        M = int(2 ** rng.integers(1, 9))
        tp = ppm.THRESHOLD_EST(e1, M)
        check(mu0 <= tp <= mu0 + d, 'C13 ppm.THRESHOLD_EST in [mu0,mu1]')


def gauss_pdf(r, mu, S):
    return np.exp(-0.5 * (r - mu) ** 2 / S) / np.sqrt(2 * pi * S)


def c13_optimum_threshold():
    rng = np.random.default_rng(1303)
    extended = has_param(U.optimum_threshold, 'relative')
    n_in = 0
    for it in range(3000):
        mu0 = rng.uniform(-2, 2) if it % 2 else 0.0
        s0, s1 = 10 ** rng.uniform(-2, 0, 2)
        if it % 5 == 0:
            s1 = s0 * (1 + 10 ** rng.uniform(-9, -1) * rng.choice([-1, 1]))
        equal = extended and it % 7 == 0
        if equal:
            s1 = s0
        d = max(s0, s1) * rng.uniform(0.5, 20)
        mu1 = mu0 + d
        S0, S1 = s0 ** 2, s1 ** 2
        if it % 3 == 0:
            mod, M, Meff = 'ook', None, 2
        else:
            M = int(rng.integers(2, 257)); mod = 'ppm'; Meff = M
        L = np.log(s1 / s0 * (Meff - 1))
        if d * d + 2 * (S1 - S0) * L <= 0:
            continue
        if not extended and abs(S1 - S0) < 1e-6 * S0:
            continue   # the plain closed form has no precision left there
        r = float(U.optimum_threshold(mu0, mu1, S0, S1, mod, M))
        tag = f'mu0={mu0} mu1={mu1} S0={S0} S1={S1} {mod} M={M} r={r}'
        # (M-1) N(r;mu0,S0) = N(r;mu1,S1), compared through the logarithms (densities can underflow)
        lhs = np.log(Meff - 1) - 0.5 * (r - mu0) ** 2 / S0 - 0.5 * np.log(S0)
        rhs = -0.5 * (r - mu1) ** 2 / S1 - 0.5 * np.log(S1)
        scale = 1 + abs(0.5 * (r - mu0) ** 2 / S0) + abs(0.5 * (r - mu1) ** 2 / S1)
        rel = 1e-9 if extended else 1e-9 + 1e-14 * S0 / abs(S1 - S0)
        check(abs(lhs - rhs) <= rel * scale * 10, 'C13 optimum_threshold solves (M-1)N0=N1', tag + f' lhs={lhs} rhs={rhs}')
        # the crossing lies between the levels whenever (M-1)N0 dominates at mu0 and N1 dominates at mu1
        dom0 = np.log(Meff - 1) - 0.5 * np.log(S0) > -0.5 * d * d / S1 - 0.5 * np.log(S1) + 1e-9
        dom1 = -0.5 * np.log(S1) > np.log(Meff - 1) - 0.5 * d * d / S0 - 0.5 * np.log(S0) + 1e-9
        if dom0 and dom1:
            n_in += 1
            check(mu0 <= r <= mu1, 'C13 optimum_threshold in [mu0,mu1]', tag)
        # translation invariance
        r2 = float(U.optimum_threshold(0.0, d, S0, S1, mod, M))
        check(abs((r - mu0) - r2) <= 1e-9 * d if extended else abs((r - mu0) - r2) <= (1e-9 + 1e-13 * S0 / abs(S1 - S0)) * d * 10, 'C13 optimum_threshold depends on mu1-mu0', tag)
        if equal and mod == 'ook':
            check(abs(r - (mu0 + mu1) / 2) <= 1e-12 * (abs(mu0) + abs(mu1)), 'C13 optimum_threshold midpoint for equal sigmas', tag)
        if mod == 'ook' and abs(S1 - S0) > 1e-3 * S0:
            # minimiser of the OOK error integral
            f = lambda x: 0.5 * (Qref((mu1 - x) / s1) + Qref((x - mu0) / s0))
            if mu0 < r < mu1 and f(r) > 1e-250:
                ref = ook_true_min(d, s0, s1)
                check(f(r) <= ref * (1 + 1e-6), 'C13 optimum_threshold minimises the OOK error integral', tag)
    check(n_in > 500, 'C13 optimum_threshold sample coverage', str(n_in))
    # arrays
    S1a = np.array([0.01, 0.02, 0.05])
    ra = U.optimum_threshold(0.0, 1.0, 0.015, S1a, 'ook')
    check(np.allclose(ra, [float(U.optimum_threshold(0.0, 1.0, 0.015, float(v), 'ook')) for v in S1a], rtol=1e-12), 'C13 optimum_threshold vectorises')


def sample_rx(rng, amplified=None):
    amplify = bool(rng.integers(0, 2)) if amplified is None else amplified
    BW_el = 10 ** rng.uniform(8.5, 10.3)
    p = dict(
        ER=float(np.inf) if rng.random() < 0.3 else float(rng.uniform(3, 40)),
        amplify=amplify,
        r=float(rng.uniform(0.05, 1.0)),
        BW_el=float(BW_el),
        R_L=float(10 ** rng.uniform(1, 4)),
        T=float(rng.uniform(0, 400)) if rng.random() < 0.9 else 0.0,
        NF_el=float(rng.uniform(0, 10)) if rng.random() < 0.7 else 0,
    )
    if amplify:
        p.update(G=float(rng.uniform(0, 40)), NF=float(rng.uniform(3, 10)), BW_opt=float(BW_el * rng.uniform(1.01, 30)))
    return p


def model(P_avg, M, p, f0):
    """Independent evaluation of the receiver model."""
    er = 10 ** (p['ER'] / 10) if np.isfinite(p['ER']) else np.inf
    p_avg = 10 ** (P_avg / 10 - 3)
    p_on = p_avg * M / (1 + (M - 1) / er)
    p_off = p_on / er
    if p['amplify']:
        g, nf = 10 ** (p['G'] / 10), 10 ** (p['NF'] / 10)
        pase = nf * h * f0 * (g - 1) * p['BW_opt']
        l = p['BW_el'] / p['BW_opt']
    else:
        g, pase, l = 1, 0.0, 1
    mu_ase = p['r'] * pase * p['R_L']
    mu = p['r'] * g * np.array([p_off, p_on]) * p['R_L'] + mu_ase
    fn = 10 ** (p['NF_el'] / 10)
    th = 4 * kB * p['T'] * p['BW_el'] * p['R_L'] * fn
    sh = 2 * e * mu * p['BW_el'] * p['R_L']
    sig_ase = 2 * mu_ase * (mu - mu_ase) * l
    ase_ase = mu_ase ** 2 * (1 - l / 2) * l
    return pase, mu, mu_ase, th + sh + sig_ase + ase_ase, dict(thermal=th, shot=sh, sig_ase=sig_ase, ase_ase=ase_ase)


def c13_receiver_model():
    rng = np.random.default_rng(1304)
    f0 = 193.4145e12
    wl = c / f0
    for it in range(1500):
        p = sample_rx(rng)
        P = float(rng.uniform(-50, 0))
        if it % 2:
            mod, M = 'ook', None; Meff = 2
        else:
            Meff = M = int(2 ** rng.integers(1, 9)); mod = 'ppm'
        pase, mu, mu_ase, S, comp = model(P, Meff, p, f0)
        kw = dict(amplify=p['amplify'], wavelength=wl, G=p.get('G'), NF=p.get('NF'), BW_opt=p.get('BW_opt'))
        got_pase = U.p_ase(**kw)
        check(abs(got_pase - pase) <= 1e-9 * pase, 'C13 p_ase = nf*h*f0*(g-1)*BW_opt', f'{p} {got_pase} {pase}')
        gmu, gase = U.average_voltages(P, mod, M, ER=p['ER'], r=p['r'], R_L=p['R_L'], **kw)
        check(np.allclose(gmu, mu, rtol=1e-9, atol=0) and abs(gase - mu_ase) <= 1e-9 * mu_ase, 'C13 average_voltages levels', f'{p} P={P} {mod} M={M} {gmu} {mu}')
        check(gmu[0] <= gmu[1], 'C13 OFF level <= ON level')
        gS = U.noise_variances(P, mod, M, ER=p['ER'], r=p['r'], BW_el=p['BW_el'], R_L=p['R_L'], T=p['T'], NF_el=p['NF_el'], **kw)
        check(np.allclose(gS, S, rtol=1e-9, atol=0), 'C13 noise_variances = thermal+shot+sig-ase+ase-ase', f'{p} P={P} {mod} M={M} {gS} {S}')
        if has_param(U.noise_variances, 'return_components'):
            S2, parts = U.noise_variances(P, mod, M, ER=p['ER'], r=p['r'], BW_el=p['BW_el'], R_L=p['R_L'], T=p['T'], NF_el=p['NF_el'], return_components=True, **kw)
            check(np.array_equal(S2, gS), 'noise_variances return_components keeps the total')
            for key in comp:
                check(np.allclose(parts[key], comp[key], rtol=1e-9, atol=0), f'noise_variances component {key}')
        if has_param(U.p_ase, 'f0') and p['amplify']:
            check(abs(U.p_ase(True, G=p['G'], NF=p['NF'], BW_opt=p['BW_opt'], f0=f0) - pase) <= 1e-12 * pase, 'p_ase f0 keyword')
    # defaults: 1550 nm carrier, unamplified thermal/shot only
    pase = U.p_ase(True, G=20, NF=5, BW_opt=50e9)
    check(abs(pase - 10 ** 0.5 * h * (c / 1550e-9) * 99 * 50e9) <= 1e-9 * pase, 'C13 p_ase default wavelength')
    check(U.p_ase(False) == 0, 'C13 p_ase without amplifier')
    S = U.noise_variances(-20, 'ook', amplify=False)
    mu, _ = U.average_voltages(-20, 'ook', amplify=False)
    check(np.allclose(mu, [0, 2e-5 * 50]) and np.allclose(S, 4 * kB * 300 * 5e9 * 50 + 2 * e * mu * 5e9 * 50, rtol=1e-9), 'C13 unamplified defaults')


def c13_utils_theory_BER():
    rng = np.random.default_rng(1305)
    f0 = 193.4145e12
    n_checked = 0
    for it in range(700):
        p = sample_rx(rng)
        P = float(rng.uniform(-50, 0))
        kind = it % 3
        if kind == 0:
            mod, M, dec = 'ook', None, None; Meff = 2
        else:
            Meff = M = int(2 ** rng.integers(1, 9)); mod = 'ppm'; dec = 'hard' if kind == 1 else 'soft'
        _, mu, _, S, _ = model(P, Meff, p, f0)
        if S.min() <= 0:
            continue
        s0, s1 = np.sqrt(S)
        d = mu[1] - mu[0]
        v = float(U.theory_BER(P, mod, M, dec, **p))
        tag = f'P={P} {mod} M={M} {dec} {p} v={v}'
        if mod == 'ook':
            ref = ook_true_min(d, s0, s1)
        elif dec == 'hard':
            ref = ppm_hard_true_min(d, s0, s1, M) * M / 2 / (M - 1)
        else:
            ref = ppm_soft(d, s0, s1, M) * M / 2 / (M - 1)
        if dec == 'soft':
            check(abs(v - ref) <= 1e-6 * ref + 1e-12, 'C13 utils.theory_BER = error integral on the model (soft)', tag + f' ref={ref}')
        else:
            check(v >= ref * (1 - 1e-9) - 1e-15, 'C13 utils.theory_BER never below the minimum of the error integral', tag + f' ref={ref}')
            if ref > 1e-30:
                check(v <= ref * 1.01 + 1e-14, 'C13 utils.theory_BER = error integral on the model', tag + f' ref={ref}')
        check(v <= Meff / (2 * (Meff - 1)) * (1 + 1e-9), 'C13 utils.theory_BER bounded')
        n_checked += 1
        # explicit (relative) threshold
        if dec != 'soft' and it % 4 == 0:
            t = float(rng.uniform(0.05, 0.95))
            x = t * mu[1] + (1 - t) * mu[0]
            vt = float(U.theory_BER(P, mod, M, dec, t, **p))
            if mod == 'ook':
                rt = 0.5 * (Qref((mu[1] - x) / s1) + Qref((x - mu[0]) / s0))
            else:
                rt = (1 - Qref((x - mu[1]) / s1) * (1 - Qref((x - mu[0]) / s0)) ** (M - 1)) * M / 2 / (M - 1)
            check(abs(vt - rt) <= 1e-6 * rt + 1e-13, 'C13 utils.theory_BER with explicit threshold', tag + f' t={t} {vt} {rt}')
            check(vt >= v * (1 - 1e-9) - 1e-15 or ref < 1e-30, 'C13 optimum threshold is not worse than an explicit one', tag)
    check(n_checked > 500, 'C13 utils.theory_BER coverage', str(n_checked))

    # soft never worse than hard
    for it in range(40):
        p = sample_rx(rng)
        M = int(2 ** rng.integers(1, 9))
        P = float(rng.uniform(-50, -5))
        if p['T'] == 0:
            continue
        vs = float(U.theory_BER(P, 'ppm', M, 'soft', **p))
        vh = float(U.theory_BER(P, 'ppm', M, 'hard', **p))
        check(vs <= vh * (1 + 1e-6) + 1e-12, 'C13 utils.theory_BER soft <= hard', f'{p} M={M} P={P} {vs} {vh}')

    # monotone in received power, element-wise vectorisation
    Pg = np.arange(-50, 0.01, 0.25)
    Pfine = np.linspace(-33, -32, 201)
    for it in range(36):
        p = sample_rx(rng, amplified=bool(it % 2))
        if p['T'] == 0 and not np.isfinite(p['ER']):
            p['T'] = 290.0
        kind = it % 3
        mod, M, dec = ('ook', None, None) if kind == 0 else ('ppm', int(2 ** rng.integers(1, 9)), 'hard' if kind == 1 else 'soft')
        for grid in (Pg, Pfine):
            v = U.theory_BER(grid, mod, M, dec, **p)
            check(v.shape == grid.shape, 'C13 utils.theory_BER vectorises')
            slack = 1e-12 if dec == 'soft' else 0.0
            big = (v[:-1] > 1e-12 if dec == 'soft' else v[:-1] > 1e-290) & (v[:-1] < 0.4)
            check(np.all(np.diff(v) <= slack), 'C13 utils.theory_BER non-increasing with power', f'{mod} M={M} {dec} {p}')
            check(np.all(np.diff(v)[big] < 0), 'C13 utils.theory_BER strictly decreasing with power', f'{mod} M={M} {dec} {p}')
        each = np.array([float(U.theory_BER(float(x), mod, M, dec, **p)) for x in Pg[::40]])
        check(np.allclose(each, U.theory_BER(Pg, mod, M, dec, **p)[::40], rtol=1e-12, atol=0), 'C13 utils.theory_BER element-wise')

    # defaults of the documented example
    x = np.linspace(-40, -20, 9)
    v = U.theory_BER(P_avg=x, modulation='ook')
    mu = 2 * 10 ** (x / 10 - 3) * 50
    S1 = 4 * kB * 300 * 5e9 * 50 + 2 * e * mu * 5e9 * 50
    S0 = 4 * kB * 300 * 5e9 * 50
    ref = np.array([ook_true_min(m, np.sqrt(S0), np.sqrt(a)) for m, a in zip(mu, S1)])
    check(np.all(v >= ref * (1 - 1e-9)) and np.all(v <= ref * 1.01 + 1e-300), 'C13 utils.theory_BER default receiver', f'{v} {ref}')
    if has_param(U.theory_BER, 'wavelength'):
        p = dict(amplify=True, G=25, NF=5, BW_opt=40e9)
        a = float(U.theory_BER(-35, 'ook', wavelength=c / 193.4145e12, **p))
        b = float(U.theory_BER(-35, 'ook', **p))
        check(abs(a - b) <= 1e-9 * b, 'theory_BER wavelength keyword')
        check(float(U.theory_BER(-30, 'ppm', 4)) == float(U.theory_BER(-30, 'ppm', 4, 'soft')), 'theory_BER default decision')


def main():
    print('checking', os.path.dirname(opticomlib.__file__))
    for fun in (c19_units, c19_Q_gaus_rcos, c19_dec2bin, c19_str2array, c19_si,
                c18_shortest_int, c18_adc,
                c13_ook_ppm_formulas, c13_estimators, c13_optimum_threshold, c13_receiver_model, c13_utils_theory_BER):
        try:
            fun()
        except SystemExit:
            raise
        except Exception as ex:
            import traceback
            FAILS.append(f'{fun.__name__}: unexpected exception {ex!r}\n' + traceback.format_exc())
        print(fun.__name__, 'done,', len(FAILS), 'failures so far', flush=True)
    finish()


if __name__ == '__main__':
    main()
