"""entry point: python -m ocv Cxx [--tier quick|thorough] [--root /repo] [--replay file]"""
from __future__ import annotations

import argparse
import importlib
import os
import sys
import time
import traceback

from .core import Ctx, finish
from .srcmodel import AnalysisError, Package


def analyse(prop, root, tier, sources=None):
    """run one property's rules on a package (optionally with in-memory source overrides)"""
    pkg = Package(root, sources=sources)
    mod = importlib.import_module(f"ocv.props.{prop.lower()}")
    ctx = Ctx(pkg, prop, tier)
    from .absint import Interp
    from .core import UNKNOWN, VIOLATION
    Interp.UNHANDLED.clear()
    try:
        mod.run(ctx)
    except AnalysisError as ex:
        ctx.unknown(f"{prop}.anchor", None, None, "anchor", str(ex))
    if os.environ.get("OCV_DEMOTE_PHI") == "1":
        for r in ctx.results:
            if r.status == VIOLATION and ("phi<" in r.construct or "phi<" in r.msg):
                r.status = UNKNOWN
    if Interp.UNHANDLED:
        # never report a violation for a function the interpreter could only partly read: say so instead (exit 2, not 1)
        partly = {q for _k, q, _t, _l in Interp.UNHANDLED} | {t for _k, _q, t, _l in Interp.UNHANDLED}
        kinds = sorted({f"{k} at {q}:{l}" for k, q, _t, l in Interp.UNHANDLED})
        for r in ctx.results:
            if r.status == VIOLATION and r.func in partly:
                r.status = UNKNOWN
                r.msg = f"not decided: the function uses a statement form the interpreter does not model ({'; '.join(kinds[:3])}); would have reported: {r.msg}"[:600]
        ctx.unknown(f"{prop}.syntax", None, None, "unmodelled statement", "; ".join(kinds[:5]))
        Interp.UNHANDLED.clear()
    return mod, ctx


def main(argv=None):
    ap = argparse.ArgumentParser(prog="vcheck")
    ap.add_argument("prop")
    ap.add_argument("--tier", default=os.environ.get("VERIF_TIER", "quick"), choices=["quick", "thorough"])
    ap.add_argument("--root", default="/repo")
    ap.add_argument("--replay", default=None)
    ap.add_argument("--no-evidence", action="store_true")
    a = ap.parse_args(argv)
    prop = a.prop.upper()
    t0 = time.time()
    seed = int(os.environ.get("VERIF_SEED", "0") or 0)
    try:
        mod, ctx = analyse(prop, a.root, a.tier)
        selftest = None
        if a.tier == "thorough":
            from .selftest import run_selftest
            selftest = run_selftest(prop, a.root, seed)
        if a.replay:
            import json
            with open(a.replay) as fh:
                rp = json.load(fh)
            ctx.results = [r for r in ctx.results if r.rule == rp.get("rule") and r.func == rp.get("function")
                           and r.construct == " ".join(rp.get("construct", "").split())] or ctx.results
        code, _ = finish(ctx, t0, mod.EXPLANATION, mod.TRUSTED,
                         f"./vcheck {prop} --tier {a.tier}", getattr(mod, "LEVEL", "other"), seed, selftest,
                         getattr(mod, "extra_evidence", lambda c: None)(ctx), write_evidence=not a.no_evidence)
        return code
    except AnalysisError as ex:
        print(f"ANALYSIS-ERROR property={prop} {ex}")
        return 2
    except Exception:  # never let a traceback look like a violation
        tb = traceback.format_exc().strip().splitlines()
        print(f"ANALYSIS-ERROR property={prop} internal error: {tb[-1][:300]}")
        for line in tb[-7:-1]:
            print("    " + line[:200])
        return 2


if __name__ == "__main__":
    sys.exit(main())
