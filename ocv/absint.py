"""Value-form abstract interpretation of one function (with bounded inlining of package callees).

Domain: every local holds a symbolic value (forms.Form and the small structured values next
to it).  Straight-line code substitutes definitions; at a merge two different values become
a `phi` atom; variables assigned in a loop are havocked to `loop` atoms.  Branch conditions
that the known facts decide (None-ness, isinstance, constant strings/bools supplied as
*assumptions* by a rule) prune the dead branch, everything else analyses both branches.
Nothing is executed: this is dataflow over the syntax tree.
"""
from __future__ import annotations

import ast
from fractions import Fraction

from .forms import (Const, DictV, Form, SliceV, TupleV, as_form, canon_call, fpow, mk_attr, mk_fn, mk_idx,
                    vkey, F0, F1, const_float)
from .srcmodel import PKG, AnalysisError, FuncInfo, Package, src_of

SIGNAL_CLASSES = ("electrical_signal", "optical_signal", "binary_sequence", "eye")

# canonical short names for library callables
_FN_NAMES = {
    "numpy.fft.fft": "fft", "numpy.fft.ifft": "ifft", "numpy.fft.fftshift": "fftshift",
    "numpy.fft.ifftshift": "ifftshift", "numpy.fft.fftfreq": "fftfreq",
    "scipy.special.erfc": "erfc", "numpy.absolute": "abs", "numpy.abs": "abs", "abs": "abs",
    "numpy.conj": "conj", "numpy.conjugate": "conj", "numpy.power": "pow",
    "math.sqrt": "sqrt", "math.exp": "exp", "math.cos": "cos", "math.sin": "sin", "math.log10": "log10",
    "numpy.lib.scimath.sqrt": "sqrt",
}
_IDENTITY_FNS = {"numpy.array", "numpy.asarray", "numpy.asanyarray", "numpy.ascontiguousarray", "numpy.copy",
                 "numpy.float64", "float", "numpy.complex128", "complex", "numpy.atleast_1d"}
_IDENTITY_METHODS = {"copy", "astype", "view", "item"}
_ARRAY_METHODS_AS_FN = {"conj": "conj", "conjugate": "conj", "sum": "sum", "mean": "mean", "min": "min", "max": "max",
                        "argmin": "argmin", "argmax": "argmax", "any": "any", "all": "all", "clip": "clip",
                        "reshape": "reshape", "ravel": "ravel", "std": "std", "var": "var", "round": "round",
                        "cumsum": "cumsum", "flatten": "ravel", "tolist": "tolist", "squeeze": "squeeze"}
_ATTR_AS_FN = {"real": "real", "imag": "imag", "T": "transpose"}


class ObjV:
    """an instance of a package class built inside the analysed code (fields are mutable)."""

    def __init__(self, cls, fields, origin=None, name=None):
        self.cls = cls          # class name
        self.fields = dict(fields)
        self.origin = origin    # ast node of the constructing call
        self.name = name        # parameter name when the object stands for an argument

    def key(self):
        return ("obj", self.cls, tuple(sorted((k, vkey(v)) for k, v in self.fields.items())))

    def __eq__(self, o):
        return isinstance(o, ObjV) and self.key() == o.key()

    def __hash__(self):
        return hash(self.key())

    def copy(self):
        return ObjV(self.cls, dict(self.fields), self.origin, self.name)

    def __repr__(self):
        return f"{self.cls}({', '.join(f'{k}={v!r}' for k, v in sorted(self.fields.items()))})"


class VecV:
    """a short numeric array given element by element (np.array([a, b])): arithmetic is element-wise"""

    def __init__(self, items):
        self.items = list(items)

    def key(self):
        return ("vec", tuple(vkey(i) for i in self.items))

    def __eq__(self, o):
        return isinstance(o, VecV) and self.key() == o.key()

    def __hash__(self):
        return hash(self.key())

    def __repr__(self):
        return "vec[" + ", ".join(map(repr, self.items)) + "]"

    def map(self, f):
        return VecV([f(i) for i in self.items])


def vec_binop(fn, l, r):
    if isinstance(l, VecV) and isinstance(r, VecV):
        if len(l.items) != len(r.items):
            return None
        return VecV([fn(a, b) for a, b in zip(l.items, r.items)])
    if isinstance(l, VecV):
        return VecV([fn(a, r) for a in l.items])
    return VecV([fn(l, b) for b in r.items])


class FuncV:
    def __init__(self, fi: FuncInfo, env=None, bound_self=None):
        self.fi = fi
        self.env = env
        self.bound_self = bound_self

    def key(self):
        return ("func", self.fi.qualname)

    def __eq__(self, o):
        return isinstance(o, FuncV) and self.key() == o.key()

    def __hash__(self):
        return hash(self.key())

    def __repr__(self):
        return f"<fn {self.fi.qualname}>"


class ClassRef:
    def __init__(self, name):
        self.name = name

    def key(self):
        return ("classref", self.name)

    def __eq__(self, o):
        return isinstance(o, ClassRef) and self.name == o.name

    def __hash__(self):
        return hash(self.key())

    def __repr__(self):
        return f"<class {self.name}>"


NONE = Const(None)
TRUE = Const(True)
FALSE = Const(False)


class Facts:
    """three-valued knowledge about symbolic values, keyed by value key"""

    def __init__(self, other=None):
        self.none = dict(other.none) if other else {}        # key -> True (is None) / False (is not None)
        self.inst = dict(other.inst) if other else {}        # key -> frozenset of class names it is an instance of
        self.notinst = dict(other.notinst) if other else {}  # key -> frozenset of class names it is NOT
        self.truth = dict(other.truth) if other else {}      # key -> bool (truthiness)
        self.eq = dict(other.eq) if other else {}            # key -> Const it equals

    def copy(self):
        return Facts(self)


class CallRec:
    __slots__ = ("node", "callee", "args", "kwargs", "conds", "fi", "depth", "result", "facts")

    def __init__(self, node, callee, args, kwargs, conds, fi, depth, facts):
        self.node, self.callee, self.args, self.kwargs = node, callee, args, kwargs
        self.conds, self.fi, self.depth, self.facts = conds, fi, depth, facts
        self.result = None

    def arg(self, i, name=None, default=None):
        if i is not None and i < len(self.args):
            return self.args[i]
        if name is not None and name in self.kwargs:
            return self.kwargs[name]
        return default


class Outcome:
    """one way out of a function: return value or raised exception, with the path conditions"""
    __slots__ = ("kind", "value", "conds", "node", "exc")

    def __init__(self, kind, value, conds, node, exc=None):
        self.kind, self.value, self.conds, self.node, self.exc = kind, value, conds, node, exc

    def __repr__(self):
        c = " & ".join(("" if pol else "not ") + f"({s})" for s, pol in self.conds)
        if self.kind == "return":
            return f"return {self.value!r}  [{c}]"
        return f"raise {self.exc}  [{c}]"


class _Flow(Exception):
    pass


class _ExprRaise(Exception):
    """an expression that raises on this path (integer division by a concrete zero): the statement it is part of becomes a raising exit"""

    def __init__(self, exc):
        super().__init__(exc)
        self.exc = exc


def _python_int(v):
    """a plain python integer (a constant, len(..), x.size): `//` and `%` by zero RAISE for these (numpy arrays and scalars only warn)"""
    if not isinstance(v, Form):
        return False
    q = v.rational()
    if q is not None:
        return q.denominator == 1
    a = v.single_atom()
    if a is None or v != Form.atom(a):
        return False
    return (a[0] == "sym" and a[1].endswith(".size")) or (a[0] == "attr" and a[2] == "size") or (a[0] == "fn" and a[1] in ("len", "siglen", "size") and not a[3])


class State:
    def __init__(self, env=None, facts=None, conds=None):
        self.env = env if env is not None else {}
        self.facts = facts if facts is not None else Facts()
        self.conds = conds if conds is not None else []
        self.live = True

    def fork(self):
        env = {}
        for k, v in self.env.items():
            env[k] = v
        return State(env, self.facts.copy(), list(self.conds))


def deep_copy_value(v, memo=None):
    if isinstance(v, ObjV):
        return ObjV(v.cls, {k: deep_copy_value(x) for k, x in v.fields.items()}, v.origin, v.name)
    if isinstance(v, TupleV):
        return TupleV([deep_copy_value(x) for x in v.items], v.kind)
    if isinstance(v, DictV):
        return DictV([(k, deep_copy_value(x)) for k, x in v.items])
    return v


def fork_env(env):
    """objects are mutable: a fork must not share them"""
    memo = {}

    def cp(v):
        if isinstance(v, (ObjV, DictV)) or (isinstance(v, TupleV) and v.kind == "list"):
            i = id(v)
            if i not in memo:
                if isinstance(v, ObjV):
                    n = ObjV(v.cls, {}, v.origin, v.name)
                    memo[i] = n
                    n.fields = {k: cp(x) for k, x in v.fields.items()}
                elif isinstance(v, DictV):
                    n = DictV([])
                    memo[i] = n
                    n.items = [(k, cp(x)) for k, x in v.items]
                else:
                    n = TupleV([], "list")
                    memo[i] = n
                    n.items = [cp(x) for x in v.items]
            return memo[i]
        return v
    return {k: cp(v) for k, v in env.items()}


def _is_sequence_value(v):
    """sequence in the sense of structural pattern matching (tuple/list-like, not a string): True / False / None"""
    if isinstance(v, TupleV):
        return v.kind in ("tuple", "list")
    if isinstance(v, (Const, DictV, ObjV, FuncV, ClassRef, SliceV)):
        return False
    if isinstance(v, Form):
        if v.const_value() is not None:
            return False
        a = v.single_atom()
        if a is not None and ((a[0] == "sym" and a[1].endswith(".shape")) or (a[0] == "fn" and a[1] == "shape") or (a[0] == "attr" and a[2] == "shape")):
            return True          # the shape of an array is a tuple
    return None


def _lead_dim(v):
    """leading dimension of an array-valued form when it is a literal: k*randn(4, N) -> 4"""
    if not isinstance(v, Form) or len(v.terms) != 1:
        return None
    dims = set()
    for mono in v.terms:
        for a, _e in mono:
            if a[0] == "fn" and a[1].split(".")[-1] in ("randn", "rand", "zeros", "ones", "empty", "standard_normal", "normal"):
                shp = None
                if a[1].split(".")[-1] in ("randn", "rand") and len(a[2]) >= 2:
                    shp = a[2][0]
                elif a[2] and isinstance(a[2][-1], TupleV) and len(a[2][-1].items) >= 2:
                    shp = a[2][-1].items[0]
                elif isinstance(dict(a[3]).get("size"), TupleV):
                    shp = dict(a[3])["size"].items[0]
                q = shp.rational() if isinstance(shp, Form) else None
                if q is not None and q.denominator == 1:
                    dims.add(int(q))
    return dims.pop() if len(dims) == 1 else None


_API_SNAPSHOT = None


def _is_new_param(fi, name):
    """True if the function existed at the pinned commit and did not have this parameter then"""
    global _API_SNAPSHOT
    if _API_SNAPSHOT is None:
        import json
        import os
        try:
            with open(os.path.join(os.path.dirname(os.path.abspath(__file__)), "api_snapshot.json")) as fh:
                _API_SNAPSHOT = json.load(fh)
        except Exception:
            _API_SNAPSHOT = {}
    known = _API_SNAPSHOT.get(getattr(fi, "qualname", None))
    return known is not None and name not in known["params"]


def _renamed_from(fi, i, names):
    """the documented name of positional slot i when the current name is new and the documented one no longer sits in a positional slot"""
    _is_new_param(fi, "")
    known = _API_SNAPSHOT.get(getattr(fi, "qualname", None))
    if known is None:
        return None
    off = 1 if names and names[0] in ("self", "cls") and (not known["params"] or known["params"][0] not in ("self", "cls")) else 0
    j = i - off
    if 0 <= j < len(known["params"]):
        old = known["params"][j]
        a_ = fi.node.args
        star = {x.arg for x in (a_.vararg, a_.kwarg) if x is not None}
        if old not in names and old not in star:
            return old
    return None


def _api_snapshot():
    _is_new_param(None, "")
    return _API_SNAPSHOT


def _documented_not_none(fi, name):
    """True if, at the pinned commit, the parameter existed and its default was not None (the documented calls pass a value)"""
    _is_new_param(fi, name)
    known = _API_SNAPSHOT.get(getattr(fi, "qualname", None))
    return known is not None and name in known["params"] and name not in known["none_default"]


def _is_static(node):
    return any(isinstance(d, ast.Name) and d.id == "staticmethod" for d in getattr(node, "decorator_list", []))


_OPERATOR_EXPR = {
    "add": "_op0 + _op1", "sub": "_op0 - _op1", "mul": "_op0 * _op1", "truediv": "_op0 / _op1", "floordiv": "_op0 // _op1", "mod": "_op0 % _op1",
    "pow": "_op0 ** _op1", "matmul": "_op0 @ _op1", "and_": "_op0 & _op1", "or_": "_op0 | _op1", "xor": "_op0 ^ _op1", "lshift": "_op0 << _op1",
    "rshift": "_op0 >> _op1", "neg": "-_op0", "pos": "+_op0", "invert": "~_op0", "inv": "~_op0", "not_": "not _op0", "lt": "_op0 < _op1", "le": "_op0 <= _op1",
    "gt": "_op0 > _op1", "ge": "_op0 >= _op1", "eq": "_op0 == _op1", "ne": "_op0 != _op1", "is_": "_op0 is _op1", "is_not": "_op0 is not _op1",
    "contains": "_op1 in _op0", "getitem": "_op0[_op1]", "truth": "bool(_op0)", "abs": "abs(_op0)", "index": "_op0",
}


class Interp:
    UNHANDLED: list = []        # (statement kind, function, top-level function, line) of every statement no handler exists for
    """analyse one entry function"""

    MAX_DEPTH = 4

    def __init__(self, pkg: Package, assumptions=None, param_classes=None, inline=True, inline_only=None,
                 no_inline=(), self_class=None, param_values=None, valuation=None):
        self.pkg = pkg
        self.assumptions = assumptions or {}      # sym name -> python constant / 'none' / 'notnone' / ('inst', cls)
        self.param_classes = param_classes or {}  # param name -> class name
        self.param_values = param_values or {}    # param name -> abstract value
        self.valuation = list(valuation or [])     # [(Form, number)]: assumed numeric value of a sub-term (e.g. a length)
        self.cmp_points: set = set()               # numeric values met in decided order/equality comparisons
        self.fit_log: list = []                    # (call node, args, kwargs, depth) of every estimator.fit(...) met, in order
        self.views: dict = {}                      # (function, local name) -> (viewed Name node, start, stop): v = a[lo:hi]
        self.aliases: dict = {}                    # (function, local name) -> Attribute node `obj.attr` the local is another name of
        self._tuple_elts: dict = {}                # (function, local name) -> element expressions of the literal tuple the local was bound to
        self._gbusy: set = set()
        self.keep_astype = False                   # keep x.astype(t) visible in value forms instead of treating it as the identity
        self.unroll_literal_loops = True           # execute `for row in <literal table>` row by row instead of abstracting the loop
        self.stop_at_calls: set = set()            # dotted callee names at which a top-level path is cut (counts as a return)
        self._leaf_cache = {}
        self.finite_domain = False                 # the property is about finite samples: nan_to_num is the identity, isfinite(...) holds
        self.broadcasts = []                       # (values, shape) of every broadcast_to seen: the values pass through unchanged, the shape is kept for shape clauses
        self.tag_draws = False                     # number the random draws so that two calls with equal arguments stay two values
        self._draws = 0
        self.domain_pred = None                    # optional callable(callee, [arg values]) -> True / False / None: a predicate decided by the property's domain
        self.domain_sign = None                    # optional callable(Form) -> +1 / -1 / 0 / None: sign of a difference known from the property's domain
        self.falsy_arith: list = []                # (fi, node, operand, depth): arithmetic on a value assumed falsy (absent optional parameter)
        self.nested_raises: list = []              # raise outcomes inside inlined callees that also have returning paths
        self.keep_cond_forms = False               # record the value form of every undecided `if` test (by its source text)
        self.cond_forms: dict = {}
        self.inline = inline
        self.inline_only = inline_only
        self.no_inline = set(no_inline)
        self.self_class = self_class
        self.calls: list[CallRec] = []
        self.outcomes: list[Outcome] = []
        self.assign_log: list = []   # (fi, node, target name, value, conds)
        self.store_log: list = []    # (fi, node, target description, value, conds) subscript/attribute stores
        self.notes: list = []
        self._phi = 0
        self._stack: list = []
        self.final_env = None
        self.loop_envs = {}          # loop node -> (env at head, env at end of body)
        self.snapshots: dict = {}    # depth-0 Assign stmt -> env just before it
        self.none_arith: list = []   # (fi, node, operand): arithmetic on a value known to be None
        self.bad_attrs: list = []    # (fi, node, base value, attr): ndarray-kinded receiver without that attribute

    # ------------------------------------------------------------------ entry
    def run(self, fi: FuncInfo, args=None, kwargs=None):
        st = State()
        self._bind_params(fi, st, args or [], kwargs or {}, top=True)
        # documented calls pass a value for every parameter whose default was not None at the pinned commit: a later change of such a
        # default to None ("use the configured value") opens no new case for the properties
        a_ = fi.node.args if not isinstance(fi.node, ast.Lambda) else None
        if a_ is not None:
            for x_ in a_.posonlyargs + a_.args + a_.kwonlyargs:
                nm = x_.arg
                v_ = st.env.get(nm)
                if nm not in self.assumptions and isinstance(v_, Form) and v_.sym_name() == nm and _documented_not_none(fi, nm):
                    st.facts.none.setdefault(v_.key(), False)
                # a parameter documented as `int` (and nothing else) is an integer in the calls the properties are stated for
                if nm not in self.assumptions and nm not in self.param_values and nm not in self.param_classes and isinstance(v_, Form) and v_.sym_name() == nm \
                        and isinstance(x_.annotation, ast.Name) and x_.annotation.id == "int" and st.facts.none.get(v_.key()) is not True:
                    st.facts.inst.setdefault(v_.key(), frozenset({"int"}))
        self._seed_facts(st)
        # a nested function analysed on its own sees the helper functions its enclosing function defined before it (plain,
        # unconditional `def`s of the enclosing body; their own free names resolve through the same scopes)
        par = getattr(fi, "parent", None)
        if par is not None and not isinstance(par.node, ast.Lambda):
            for s_ in par.node.body:
                if s_ is fi.node:
                    break
                if isinstance(s_, ast.FunctionDef) and not s_.decorator_list and s_.name not in st.env:
                    q = next((c for c in fi.module.funcs.values() if c.node is s_), None)
                    if q is not None:
                        st.env[s_.name] = FuncV(q, {})
        outs = self._exec_function(fi, st, depth=0)
        self.outcomes = outs
        return outs

    def call_funcv(self, fv, args, kwargs=None):
        """evaluate a function value (lambda / nested def with its closure) on abstract arguments"""
        st = State({}, Facts(), [])
        rec = CallRec(fv.fi.node, PKG + "." + fv.fi.qualname, list(args), kwargs or {}, [], fv.fi, 0, st.facts)
        self._stack.append((fv.fi.parent or fv.fi, []))
        try:
            return self._call_func(fv.fi, list(args), kwargs or {}, st, fv.fi.parent or fv.fi, 0, fv.fi.node, rec, closure=fv.env, bound_self=fv.bound_self)
        finally:
            self._stack.pop()

    def _seed_facts(self, st):
        for f, val in self.valuation:
            st.facts.eq[f.key()] = val
            st.facts.none[f.key()] = isinstance(val, Const) and val.v is None
        items = []
        for name, a in self.assumptions.items():
            if isinstance(a, list):
                items.extend((name, x) for x in a)
            else:
                items.append((name, a))
        for name, a in items:
            k = Form.sym(name).key()
            if a == "none":
                st.facts.none[k] = True
            elif a == "notnone":
                st.facts.none[k] = False
            elif isinstance(a, tuple) and a and a[0] == "inst":
                st.facts.inst[k] = frozenset(a[1:])
                st.facts.none[k] = False
            elif isinstance(a, tuple) and a and a[0] == "notinst":
                st.facts.notinst[k] = frozenset(a[1:])
            elif isinstance(a, tuple) and a and a[0] == "truth":
                st.facts.truth[k] = bool(a[1])
                if a[1]:
                    st.facts.none[k] = False       # a truthy value is not None
            else:
                st.facts.eq[k] = Const(a) if not isinstance(a, (int, float)) or isinstance(a, bool) else a
                if a is None:
                    st.facts.none[k] = True
                else:
                    st.facts.none[k] = False
                    st.facts.truth[k] = bool(a)

    def _bind_params(self, fi, st, args, kwargs, top=False, bound_self=None):
        node = fi.node
        a = node.args
        names = [x.arg for x in a.posonlyargs + a.args]
        defaults = [None] * (len(names) - len(a.defaults)) + list(a.defaults)
        argv = list(args)
        if bound_self is not None and not _is_static(node):
            argv = [bound_self] + argv
        used_kw = set()
        renamed_old = set()
        for i, nm in enumerate(names):
            if i < len(argv):
                st.env[nm] = argv[i]
            elif nm in kwargs:
                st.env[nm] = kwargs[nm]
                used_kw.add(nm)
            elif top and _is_new_param(fi, nm) and _renamed_from(fi, i, names) is not None and nm not in self.param_values and nm not in self.param_classes and nm not in self.assumptions:
                # the same positional slot under a new name (the old spelling kept as a deprecated keyword): it is the documented parameter
                st.env[nm] = Form.sym(_renamed_from(fi, i, names))
                renamed_old.add(_renamed_from(fi, i, names))
            elif top and defaults[i] is not None and _is_new_param(fi, nm) and nm not in self.param_values and nm not in self.param_classes and nm not in self.assumptions:
                # a parameter the documented API (snapshot of the pinned commit) does not have: an option added later.  The
                # properties are stated for the calls that existed before it did, so it keeps its default (like keyword-only options)
                st.env[nm] = self._eval_default(fi, defaults[i])
            elif top:
                st.env[nm] = self._top_param(fi, nm, defaults[i])
            elif defaults[i] is not None:
                st.env[nm] = self._eval_default(fi, defaults[i])
            else:
                st.env[nm] = Form.sym(nm)
        for kwo, d in zip(a.kwonlyargs, a.kw_defaults):
            nm = kwo.arg
            if nm in kwargs:
                st.env[nm] = kwargs[nm]
                used_kw.add(nm)
            elif top and nm in renamed_old and d is not None:
                st.env[nm] = self._eval_default(fi, d)       # the deprecated spelling of a renamed positional parameter: not used by the documented calls
            elif top and (nm in self.param_values or nm in self.param_classes or nm in self.assumptions or d is None):
                st.env[nm] = self._top_param(fi, nm, d)
            elif d is not None:
                # a keyword-only option keeps its default unless a rule says otherwise: the properties are stated for the
                # calls that existed before the option did
                st.env[nm] = self._eval_default(fi, d)
            else:
                st.env[nm] = Form.sym(nm)
        if a.vararg:
            st.env[a.vararg.arg] = TupleV(argv[len(names):]) if not top else Form.sym("*" + a.vararg.arg)
        if a.kwarg:
            extra = [(Const(k), v) for k, v in kwargs.items() if k not in used_kw and k not in names]
            if top and a.kwarg.arg in self.param_values:
                st.env[a.kwarg.arg] = self.param_values[a.kwarg.arg]
            else:
                st.env[a.kwarg.arg] = DictV(extra) if not top else Form.sym("**" + a.kwarg.arg)

    def _top_param(self, fi, nm, default):
        if nm in self.param_values:
            return self.param_values[nm]
        if nm == "self" and self.self_class:
            return param_object(self.self_class, "self")
        if nm in self.param_classes:
            return param_object(self.param_classes[nm], nm)
        return Form.sym(nm)

    def _eval_default(self, fi, dnode):
        st = State()
        try:
            return self.eval(dnode, st, fi.parent or _ModuleScope(fi.module), 0)
        except Exception:
            return Form.atom(("opaque", src_of(dnode)))

    # ------------------------------------------------------------------ function execution
    def _exec_function(self, fi, st, depth):
        outs = []
        self._stack.append((fi, outs))
        try:
            body = fi.node.body
            if isinstance(fi.node, ast.Lambda):
                v = self.eval(body, st, fi, depth)
                outs.append(Outcome("return", v, list(st.conds), fi.node))
            else:
                self.exec_block(body, st, fi, depth)
                if st.live:
                    outs.append(Outcome("return", NONE, list(st.conds), fi.node))
            if depth == 0:
                self.final_env = st.env
        finally:
            self._stack.pop()
        return outs

    # ------------------------------------------------------------------ statements
    def exec_block(self, stmts, st, fi, depth):
        for s in stmts:
            if not st.live:
                break
            self.exec_stmt(s, st, fi, depth)

    def exec_stmt(self, s, st, fi, depth):
        m = getattr(self, "s_" + type(s).__name__, None)
        if m is None:
            # a statement form the interpreter does not model: everything it may assign becomes unknown (sound), and the run is
            # recorded so that no VIOLATION is reported for a function that was only partly read (see __main__.analyse)
            self.notes.append(f"unhandled statement {type(s).__name__} at {fi.qualname}:{s.lineno}")
            top = self._stack[0][0] if self._stack else fi
            Interp.UNHANDLED.append((type(s).__name__, getattr(fi, "qualname", "?"), getattr(top, "qualname", "?"), getattr(s, "lineno", 0)))
            for sub in ast.walk(s):
                if isinstance(sub, ast.Name) and isinstance(sub.ctx, ast.Store):
                    st.env[sub.id] = Form.atom(("opaque", f"{sub.id} after unmodelled {type(s).__name__}@{getattr(s, 'lineno', 0)}"))
            return
        try:
            m(s, st, fi, depth)
        except _ExprRaise as ex:
            if not self._stack:
                raise
            self._stack[-1][1].append(Outcome("raise", None, list(st.conds), s, ex.exc))
            st.live = False

    def s_Expr(self, s, st, fi, depth):
        if isinstance(s.value, ast.Constant):
            return
        self.eval(s.value, st, fi, depth)

    def s_Pass(self, s, st, fi, depth):
        pass

    def s_Import(self, s, st, fi, depth):
        pass

    s_ImportFrom = s_Import
    s_Global = s_Import
    s_Nonlocal = s_Import

    def s_Assert(self, s, st, fi, depth):
        self._refine(s.test, st, fi, depth, True)

    def s_Delete(self, s, st, fi, depth):
        for t in s.targets:
            if isinstance(t, ast.Name):
                st.env.pop(t.id, None)

    def s_FunctionDef(self, s, st, fi, depth):
        q = None
        for cand in fi.module.funcs.values():
            if cand.node is s:
                q = cand
                break
        if q is not None:
            st.env[s.name] = FuncV(q, st.env)

    def s_ClassDef(self, s, st, fi, depth):
        pass

    def s_Return(self, s, st, fi, depth):
        v = self.eval(s.value, st, fi, depth) if s.value is not None else NONE
        if not st.live:
            return     # the returned expression itself never completes (a callee that raises on every path)
        self._stack[-1][1].append(Outcome("return", v, list(st.conds), s))
        st.live = False

    def s_Raise(self, s, st, fi, depth):
        exc = None
        if s.exc is not None:
            e = s.exc
            if isinstance(e, ast.Call):
                for a in e.args:
                    try:
                        self.eval(a, st, fi, depth)
                    except Exception:
                        pass
                e = e.func
            exc = src_of(e)
        self._stack[-1][1].append(Outcome("raise", None, list(st.conds), s, exc))
        st.live = False

    def s_Assign(self, s, st, fi, depth):
        if depth == 0:
            self.snapshots[s] = dict(st.env)
        v = self.eval(s.value, st, fi, depth)
        for t in s.targets:
            self.assign(t, v, st, fi, depth, s)

    def s_AnnAssign(self, s, st, fi, depth):
        if s.value is not None:
            self.assign(s.target, self.eval(s.value, st, fi, depth), st, fi, depth, s)

    def s_AugAssign(self, s, st, fi, depth):
        cur = self.eval(_load(s.target), st, fi, depth)
        rhs = self.eval(s.value, st, fi, depth)
        v = self.binop(s.op, cur, rhs, st, fi, depth, s)
        self.assign(s.target, v, st, fi, depth, s, aug=True)

    def assign(self, t, v, st, fi, depth, stmt, aug=False):
        if isinstance(t, ast.Name):
            self.views.pop((id(fi), t.id), None)
            val_node = getattr(stmt, "value", None)
            if aug and (id(fi), t.id) in self.aliases and isinstance(v, Form):
                self._write_through(self.aliases[(id(fi), t.id)], v, st, fi, depth, stmt)     # `alias *= k` works in place on the array
            else:
                self.aliases.pop((id(fi), t.id), None)
                if isinstance(stmt, ast.Assign) and len(stmt.targets) == 1 and stmt.targets[0] is t and isinstance(val_node, ast.Attribute) and isinstance(v, Form) \
                        and v.const_value() is None:
                    self.aliases[(id(fi), t.id)] = val_node        # `a = obj.field`: the same array under another name
            # a name bound to a literal tuple (directly, or as the decided arm of a conditional expression) remembers the expressions
            # it was built from: `for f in names:` over (obj.a, obj.b) then lets f stand for the arrays themselves
            self._tuple_elts.pop((id(fi), t.id), None)
            if isinstance(stmt, ast.Assign) and len(stmt.targets) == 1 and stmt.targets[0] is t and isinstance(v, TupleV):
                tn = val_node
                for _ in range(3):
                    if isinstance(tn, ast.IfExp):
                        tv_ = self.truth(tn.test, st, fi, depth)
                        tn = tn.body if tv_ is True else tn.orelse if tv_ is False else None
                    else:
                        break
                if isinstance(tn, (ast.Tuple, ast.List)) and len(tn.elts) == len(v.items) and not any(isinstance(e, ast.Starred) for e in tn.elts):
                    self._tuple_elts[(id(fi), t.id)] = list(tn.elts)
            if isinstance(stmt, ast.Assign) and len(stmt.targets) == 1 and stmt.targets[0] is t and isinstance(val_node, ast.Subscript) \
                    and isinstance(val_node.value, ast.Name) and isinstance(val_node.slice, ast.Slice) and val_node.slice.step is None \
                    and isinstance(st.env.get(val_node.value.id), Form):
                # `v = a[lo:hi]` is a view: element stores through v land in a (numpy basic slicing)
                lo = self.eval(val_node.slice.lower, st, fi, depth) if val_node.slice.lower is not None else Form.num(0)
                hi = self.eval(val_node.slice.upper, st, fi, depth) if val_node.slice.upper is not None else None
                if isinstance(lo, Form):
                    self.views[(id(fi), t.id)] = (val_node.value, lo, hi)
            st.env[t.id] = v
            if depth == 0 or True:
                self.assign_log.append((fi, stmt, t.id, v, list(st.conds), depth))
        elif isinstance(t, (ast.Tuple, ast.List)) and sum(isinstance(e_, ast.Starred) for e_ in t.elts) == 1 and isinstance(v, (TupleV, VecV)) \
                and len(v.items) >= len(t.elts) - 1:
            # a, *rest, z = seq
            k_ = next(i for i, e_ in enumerate(t.elts) if isinstance(e_, ast.Starred))
            tail = len(t.elts) - k_ - 1
            items = list(v.items)
            for tt, vv in zip(t.elts[:k_], items[:k_]):
                self.assign(tt, vv, st, fi, depth, stmt)
            self.assign(t.elts[k_].value, TupleV(items[k_:len(items) - tail], "list"), st, fi, depth, stmt)
            for tt, vv in zip(t.elts[k_ + 1:], items[len(items) - tail:] if tail else []):
                self.assign(tt, vv, st, fi, depth, stmt)
        elif isinstance(t, (ast.Tuple, ast.List)):
            items = self._unpack(v, len(t.elts))
            for tt, vv in zip(t.elts, items):
                self.assign(tt, vv, st, fi, depth, stmt)
        elif isinstance(t, ast.Attribute):
            base = self.eval(t.value, st, fi, depth)
            self.store_log.append((fi, stmt, ("attr", base, t.attr), v, list(st.conds), depth))
            if isinstance(base, ObjV):
                base.fields[t.attr] = v
        elif isinstance(t, ast.Subscript):
            if isinstance(t.value, ast.Name) and (id(fi), t.value.id) in self.views:
                # store through a view: rewritten as the store into the viewed array
                bnode, lo, hi = self.views[(id(fi), t.value.id)]
                idx0 = self.eval_index(t.slice, st, fi, depth)
                new_idx = None
                if _full_slice(idx0):
                    new_idx = SliceV(lo, hi if hi is not None else NONE, NONE)
                elif isinstance(idx0, Form):
                    new_idx = lo + idx0
                if new_idx is not None and isinstance(st.env.get(bnode.id), Form):
                    base = st.env[bnode.id]
                    self.store_log.append((fi, stmt, ("idx", base, new_idx, bnode), v, list(st.conds), depth))
                    st.env[bnode.id] = Form.atom(("fn", "setitem", (as_value(base), new_idx, v), ()))
                    return
            base = self.eval(t.value, st, fi, depth)
            idx = self.eval_index(t.slice, st, fi, depth)
            self.store_log.append((fi, stmt, ("idx", base, idx, t.value), v, list(st.conds), depth))
            if isinstance(base, DictV):
                base.set(idx, v)
            elif isinstance(t.value, ast.Name):
                # element store into an array local: the local now holds a modified array
                st.env[t.value.id] = Form.atom(("fn", "setitem", (as_value(base), idx, v), ()))
                if (id(fi), t.value.id) in self.aliases:
                    self._write_through(self.aliases[(id(fi), t.value.id)], st.env[t.value.id], st, fi, depth, stmt)
            elif isinstance(t.value, ast.Attribute):
                owner = self.eval(t.value.value, st, fi, depth)
                if isinstance(owner, ObjV):
                    owner.fields[t.value.attr] = Form.atom(("fn", "setitem", (as_value(base), idx, v), ()))
        elif isinstance(t, ast.Starred):
            self.assign(t.value, v, st, fi, depth, stmt)

    def _write_through(self, origin, newval, st, fi, depth, stmt):
        """the local is another name of the array held in `obj.attr`: an in-place change of one is a change of the other"""
        try:
            owner = self.eval(origin.value, st, fi, depth)
        except Exception:
            return
        if isinstance(owner, ObjV):
            self.store_log.append((fi, stmt, ("attr", owner, origin.attr), newval, list(st.conds), depth))
            owner.fields[origin.attr] = newval

    def _unpack(self, v, n):
        if isinstance(v, (TupleV, VecV)) and len(v.items) == n:
            return v.items
        if isinstance(v, Form):
            a = v.single_atom()
            if a is not None and a[0] == "fn" and a[1] in ("split", "array_split") and len(a[2]) == 2 and isinstance(a[2][1], Form) and a[2][1].rational() == n \
                    and dict(a[3]).get("axis") is None:
                # np.split(X, n) into equal parts along the first axis: X[0:k], X[k:2k], ... when the leading dimension is known
                lead = _lead_dim(a[2][0])
                if lead is not None and lead % n == 0:
                    k = lead // n
                    return [mk_idx(a[2][0], SliceV(NONE if i == 0 else Form.num(i * k), NONE if i == n - 1 else Form.num((i + 1) * k), NONE)) for i in range(n)]
                if n == 2 and isinstance(a[2][0], Form):
                    # two equal halves of a vector of unknown (even: split raises otherwise) length: X[:len(X)//2], X[len(X)//2:]
                    half = mk_fn("floordiv", [mk_fn("len", [a[2][0]]), Form.num(2)])
                    return [mk_idx(a[2][0], SliceV(NONE, half, NONE)), mk_idx(a[2][0], SliceV(half, NONE, NONE))]
        if isinstance(v, Form):
            a = v.single_atom()
            # np.array([a,b]) - 1 style: elementwise arithmetic over a literal list is kept elementwise
            ev = elementwise_items(v, n)
            if ev is not None:
                return ev
        return [mk_idx(as_value(v), Form.num(i)) for i in range(n)]

    def s_If(self, s, st, fi, depth):
        tv = self.truth(s.test, st, fi, depth)
        if tv is True:
            self._refine(s.test, st, fi, depth, True)
            self.exec_block(s.body, st, fi, depth)
            return
        if tv is False:
            self._refine(s.test, st, fi, depth, False)
            self.exec_block(s.orelse, st, fi, depth)
            return
        a = State(fork_env(st.env), st.facts.copy(), list(st.conds))
        b = State(fork_env(st.env), st.facts.copy(), list(st.conds))
        src = src_of(s.test)
        if self.keep_cond_forms:
            ncalls, nnotes = len(self.calls), len(self.none_arith)
            try:
                cf = self.eval(s.test, State(fork_env(st.env), st.facts.copy(), list(st.conds)), fi, depth)
                if src in self.cond_forms and vkey(self.cond_forms[src]) != vkey(cf):
                    # the same test text evaluated on different values (unrolled table rows): keep the records apart
                    k_ = 2
                    while f"{src} #{k_}" in self.cond_forms:
                        k_ += 1
                    src = f"{src} #{k_}"
                self.cond_forms[src] = cf
            except Exception:
                pass
            del self.calls[ncalls:]
            del self.none_arith[nnotes:]
        a.conds.append((src, True))
        b.conds.append((src, False))
        self._refine(s.test, a, fi, depth, True)
        self._refine(s.test, b, fi, depth, False)
        self.exec_block(s.body, a, fi, depth)
        self.exec_block(s.orelse, b, fi, depth)
        if a.live and b.live:
            self._collapse_zero_guard(s.test, a, b, st, fi, depth)
        self._merge(st, [a, b], s)

    def _collapse_zero_guard(self, test, a, b, st, fi, depth):
        """`if x != 0: y = f(x, y)` (or `if x:`) where f(0, y) is y: the update is the identity exactly when it is skipped, so f(x, y)
        describes y on both paths (`if c != 0: pulse = pulse * exp(-1j*c*e)`, `if bias: v = v + bias`)"""
        t, nz, z = test, a, b
        if isinstance(t, ast.UnaryOp) and isinstance(t.op, ast.Not):
            t, nz, z = t.operand, b, a
        if isinstance(t, ast.Compare) and len(t.ops) == 1 and isinstance(t.ops[0], (ast.NotEq, ast.Eq)) \
                and isinstance(t.comparators[0], ast.Constant) and t.comparators[0].value == 0 and not isinstance(t.comparators[0].value, bool):
            if isinstance(t.ops[0], ast.Eq):
                nz, z = z, nz
            t = t.left
        if not isinstance(t, (ast.Name, ast.Attribute)):
            return
        try:
            x = self.eval(t, State(fork_env(st.env), st.facts.copy(), list(st.conds)), fi, depth)
        except Exception:
            return
        if not (isinstance(x, Form) and x.single_atom() is not None and x.single_atom()[0] == "sym"):
            return
        if st.facts.none.get(x.key()) is not False and not isinstance(test, ast.Compare):
            return                     # `if x:` is also false for None
        xa = x.single_atom()
        for nm in set(nz.env) & set(z.env):
            vn, vz = nz.env[nm], z.env[nm]
            if isinstance(vn, Form) and isinstance(vz, Form) and vn != vz and xa in vn.atoms():
                try:
                    at0 = vn.subst(lambda at: Form.num(0) if at == xa else None)
                except Exception:
                    continue
                if isinstance(at0, Form) and at0 == vz:
                    z.env[nm] = vn

    def _merge(self, st, branches, node):
        live = [b for b in branches if b.live]
        if not live:
            st.live = False
            return
        if len(live) == 1:
            st.env, st.facts, st.conds = live[0].env, live[0].facts, live[0].conds
            return
        env = {}
        names = set()
        for b in live:
            names |= set(b.env)
        for n in names:
            vals = [b.env.get(n) for b in live]
            if any(v is None for v in vals):
                # defined on some paths only
                present = [v for v in vals if v is not None]
                env[n] = self._phi_of(node, n, present + [Form.atom(("opaque", "unbound"))])
                continue
            env[n] = self._join_vals(node, n, vals)
        st.env = env
        # facts: keep what all agree on
        f = Facts()
        for attr in ("none", "inst", "notinst", "truth", "eq"):
            d0 = getattr(live[0].facts, attr)
            out = {}
            for k, v in d0.items():
                if all(getattr(b.facts, attr).get(k, _MISSING) == v for b in live[1:]):
                    out[k] = v
                elif attr == "notinst" and all(isinstance(getattr(b.facts, attr).get(k), frozenset) for b in live[1:]):
                    common = v
                    for b in live[1:]:
                        common = common & getattr(b.facts, attr)[k]
                    if common:
                        out[k] = common        # not an instance of these on either path
            setattr(f, attr, out)
        st.facts = f
        # conds: common prefix
        cp = []
        for items in zip(*[b.conds for b in live]):
            if all(i == items[0] for i in items):
                cp.append(items[0])
            else:
                break
        st.conds = cp

    def _join_vals(self, node, name, vals):
        k0 = vkey(vals[0])
        if all(vkey(v) == k0 for v in vals[1:]):
            return vals[0]
        if all(isinstance(v, ObjV) for v in vals) and len({v.cls for v in vals}) == 1:
            fields = {}
            for fname in set().union(*[set(v.fields) for v in vals]):
                fv = [v.fields.get(fname, Form.sym(f"{v.name}.{fname}") if v.name else NONE) for v in vals]
                fields[fname] = self._join_vals(node, f"{name}.{fname}", fv)
            return ObjV(vals[0].cls, fields, vals[0].origin, vals[0].name)
        if all(isinstance(v, DictV) for v in vals):
            keys = []
            for v in vals:
                for k, _ in v.items:
                    if all(vkey(k) != vkey(x) for x in keys):
                        keys.append(k)
            out = DictV([])
            for k in keys:
                fv = [v.get(k) for v in vals]
                if any(x is None for x in fv):
                    fv = [x for x in fv if x is not None] + [Form.atom(("opaque", "unbound"))]
                out.set(k, self._join_vals(node, f"{name}[{k!r}]", fv))
            return out
        return self._phi_of(node, name, vals)

    def _phi_of(self, node, name, vals):
        uniq = []
        for v in vals:
            if all(vkey(v) != vkey(u) for u in uniq):
                uniq.append(v)
        return Form.atom(("phi", f"{name}@{getattr(node, 'lineno', 0)}", tuple(as_value(u) for u in uniq)))

    def _assigned_names(self, stmts):
        out = set()
        for s in stmts:
            for n in ast.walk(s):
                if isinstance(n, ast.Name) and isinstance(n.ctx, ast.Store):
                    out.add(n.id)
                elif isinstance(n, (ast.FunctionDef,)):
                    out.add(n.name)
        return out

    def _mutated_roots(self, stmts):
        """names whose object may be mutated in the loop (attribute/subscript stores, aug-assign)"""
        out = set()
        for s in stmts:
            for n in ast.walk(s):
                if isinstance(n, (ast.Attribute, ast.Subscript)) and isinstance(n.ctx, ast.Store):
                    r = n
                    while isinstance(r, (ast.Attribute, ast.Subscript)):
                        r = r.value
                    if isinstance(r, ast.Name):
                        out.add(r.id)
        return out

    def _derived_at_head(self, s, names, pre, st, fi, depth):
        """{X: T(loop<Y>)} for loop variables X that are kept equal to one function T of another loop variable Y: X = T(Y) on
        entry and X = T(Y) again at the end of one (dry) pass over the body started from arbitrary values"""
        cands = []
        for x in names:
            px = pre.get(x)
            if not isinstance(px, Form):
                continue
            for y in names:
                py = pre.get(y)
                if y == x or not isinstance(py, Form):
                    continue
                ya = py.single_atom()
                if ya is None or py != Form.atom(ya) or not contains_atom_form(px, ya):
                    continue
                cands.append((x, y, ya))
        if not cands or any(isinstance(n_, ast.Continue) for b_ in s.body for n_ in ast.walk(b_)):
            return {}
        marks = self._log_marks()
        dry = State(fork_env(st.env), st.facts.copy(), list(st.conds))
        dry.loop_exits = []
        self._refine(s.test, dry, fi, depth, True)
        self._loop_stack_push(dry)
        try:
            self.exec_block(s.body, dry, fi, depth)
        except Exception:
            dry.live = False
        finally:
            self._loop_stack_pop()
            self._log_rewind(marks)
        out = {}
        if not dry.live:
            return out
        for x, y, ya in cands:
            ex, ey = dry.env.get(x), dry.env.get(y)
            if not (isinstance(ex, Form) and isinstance(ey, Form)):
                continue
            px = pre[x]
            if px.subst(lambda a: ey if a == ya else None) == ex:
                head_y = st.env.get(y)
                if isinstance(head_y, Form):
                    out[x] = px.subst(lambda a: head_y if a == ya else None)
        return out

    def _havoc(self, names, st, node, tag):
        for n in names:
            if n in st.env and isinstance(st.env[n], (FuncV, ClassRef)):
                continue
            st.env[n] = Form.atom(("loop", f"{n}@{node.lineno}{tag}"))

    def s_While(self, s, st, fi, depth):
        names = self._assigned_names(s.body) | self._assigned_names(s.orelse)
        names |= {r for r in self._mutated_roots(s.body) if isinstance(st.env.get(r), Form)}   # arrays written element-wise in the loop
        pre = fork_env(st.env)
        self._havoc(names, st, s, "")
        head_env = fork_env(st.env)
        # derived variables: X = T(Y) before the loop and again at the end of the body (same T) holds at every loop head
        for xname, val in self._derived_at_head(s, names, pre, st, fi, depth).items():
            st.env[xname] = val
        head_env = fork_env(st.env)
        body = State(fork_env(st.env), st.facts.copy(), list(st.conds))
        body.conds.append((src_of(s.test), True))
        self._refine(s.test, body, fi, depth, True)
        body.loop_exits = []
        cl = self._counter_loop(s, pre, st, fi, depth)
        if cl is not None:
            # `k = 0; while k < len(X): ... X[k] ...; k += 1` visits the elements of X in order, like `for e in X`
            body.env[cl[0]] = mk_fn("loopidx", [as_value(cl[1])])
        self._loop_stack_push(body)
        self.exec_block(s.body, body, fi, depth)
        exits = self._loop_stack_pop()
        self.loop_envs[s] = (pre, head_env, body.env if body.live else None, exits)
        # after the loop: havocked state (sound over-approximation); break states are not merged precisely
        st.env = head_env
        self._havoc(names, st, s, "'")
        if isinstance(s.test, ast.Constant) and s.test.value is True:
            # only `break` leaves the loop: use the join of break states when available
            if exits:
                tmp = State(st.env, st.facts, st.conds)
                self._merge(tmp, exits, s)
                # values assigned in the loop stay havocked unless every exit agrees and does not depend on loop atoms
                st.env, st.facts = tmp.env, tmp.facts
        else:
            self._refine(s.test, st, fi, depth, False)
        self.exec_block(s.orelse, st, fi, depth)

    def _counter_loop(self, s, pre_env, st, fi, depth):
        """(counter name, sequence value) when the while loop is an index loop over one sequence"""
        t = s.test
        if not (isinstance(t, ast.Compare) and len(t.ops) == 1):
            return None
        if isinstance(t.ops[0], ast.Lt) and isinstance(t.left, ast.Name):
            v, bound = t.left.id, t.comparators[0]
        elif isinstance(t.ops[0], ast.Gt) and isinstance(t.comparators[0], ast.Name):
            v, bound = t.comparators[0].id, t.left
        else:
            return None
        init = pre_env.get(v)
        if not (isinstance(init, Form) and init.is_zero()):
            return None
        incs = []
        for n in ast.walk(ast.Module(body=list(s.body), type_ignores=[])):
            if isinstance(n, (ast.Continue, ast.Break)):
                return None
            if isinstance(n, ast.Name) and n.id == v and isinstance(n.ctx, ast.Store):
                incs.append(n)
        last = s.body[-1] if s.body else None
        if not (len(incs) == 1 and isinstance(last, ast.AugAssign) and isinstance(last.op, ast.Add) and last.target is incs[0]
                and isinstance(last.value, ast.Constant) and last.value.value == 1):
            return None
        if any(isinstance(n, ast.Name) and n.id == v for n in ast.walk(bound)):
            return None
        tmp = State(fork_env(pre_env), st.facts.copy(), list(st.conds))
        ncalls = len(self.calls)
        try:
            b = self.eval(bound, tmp, fi, depth)
        except Exception:
            return None
        finally:
            del self.calls[ncalls:]
        if not isinstance(b, Form):
            return None
        a = b.single_atom()
        if a is None or b != Form.atom(a):
            return None
        if a[0] == "attr" and a[2] == "size":
            return v, a[1]
        if a[0] == "fn" and a[1] in ("len", "size") and len(a[2]) == 1 and not a[3]:
            return v, a[2][0]
        if a[0] == "sym" and a[1].endswith(".size"):
            return v, Form.sym(a[1][:-5])
        return None

    def _log_marks(self):
        return (len(self.calls), len(self.assign_log), len(self.store_log), len(self.none_arith), len(self.bad_attrs), len(self.falsy_arith),
                len(self.nested_raises), len(self.fit_log), len(self._stack[-1][1]) if self._stack else 0)

    def _log_rewind(self, marks):
        del self.calls[marks[0]:], self.assign_log[marks[1]:], self.store_log[marks[2]:], self.none_arith[marks[3]:]
        del self.bad_attrs[marks[4]:], self.falsy_arith[marks[5]:], self.nested_raises[marks[6]:], self.fit_log[marks[7]:]
        if self._stack:
            del self._stack[-1][1][marks[8]:]

    def _unroll_for(self, s, it, st, fi, depth):
        """a loop over a literal table executed row by row (with `break` and `else`), on a copy of the state; None when some
        iteration leaves it undecided whether the loop was left (the caller then abstracts the loop)"""
        marks = self._log_marks()
        cur = State(fork_env(st.env), st.facts.copy(), list(st.conds))
        broke = None
        elts = s.iter.elts if isinstance(s.iter, (ast.Tuple, ast.List)) and len(s.iter.elts) == len(it.items) and not any(isinstance(e, ast.Starred) for e in s.iter.elts) else None
        if elts is None and isinstance(s.iter, ast.Name) and len(self._tuple_elts.get((id(fi), s.iter.id), ())) == len(it.items):
            elts = self._tuple_elts[(id(fi), s.iter.id)]
        k_ = 0
        for item in it.items:
            if not cur.live:
                break
            self.assign(s.target, item, cur, fi, depth, s)
            if elts is not None and isinstance(s.target, ast.Name) and isinstance(elts[k_], ast.Attribute) and isinstance(item, Form) and item.const_value() is None:
                self.aliases[(id(fi), s.target.id)] = elts[k_]     # for f in (obj.a, obj.b): f names the array itself
            k_ += 1
            self._loop_stack_push(cur)
            self.exec_block(s.body, cur, fi, depth)
            exits = self._loop_stack_pop()
            conts = self._last_conts
            if conts:
                # `continue`: those states go on with the next row, together with the state that ran the body to its end
                for c_ in conts:
                    c_.live = True
                nxt = State(cur.env, cur.facts, cur.conds)
                self._merge(nxt, conts + ([State(fork_env(cur.env), cur.facts.copy(), list(cur.conds))] if cur.live else []), s)
                nxt.live = True
                cur = nxt
            if exits:
                if cur.live:
                    self._log_rewind(marks)
                    return None
                tmp = State(cur.env, cur.facts, cur.conds)
                exits_live = [e_ for e_ in exits]
                for e_ in exits_live:
                    e_.live = True
                self._merge(tmp, exits_live, s)
                tmp.live = True
                broke = tmp
                break
        if broke is not None:
            return broke
        if cur.live:
            self.exec_block(s.orelse, cur, fi, depth)
        return cur

    def s_For(self, s, st, fi, depth):
        it = self.eval(s.iter, st, fi, depth)
        if self.unroll_literal_loops and isinstance(it, TupleV) and len(it.items) <= 32:
            res = self._unroll_for(s, it, st, fi, depth)
            if res is not None:
                st.env, st.facts, st.conds, st.live = res.env, res.facts, res.conds, res.live
                return
        names = self._assigned_names(s.body) | self._assigned_names([ast.Assign(targets=[s.target], value=ast.Constant(value=0), lineno=s.lineno)])
        names |= {r for r in self._mutated_roots(s.body) if isinstance(st.env.get(r), Form)}   # arrays written element-wise in the loop
        pre = fork_env(st.env)
        self._havoc(names, st, s, "")
        head_env = fork_env(st.env)
        body = State(fork_env(st.env), st.facts.copy(), list(st.conds))
        elem = iter_element(it)
        self.assign(s.target, elem, body, fi, depth, s)
        self._loop_stack_push(body)
        self.exec_block(s.body, body, fi, depth)
        exits = self._loop_stack_pop()
        self.loop_envs[s] = (pre, head_env, body.env if body.live else None, exits)
        st.env = head_env
        self._havoc(names, st, s, "'")
        if s.orelse:
            # `else` runs only when the loop was not left by `break`; the break states skip it
            normal = State(fork_env(st.env), st.facts.copy(), list(st.conds))
            self.exec_block(s.orelse, normal, fi, depth)
            branches = [normal]
            for e_ in exits:
                e_.live = True
                for nm in names:
                    # values at the break are those of some iteration: keep them abstract
                    if nm in e_.env and nm in st.env:
                        e_.env[nm] = st.env[nm]
                branches.append(e_)
            self._merge(st, branches, s)
            return
        self.exec_block(s.orelse, st, fi, depth)

    def _loop_stack_push(self, body):
        if not hasattr(self, "_loops"):
            self._loops = []
        self._loops.append([])
        if not hasattr(self, "_conts"):
            self._conts = []
        self._conts.append([])

    def _loop_stack_pop(self):
        self._last_conts = self._conts.pop()
        return self._loops.pop()

    def s_Break(self, s, st, fi, depth):
        if getattr(self, "_loops", None):
            self._loops[-1].append(State(fork_env(st.env), st.facts.copy(), list(st.conds)))
        st.live = False

    def s_Continue(self, s, st, fi, depth):
        if getattr(self, "_conts", None):
            self._conts[-1].append(State(fork_env(st.env), st.facts.copy(), list(st.conds)))
        st.live = False

    def s_With(self, s, st, fi, depth):
        for it in s.items:
            v = self.eval(it.context_expr, st, fi, depth)
            if it.optional_vars is not None:
                self.assign(it.optional_vars, v, st, fi, depth, s)
        self.exec_block(s.body, st, fi, depth)

    def s_Try(self, s, st, fi, depth):
        start = State(fork_env(st.env), st.facts.copy(), list(st.conds))
        names = self._assigned_names(s.body)
        self.exec_block(s.body, st, fi, depth)
        branches = []
        if st.live:
            self.exec_block(s.orelse, st, fi, depth)
            b0 = State(st.env, st.facts, st.conds)
            b0.live = st.live
            branches.append(b0)
        else:
            b0 = State(st.env, st.facts, st.conds)
            b0.live = False
            branches.append(b0)
        for h in s.handlers:
            hs = State(fork_env(start.env), start.facts.copy(), list(start.conds))
            # anything assigned in the try body may or may not have happened
            for n in names:
                if n in st.env:
                    hs.env[n] = Form.atom(("phi", f"{n}@try{s.lineno}", (as_value(st.env.get(n, NONE)), as_value(start.env.get(n, Form.atom(("opaque", "unbound")))))))
            hs.conds.append((f"except {src_of(h.type) if h.type else ''}@{s.lineno}", True))
            if h.name:
                hs.env[h.name] = Form.sym(h.name)
            self.exec_block(h.body, hs, fi, depth)
            branches.append(hs)
        tmp = State(st.env, st.facts, st.conds)
        self._merge(tmp, branches, s)
        st.env, st.facts, st.conds, st.live = tmp.env, tmp.facts, tmp.conds, tmp.live
        if st.live:
            self.exec_block(s.finalbody, st, fi, depth)

    # ------------------------------------------------------------------ conditions
    def truth(self, test, st, fi, depth):
        """True / False / None (unknown)"""
        if isinstance(test, ast.BoolOp):
            vals = [self.truth(v, st, fi, depth) for v in test.values]
            if isinstance(test.op, ast.And):
                if any(v is False for v in vals):
                    return False
                if all(v is True for v in vals):
                    return True
                return None
            if any(v is True for v in vals):
                return True
            if all(v is False for v in vals):
                return False
            return None
        if isinstance(test, ast.UnaryOp) and isinstance(test.op, ast.Not):
            v = self.truth(test.operand, st, fi, depth)
            return None if v is None else (not v)
        if isinstance(test, ast.Compare) and len(test.ops) > 1:
            # a < b < c  is  (a < b) and (b < c)
            terms = [test.left] + list(test.comparators)
            vals = [self.truth(ast.copy_location(ast.Compare(left=terms[i], ops=[test.ops[i]], comparators=[terms[i + 1]]), test), st, fi, depth)
                    for i in range(len(test.ops))]
            if any(v is False for v in vals):
                return False
            if all(v is True for v in vals):
                return True
            return None
        if isinstance(test, ast.Compare) and len(test.ops) == 1:
            op = test.ops[0]
            l = self.eval(test.left, st, fi, depth)
            r = self.eval(test.comparators[0], st, fi, depth)
            if isinstance(op, (ast.Is, ast.IsNot)):
                res = self._is(l, r, st)
                if res is None:
                    return None
                return res if isinstance(op, ast.Is) else not res
            if isinstance(op, (ast.Eq, ast.NotEq)):
                res = self._eq(l, r, st)
                if res is None and self.domain_sign is not None and isinstance(l, Form) and isinstance(r, Form) and self.domain_sign(l - r) in (1, -1):
                    res = False          # strictly apart on the property's domain
                if res is None and isinstance(l, Form) and isinstance(r, Form):
                    cf_ = const_float(l - r)         # a constant written with log(10), e ...: apart when its value is not zero
                    if cf_ is not None and cf_ != 0.0:
                        res = False
                if res is None:
                    return None
                return res if isinstance(op, ast.Eq) else not res
            if isinstance(op, (ast.In, ast.NotIn)):
                res = self._in(l, r, st)
                if res is None:
                    return None
                return res if isinstance(op, ast.In) else not res
            if isinstance(op, (ast.Lt, ast.LtE, ast.Gt, ast.GtE)):
                lv, rv = self._concrete(l, st), self._concrete(r, st)
                if isinstance(lv, Fraction) and isinstance(rv, Fraction):
                    self.cmp_points.update((lv, rv))
                    return {ast.Lt: lv < rv, ast.LtE: lv <= rv, ast.Gt: lv > rv, ast.GtE: lv >= rv}[type(op)]
                if self.domain_sign is not None and isinstance(l, Form) and isinstance(r, Form):
                    # a fact of the property's domain about the sign of l - r (e.g. "the full-scale range has positive width")
                    sg = self.domain_sign(l - r)
                    if sg in ("ge0", "le0"):
                        # one-sided knowledge: l - r >= 0 decides `<` and `>=` only (and symmetrically)
                        dec = {("ge0", ast.Lt): False, ("ge0", ast.GtE): True, ("le0", ast.Gt): False, ("le0", ast.LtE): True}.get((sg, type(op)))
                        if dec is not None:
                            return dec
                    elif sg is not None:
                        return {ast.Lt: sg < 0, ast.LtE: sg <= 0, ast.Gt: sg > 0, ast.GtE: sg >= 0}[type(op)]
                return None
            return None
        if isinstance(test, ast.Call):
            fn = self._callee_name(test.func, st, fi)
            if fn == "isinstance" and len(test.args) == 2:
                v = self.eval(test.args[0], st, fi, depth)
                classes = self._class_names(test.args[1], st, fi, depth)
                return self._isinstance(v, classes, st)
            if fn in ("all", "any") and len(test.args) == 1 and not test.keywords and isinstance(test.args[0], (ast.GeneratorExp, ast.ListComp)) \
                    and len(test.args[0].generators) == 1:
                # all(p(x) for x in (a, b, c)) over a literal sequence: decided element by element (same short-circuit order)
                g = test.args[0]
                seq = self._literal_seq(self.eval(g.generators[0].iter, st, fi, depth))
                if seq is not None:
                    vals = []
                    for item in seq:
                        s2 = State(dict(st.env), st.facts, st.conds)
                        self.assign(g.generators[0].target, item, s2, fi, depth, test)
                        keep = [self.truth(c_, s2, fi, depth) for c_ in g.generators[0].ifs]
                        if any(k_ is None for k_ in keep):
                            vals.append(None)
                            continue
                        if not all(keep):
                            continue
                        vals.append(self.truth(g.elt, s2, fi, depth))
                    if fn == "all":
                        return False if any(v_ is False for v_ in vals) else (True if all(v_ is True for v_ in vals) else None)
                    return True if any(v_ is True for v_ in vals) else (False if all(v_ is False for v_ in vals) else None)
            if fn == "__is_sequence__" and len(test.args) == 1:
                v = self.eval(test.args[0], st, fi, depth)
                return _is_sequence_value(v)
            if self.domain_pred is not None and fn and not test.keywords:
                # a fact of the property's domain about a predicate of the inputs (e.g. "the signals are real")
                dv = self.domain_pred(fn, [self.eval(a_, st, fi, depth) for a_ in test.args])
                if dv is not None:
                    return dv
            if fn == "callable" and len(test.args) == 1:
                v = self.eval(test.args[0], st, fi, depth)
                if isinstance(v, FuncV):
                    return True
                if isinstance(v, Const):
                    return False
                return None
        v = self.eval(test, st, fi, depth)
        return self._truthy(v, st)

    def _literal_seq(self, it):
        """the items of a literal sequence value (tuple/list display, short constant range), else None"""
        if isinstance(it, (TupleV, VecV)) and len(it.items) <= 32:
            return list(it.items)
        if isinstance(it, Form):
            a = it.single_atom()
            if a is not None and a[0] == "fn" and a[1] == "range" and 1 <= len(a[2]) <= 3 and not a[3]:
                qs = [x.rational() if isinstance(x, Form) else None for x in a[2]]
                if all(q is not None and q.denominator == 1 for q in qs):
                    r_ = range(*[int(q) for q in qs])
                    if len(r_) <= 32:
                        return [Form.num(i) for i in r_]
        return None

    def _concrete(self, v, st):
        if isinstance(v, Form):
            q = v.rational()
            if q is not None:
                return q
            e = st.facts.eq.get(v.key())
            if isinstance(e, (int, float)) and not isinstance(e, bool):
                return Fraction(repr(e)) if isinstance(e, float) else Fraction(e)
            w = self._valuate(v, st)
            if w is not None:
                return w.rational()
        return None

    def _valuate(self, v, st):
        """the form with every atom that has an assumed numeric value replaced by it (None if nothing to replace)"""
        eq = st.facts.eq
        if not eq or not isinstance(v, Form):
            return None
        hit = [False]

        def rep(a):
            e = eq.get(Form.atom(a).key())
            if isinstance(e, (int, float, Fraction)) and not isinstance(e, bool):
                hit[0] = True
                return Form.num(Fraction(repr(e)) if isinstance(e, float) else e)
            return None
        try:
            w = v.subst(rep)
        except Exception:
            return None
        return w if hit[0] else None

    def _truthy(self, v, st):
        if isinstance(v, Const):
            return bool(v.v)
        if isinstance(v, Form):
            c = v.const_value()
            if c is not None:
                return c != (F0, F0)
            k = v.key()
            if k in st.facts.truth:
                return st.facts.truth[k]
            if st.facts.none.get(k) is True:
                return False
            e = st.facts.eq.get(k)
            if isinstance(e, (int, float, Fraction)) and not isinstance(e, bool):
                return e != 0
            w = self._valuate(v, st)
            if w is not None and w.const_value() is not None:
                return w.const_value() != (F0, F0)
            return None
        if isinstance(v, (TupleV,)):
            return len(v.items) > 0
        if isinstance(v, DictV):
            return None if v.items else None
        if isinstance(v, (ObjV, FuncV, ClassRef)):
            return True
        return None

    def _is(self, l, r, st):
        if isinstance(r, Const) and r.v is None:
            return self._is_none(l, st)
        if isinstance(l, Const) and l.v is None:
            return self._is_none(r, st)
        if isinstance(l, Const) and isinstance(r, Const):
            return l.v is r.v
        if isinstance(l, ClassRef) and isinstance(r, ClassRef):
            return l.name.split(".")[-1] == r.name.split(".")[-1]     # `type(self) is electrical_signal`
        for a_, b_ in ((l, r), (r, l)):
            if isinstance(a_, ClassRef) and isinstance(b_, Form):
                at = b_.single_atom()
                if at == ("sym", "self.__class__") and self.self_class:
                    return self.self_class == a_.name.split(".")[-1]
                e_ = st.facts.eq.get(b_.key())
                if isinstance(e_, ClassRef):
                    return e_.name.split(".")[-1] == a_.name.split(".")[-1]     # `inferred is complex` with an assumed class
                if isinstance(e_, Const):
                    return False
        return None

    def _is_none(self, v, st):
        if isinstance(v, Const):
            return v.v is None
        if isinstance(v, (ObjV, TupleV, DictV, FuncV, ClassRef, SliceV)):
            return False
        if isinstance(v, Form):
            if v.const_value() is not None:
                return False
            k = v.key()
            if k in st.facts.none:
                return st.facts.none[k]
            a = v.single_atom()
            if a is None:
                return False  # arithmetic result
            if a[0] in ("fn",) and a[1].split(".")[-1] not in ("get", "getattr", "pop", "search", "match", "fullmatch", "getenv", "which", "find_spec"):
                return False          # a computed value; the listed routines answer None for "not found"
            if a[0] == "phi" and a[2]:
                alts = [self._is_none(x, st) for x in a[2]]
                if all(t is False for t in alts):
                    return False
                if all(t is True for t in alts):
                    return True
                return None
            if a[0] == "sym" and a[1].endswith(".signal"):
                owner = a[1][:-len(".signal")]
                if (owner == "self" and self.self_class in SIGNAL_CLASSES) or self.param_classes.get(owner) in SIGNAL_CLASSES:
                    return False      # class invariant: the constructors store an ndarray in .signal (C01.4)
            if a[0] == "idx" and isinstance(a[1], Form) and self._is_none(a[1], st) is False:
                ba = a[1].single_atom()
                if ba is not None and ba[0] == "sym" and ba[1].rsplit(".", 1)[-1] in ("signal", "noise", "data"):
                    return False      # an element / slice of an array
            return None
        return None

    def _eq(self, l, r, st):
        for a_, b_ in ((l, r), (r, l)):
            if isinstance(a_, Form) and a_.is_zero() and isinstance(b_, Form) and st.facts.truth.get(b_.key()) is True:
                return False     # a value assumed truthy is not 0
        lv = self._const_of(l, st)
        rv = self._const_of(r, st)
        if lv is not _MISSING and rv is not _MISSING:
            try:
                return lv == rv
            except Exception:
                return None
        if isinstance(l, ClassRef) and isinstance(r, ClassRef):
            return l.name == r.name
        if (isinstance(l, ClassRef) and isinstance(r, Const) and r.v is None) or (isinstance(r, ClassRef) and isinstance(l, Const) and l.v is None):
            return False
        if isinstance(l, ClassRef) and isinstance(r, Form) or isinstance(r, ClassRef) and isinstance(l, Form):
            cr, f = (l, r) if isinstance(l, ClassRef) else (r, l)
            # self.__class__ == electrical_signal with an assumed dynamic class
            a = f.single_atom()
            if a == ("sym", "self.__class__") and self.self_class:
                return self.self_class == cr.name
        if vkey(l) == vkey(r):
            if isinstance(l, Form) and l.const_value() is None:
                return None  # same symbolic value: equal unless NaN; leave undecided
            return True
        return None

    def _const_of(self, v, st):
        if isinstance(v, ClassRef):
            return ("<class>", v.name.split(".")[-1])
        if isinstance(v, Const):
            return v.v
        if isinstance(v, Form):
            c = v.const_value()
            if c is not None:
                return complex(float(c[0]), float(c[1])) if c[1] != 0 else (int(c[0]) if c[0].denominator == 1 else float(c[0]))
            e = st.facts.eq.get(v.key())
            if isinstance(e, ClassRef):
                return ("<class>", e.name.split(".")[-1])
            if e is not None:
                return e.v if isinstance(e, Const) else e
            w = self._valuate(v, st)
            if w is not None and w.const_value() is not None:
                return self._const_of(w, st)
        return _MISSING

    def _in(self, l, r, st):
        if isinstance(l, ClassRef) and isinstance(r, TupleV) and all(isinstance(i, ClassRef) for i in r.items):
            return any(i.name == l.name for i in r.items)
        if isinstance(l, Const) and l.v is None and isinstance(r, TupleV) and all(isinstance(i, ClassRef) for i in r.items):
            return False
        lv = self._const_of(l, st)
        if isinstance(r, TupleV):
            rvs = [self._const_of(i, st) for i in r.items]
            if lv is not _MISSING and all(x is not _MISSING for x in rvs):
                return lv in rvs
            return None
        rv = self._const_of(r, st)
        if lv is not _MISSING and isinstance(rv, str) and isinstance(lv, str):
            return lv in rv
        if isinstance(r, DictV) and lv is not _MISSING:
            ks = [self._const_of(k, st) for k, _ in r.items]
            if all(k is not _MISSING for k in ks):
                return lv in ks
        return None

    def _class_names(self, node, st, fi, depth):
        v = self.eval(node, st, fi, depth)
        out = []

        def add(x):
            if isinstance(x, ClassRef):
                out.append(x.name)
            elif isinstance(x, TupleV):
                for i in x.items:
                    add(i)
            elif isinstance(x, Form):
                a = x.single_atom()
                if a == ("sym", "self.__class__") and self.self_class:
                    out.append(self.self_class)
                elif a is not None and a[0] == "fn" and a[1] == "type" and len(a[2]) == 1 and isinstance(a[2][0], Form) and a[2][0].sym_name() == "self" and self.self_class:
                    out.append(self.self_class)
                else:
                    # sums of tuples: (int,) + Array_Like
                    found = False
                    for m in x.terms:
                        for aa, _ in m:
                            if aa[0] == "fn" and aa[1] == "tupleval":
                                add(aa[2][0])
                                found = True
                    if not found:
                        out.append("?" + repr(x))
            else:
                out.append("?" + repr(x))
        add(v)
        return out

    _PY_SCALARS = {"int", "float", "complex", "bool", "numpy.float64", "numpy.integer", "numpy.floating", "numbers.Number"}

    _INT_CLASSES = frozenset({"int", "integer", "Integral", "bool", "bool_", "intp", "int64", "int32", "uint8", "signedinteger", "unsignedinteger"})

    def _integer_valued(self, v, st):
        """the value is a whole number on this path: tested with isinstance against integer types only, compared equal to its own
        int(), or one of the library's integer globals (samples per slot, number of slots)"""
        if v.sym_name() in ("gv.sps", "gv.N"):
            return True
        inst = st.facts.inst.get(v.key())
        if inst and all(c.split(".")[-1] in self._INT_CLASSES for c in inst):
            return True
        return st.facts.truth.get(mk_fn("__integral__", [v]).key()) is True

    def _isinstance(self, v, classes, st):
        if any(c.startswith("?") for c in classes):
            unknown = True
        else:
            unknown = False
        pkgclasses = {c.split(".")[-1] for c in classes if c.split(".")[-1] in SIGNAL_CLASSES or c.startswith(PKG)}
        if isinstance(v, ObjV):
            mro = self._mro_names(v.cls)
            if any(c.split(".")[-1] in mro for c in classes):
                return True
            return None if unknown else False
        if isinstance(v, Const):
            tn = type(v.v).__name__
            if tn in classes or ("builtins." + tn) in classes:
                return True
            if v.v is None:
                return True if any(c.split(".")[-1].lstrip("?") in ("object", "NoneType") for c in classes) else False     # None is an instance of nothing else, whatever the other names are
            if tn == "bool" and any(c in classes for c in _TOWER["int"]):
                return True  # bool is a subclass of int
            return None if unknown else False
        if isinstance(v, TupleV):
            tn = v.kind
            return True if tn in classes else (None if unknown else False)
        if isinstance(v, SliceV):
            return True if "slice" in classes else (None if unknown else False)
        if isinstance(v, Form):
            if v.const_value() is not None:
                # a known number: its own type decides (facts recorded by earlier isinstance tests say nothing more)
                c = v.const_value()
                tn = "complex" if c[1] != 0 else ("int" if c[0].denominator == 1 else "float")
                return True if any(c_ in classes for c_ in _TOWER[tn]) else (None if unknown else False)
            k = v.key()
            e_ = st.facts.eq.get(k)
            if isinstance(e_, Const) and isinstance(e_.v, (str, bool)) or (isinstance(e_, Const) and e_.v is None):
                return self._isinstance(e_, classes, st)       # a value assumed equal to a constant has that constant's type
            inst = st.facts.inst.get(k)
            if inst is not None:
                for c in inst:
                    mro = self._mro_names(c) if c in SIGNAL_CLASSES else [c]
                    if any(cc.split(".")[-1] in mro for cc in classes):
                        return True
                    if c in _TOWER and any(cc in _TOWER[c] for cc in classes):
                        return True          # an int is a numbers.Integral / Real / Number ...
                    if c == "bool" and any(cc in _TOWER["int"] for cc in classes):
                        return True
                if all(c in SIGNAL_CLASSES for c in inst) or True:
                    if not unknown:
                        return False
            ninst = st.facts.notinst.get(k, frozenset())
            if classes and all(c.split(".")[-1] in ninst for c in classes):
                return False
            if v.const_value() is not None:
                c = v.const_value()
                if c[1] != 0:
                    tn = "complex"
                elif c[0].denominator == 1:
                    tn = "int"
                else:
                    tn = "float"
                return True if any(c in classes for c in _TOWER[tn]) else (None if unknown else False)
            a = v.single_atom()
            if a is None or (a[0] in ("fn", "grp", "num", "c")):
                # arithmetic / library result: never an instance of a package class
                if classes and all(c.split(".")[-1] in SIGNAL_CLASSES for c in classes):
                    return False
            return None
        return None

    def _mro_names(self, cls):
        for m in self.pkg.modules.values():
            if cls in m.classes:
                return [c.name for c in self.pkg.mro(m.name, cls)]
        return [cls]

    def _refine(self, test, st, fi, depth, pol):
        """record what `test == pol` tells us"""
        if isinstance(test, ast.UnaryOp) and isinstance(test.op, ast.Not):
            return self._refine(test.operand, st, fi, depth, not pol)
        if isinstance(test, ast.BoolOp):
            if isinstance(test.op, ast.And) and pol:
                for v in test.values:
                    self._refine(v, st, fi, depth, True)
            elif isinstance(test.op, ast.Or) and not pol:
                for v in test.values:
                    self._refine(v, st, fi, depth, False)
            elif len(test.values) == 2:
                # (A and B) is False with A known True  => B False ; (A or B) True with A known False => B True
                want = isinstance(test.op, ast.Or)
                known = [self.truth(v, st, fi, depth) for v in test.values]
                for i, v in enumerate(test.values):
                    other = known[1 - i]
                    if other is (not want):
                        self._refine(v, st, fi, depth, pol)
            return
        if isinstance(test, ast.Compare) and len(test.ops) == 1:
            op = test.ops[0]
            try:
                l = self.eval(test.left, st, fi, depth)
                r = self.eval(test.comparators[0], st, fi, depth)
            except Exception:
                return
            if isinstance(op, (ast.Is, ast.IsNot)):
                isn = pol if isinstance(op, ast.Is) else not pol
                tgt = l if (isinstance(r, Const) and r.v is None) else (r if isinstance(l, Const) and l.v is None else None)
                if isinstance(tgt, Form):
                    st.facts.none[tgt.key()] = isn
            elif isinstance(op, (ast.Eq, ast.NotEq)):
                iseq = pol if isinstance(op, ast.Eq) else not pol
                if iseq:
                    for a, b in ((l, r), (r, l)):
                        # x == int(x): x is integer-valued on this path, so a later int(x) is x
                        if isinstance(a, Form) and isinstance(b, Form) and a.const_value() is None and b == mk_fn("int", [a]):
                            st.facts.truth[mk_fn("__integral__", [a]).key()] = True
                            for nm_, val_ in list(st.env.items()):
                                if isinstance(val_, Form) and val_ == b:
                                    st.env[nm_] = a          # a local computed as int(a) before the test holds a itself
                    for a, b in ((l, r), (r, l)):
                        cv = self._const_of(b, st)
                        if isinstance(a, Form) and a.const_value() is None and cv is not _MISSING:
                            st.facts.eq[a.key()] = Const(cv) if isinstance(cv, (str, bool, type(None))) else cv
                            st.facts.none[a.key()] = cv is None
            return
        if isinstance(test, ast.Call):
            fn = self._callee_name(test.func, st, fi)
            if fn == "isinstance" and len(test.args) == 2:
                try:
                    v = self.eval(test.args[0], st, fi, depth)
                    classes = self._class_names(test.args[1], st, fi, depth)
                except Exception:
                    return
                if isinstance(v, Form) and not any(c.startswith("?") for c in classes):
                    k = v.key()
                    short = frozenset(c.split(".")[-1] for c in classes)
                    if pol:
                        prev = st.facts.inst.get(k)
                        if prev:
                            keep = frozenset(c for c in prev if any(x in self._mro_names(c.split(".")[-1]) for x in short))
                            st.facts.inst[k] = keep or prev
                        else:
                            st.facts.inst[k] = short
                        st.facts.none[k] = False
                    else:
                        st.facts.notinst[k] = st.facts.notinst.get(k, frozenset()) | short
            return
        try:
            v = self.eval(test, st, fi, depth)
        except Exception:
            return
        if isinstance(v, Form) and v.const_value() is None:
            st.facts.truth[v.key()] = pol
            if pol:
                st.facts.none[v.key()] = False

    # ------------------------------------------------------------------ expressions
    def eval(self, node, st, fi, depth):
        if node is None:
            return NONE
        m = getattr(self, "e_" + type(node).__name__, None)
        if m is None:
            return Form.atom(("opaque", src_of(node)))
        v = m(node, st, fi, depth)
        if isinstance(node, (ast.Name, ast.Attribute)) and isinstance(v, Form) and isinstance(getattr(node, "ctx", None), ast.Load) \
                and st.facts.none.get(v.key()) is True:
            return NONE  # a value known to be None on this path is None wherever it flows (`noise = other.noise`)
        return v

    def e_Constant(self, n, st, fi, depth):
        v = n.value
        if isinstance(v, bool) or v is None or isinstance(v, (str, bytes)) or v is Ellipsis:
            return Const(v)
        if isinstance(v, (int, float)):
            try:
                return Form.num(v)
            except ValueError:
                return Form.atom(("c", "inf" if v > 0 else "-inf"))
        if isinstance(v, complex):
            return Form.num(v)
        return Const(v)

    def e_Name(self, n, st, fi, depth):
        if n.id in st.env:
            return st.env[n.id]
        # closure lookup happens through FuncV.env copied into st.env at call time
        r = self.pkg.resolve_name(fi.module, fi if isinstance(fi, FuncInfo) else None, n.id)
        if r is not None:
            return self._global_value(r, fi)
        if n.id in ("True", "False", "None"):
            return Const({"True": True, "False": False, "None": None}[n.id])
        if n.id in _BUILTIN_TYPES:
            return ClassRef(n.id)
        return Form.sym(n.id)

    def _global_value(self, dotted, fi):
        if dotted.startswith("scipy.constants.") or dotted in ("numpy.pi", "math.pi", "numpy.e", "math.e"):
            nm = dotted.split(".")[-1]
            if nm == "pi":
                return Form.atom(("c", "scipy.constants.pi"))
            if dotted in ("numpy.e", "math.e"):
                return Form.atom(("c", "math.e"))
            return Form.atom(("c", dotted))
        if dotted in ("numpy.inf", "math.inf"):
            return Form.atom(("c", "inf"))
        if dotted == "numpy.nan":
            return Form.atom(("c", "nan"))
        if dotted == "numpy.newaxis":
            return Const(None)
        parts = dotted.split(".")
        if parts[0] == PKG and len(parts) >= 3 and parts[1] in self.pkg.modules:
            m = self.pkg.modules[parts[1]]
            nm = parts[2]
            if nm in m.classes and len(parts) == 3:
                return ClassRef(nm)
            q = f"{m.name}.{nm}"
            if q in m.funcs and len(parts) == 3:
                return FuncV(m.funcs[q])
            if nm in m.globals and len(parts) == 3:
                g = m.globals[nm]
                if _literal_like(g, lambda f_: self.pkg.resolve_expr(m, None, f_)) and (m.name, nm) not in self._gbusy:
                    # module-level constants and lookup tables (numbers, strings, tuples, dicts of functions, arithmetic on them)
                    self._gbusy.add((m.name, nm))
                    try:
                        return self.eval(g, State(), _ModuleScope(m), 0)
                    except Exception:
                        pass
                    finally:
                        self._gbusy.discard((m.name, nm))
                if nm == "gv":
                    return Form.sym("gv")
            if nm == "gv":
                return mk_attr(Form.sym("gv"), ".".join(parts[3:])) if len(parts) > 3 else Form.sym("gv")
        if dotted in _BUILTIN_TYPES or dotted in ("numpy.ndarray", "numpy.float64", "numpy.uint8", "numpy.integer", "numpy.floating", "numpy.number", "numpy.generic",
                                                  "numpy.bool_", "numpy.str_", "numpy.complexfloating", "numpy.signedinteger", "numpy.unsignedinteger", "numpy.inexact",
                                                  "numpy.int8", "numpy.int16", "numpy.int32", "numpy.int64", "numpy.uint16", "numpy.uint32", "numpy.uint64", "numpy.intp",
                                                  "numpy.float16", "numpy.float32", "numpy.complex64", "numpy.complex128") \
                or (dotted.startswith("numbers.") and dotted.count(".") == 1) or dotted.startswith("collections.abc."):
            return ClassRef(dotted)
        return Form.atom(("c", dotted))

    def e_Attribute(self, n, st, fi, depth):
        r = self.pkg.resolve_expr(fi.module, fi if isinstance(fi, FuncInfo) else None, n)
        if r is not None:
            root = n
            while isinstance(root, ast.Attribute):
                root = root.value
            if not (isinstance(root, ast.Name) and root.id in st.env):
                return self._global_value(r, fi)
        base = self.eval(n.value, st, fi, depth)
        return self.getattr(base, n.attr, st, fi, n)

    def getattr(self, base, attr, st, fi, node=None):
        if isinstance(base, SliceV) and attr in ("start", "stop", "step"):
            return {"start": base.lo, "stop": base.hi, "step": base.step}[attr]
        if isinstance(base, ObjV):
            if attr in base.fields:
                return base.fields[attr]
            if attr == "__class__":
                return ClassRef(base.cls)
            meth = self._find_method(base.cls, attr)
            if meth is not None:
                return FuncV(meth, bound_self=base)
            # class-level constants (lookup tables, limits) read through the instance
            for m_ in self.pkg.modules.values():
                if base.cls in m_.classes:
                    for ci_ in self.pkg.mro(m_.name, base.cls):
                        if attr in ci_.class_consts and _literal_like(ci_.class_consts[attr]):
                            try:
                                return self.eval(ci_.class_consts[attr], State(), _ModuleScope(ci_.module), 0)
                            except Exception:
                                break
                    break
            if base.name is not None:
                return Form.sym(f"{base.name}.{attr}")
            if "**" in base.fields and isinstance(base.fields["**"], DictV):
                v = base.fields["**"].get(Const(attr))
                if v is not None:
                    return v
            return Form.atom(("attr", base, attr))
        if isinstance(base, ClassRef):
            # class constants
            for m in self.pkg.modules.values():
                if base.name in m.classes and attr in m.classes[base.name].class_consts:
                    try:
                        return self.eval(m.classes[base.name].class_consts[attr], State(), _ModuleScope(m), 0)
                    except Exception:
                        break
            if attr == "__name__":
                return Const(base.name)
            return Form.atom(("c", f"{base.name}.{attr}"))
        if isinstance(base, Form):
            if attr in _ATTR_AS_FN:
                return mk_fn(_ATTR_AS_FN[attr], [base])
            s = base.sym_name()
            if s == "self" and self.self_class:
                for m in self.pkg.modules.values():
                    if self.self_class in m.classes:
                        for ci in self.pkg.mro(m.name, self.self_class):
                            if attr in ci.class_consts:
                                try:
                                    return self.eval(ci.class_consts[attr], State(), _ModuleScope(ci.module), 0)
                                except Exception:
                                    pass
            return mk_attr(base, attr)
        if isinstance(base, Const) and isinstance(base.v, str):
            return Form.atom(("attr", base, attr))
        return Form.atom(("attr", as_value(base), attr))

    def _find_method(self, cls, name):
        for m in self.pkg.modules.values():
            if cls in m.classes:
                return self.pkg.find_method(m.name, cls, name)
        return None

    def e_UnaryOp(self, n, st, fi, depth):
        v = self.eval(n.operand, st, fi, depth)
        if isinstance(n.op, ast.USub):
            if isinstance(v, VecV):
                return v.map(lambda x: -x if isinstance(x, Form) else mk_fn("neg", [x]))
            if isinstance(v, Form):
                return -v
            return mk_fn("neg", [as_value(v)])
        if isinstance(n.op, ast.UAdd):
            return v
        if isinstance(n.op, ast.Not):
            t = self._truthy(v, st) if not isinstance(v, Form) or v.const_value() is not None else None
            if t is not None:
                return Const(not t)
            return mk_fn("not", [as_value(v)])
        if isinstance(n.op, ast.Invert):
            if isinstance(v, Const) and isinstance(v.v, bool) and self.finite_domain:
                return Const(not v.v)          # ~ of a numpy truth value (a folded isnan / isfinite mask) is its negation
            if isinstance(v, ObjV):
                r = self._call_method(v, "__invert__", [], {}, st, fi, depth, n)
                if r is not None:
                    return r
            return mk_fn("invert", [as_value(v)])
        return Form.atom(("opaque", src_of(n)))

    _OPNAMES = {ast.Add: "add", ast.Sub: "sub", ast.Mult: "mul", ast.Div: "div", ast.Pow: "pow", ast.FloorDiv: "floordiv",
                ast.Mod: "mod", ast.BitAnd: "band", ast.BitOr: "bor", ast.BitXor: "bxor", ast.LShift: "lshift",
                ast.RShift: "rshift", ast.MatMult: "matmul"}
    _DUNDER = {ast.Add: "add", ast.Sub: "sub", ast.Mult: "mul", ast.Div: "truediv"}

    def e_BinOp(self, n, st, fi, depth):
        l = self.eval(n.left, st, fi, depth)
        r = self.eval(n.right, st, fi, depth)
        return self.binop(n.op, l, r, st, fi, depth, n)

    def binop(self, op, l, r, st, fi, depth, node):
        t = type(op)
        if isinstance(l, ObjV) and t in self._DUNDER:
            res = self._call_method(l, f"__{self._DUNDER[t]}__", [r], {}, st, fi, depth, node)
            if res is not None:
                return res
        if isinstance(r, ObjV) and t in self._DUNDER and not isinstance(l, ObjV):
            res = self._call_method(r, f"__r{self._DUNDER[t]}__", [l], {}, st, fi, depth, node)
            if res is not None:
                return res
        # string / tuple concatenation & repetition
        if t is ast.Add and isinstance(l, TupleV) and isinstance(r, TupleV):
            return TupleV(l.items + r.items, l.kind)
        if t is ast.BitOr and isinstance(l, DictV) and isinstance(r, DictV):
            d_ = DictV(list(l.items))           # d | {...} / d |= {...}: the right operand's entries win
            for k_, v_ in r.items:
                d_.set(k_, v_)
            return d_
        if t is ast.Add and isinstance(l, Const) and isinstance(r, Const) and isinstance(l.v, str) and isinstance(r.v, str):
            return Const(l.v + r.v)
        if t is ast.Add and any(_is_text(x) == "fstr" for x in (l, r)) and all(_is_text(x) for x in (l, r)):
            # f'{a}' + ''.join(b) is the text f'{a}{"".join(b)}': one command string, the order of the pieces kept
            return _mk_fstr(_text_parts(l) + _text_parts(r))
        if t is ast.Mult and isinstance(l, Const) and isinstance(l.v, str) and isinstance(r, Form) and r.rational() is not None:
            return Const(l.v * int(r.rational()))
        if t is ast.Mult and isinstance(r, Const) and isinstance(r.v, str) and isinstance(l, Form) and l.rational() is not None:
            return Const(r.v * int(l.rational()))
        if isinstance(l, VecV) or isinstance(r, VecV):
            if all(isinstance(x, (VecV, Form)) for x in (l, r)):
                res = vec_binop(lambda a, b: self.binop(op, a, b, st, fi, depth, node), l, r)
                if res is not None:
                    return res
        for opnd in (l, r):
            if (isinstance(opnd, Const) and opnd.v is None) or (isinstance(opnd, Form) and st.facts.none.get(opnd.key()) is True):
                self.none_arith.append((fi, node, opnd))
            elif isinstance(opnd, Form) and st.facts.truth.get(opnd.key()) is False and opnd.const_value() is None:
                self.falsy_arith.append((fi, node, opnd, depth))
        lf, rf = num_form(l), num_form(r)
        if lf is not None and rf is not None:
            if t is ast.Add:
                return lf + rf
            if t is ast.Sub:
                return lf - rf
            if t is ast.Mult:
                return lf * rf
            if t is ast.Div:
                if rf.is_zero():
                    return mk_fn("div", [lf, rf])
                return lf / rf
            if t is ast.Pow:
                return fpow(lf, rf)
            if t in (ast.FloorDiv, ast.Mod) and rf.is_zero() and _python_int(lf):
                raise _ExprRaise("ZeroDivisionError")        # n // 0, n % 0 on python integers
            # integer-valued constant folding
            a, b = lf.rational(), rf.rational()
            if a is not None and b is not None and a.denominator == 1 and b.denominator == 1:
                a, b = int(a), int(b)
                try:
                    if t is ast.FloorDiv and b != 0:
                        return Form.num(a // b)
                    if t is ast.Mod and b != 0:
                        return Form.num(a % b)
                    if t is ast.LShift and 0 <= b < 4096:
                        return Form.num(a << b)
                    if t is ast.RShift and b >= 0:
                        return Form.num(a >> b)
                    if t is ast.BitAnd:
                        return Form.num(a & b)
                    if t is ast.BitOr:
                        return Form.num(a | b)
                    if t is ast.BitXor:
                        return Form.num(a ^ b)
                except Exception:
                    pass
            return mk_fn(self._OPNAMES.get(t, t.__name__), [lf, rf])
        return mk_fn(self._OPNAMES.get(t, t.__name__), [as_value(l), as_value(r)])

    def e_BoolOp(self, n, st, fi, depth):
        # value semantics of `a or b` / `a and b`
        vals = []
        for v in n.values:
            vals.append(v)
        cur = self.eval(vals[0], st, fi, depth)
        for nxt in vals[1:]:
            t = self._truthy(cur, st)
            if isinstance(n.op, ast.Or):
                if t is True:
                    return cur
                if t is False:
                    cur = self.eval(nxt, st, fi, depth)
                    continue
            else:
                if t is False:
                    return cur
                if t is True:
                    cur = self.eval(nxt, st, fi, depth)
                    continue
            rest = self.eval(nxt, st, fi, depth)
            if vkey(cur) == vkey(rest):
                continue   # `a or a` / `a and a`
            cur = mk_fn("or" if isinstance(n.op, ast.Or) else "and", [as_value(cur), as_value(rest)])
        return cur

    _CMP = {ast.Lt: "lt", ast.LtE: "le", ast.Gt: "gt", ast.GtE: "ge", ast.Eq: "eq", ast.NotEq: "ne", ast.Is: "is",
            ast.IsNot: "isnot", ast.In: "in", ast.NotIn: "notin"}

    def e_Compare(self, n, st, fi, depth):
        marks = self._log_marks()
        walrus = any(isinstance(x, ast.NamedExpr) for x in ast.walk(n))
        saved = dict(st.env) if walrus else None
        t = self.truth(n, st, fi, depth) if len(n.ops) == 1 else None
        if t is not None:
            return Const(t)
        self._log_rewind(marks)    # the operands are evaluated again below: keep one record per call
        if saved is not None:      # ... and an assignment expression takes effect once
            st.env.clear()
            st.env.update(saved)
        left = self.eval(n.left, st, fi, depth)
        parts = []
        for op, c in zip(n.ops, n.comparators):
            r = self.eval(c, st, fi, depth)
            if isinstance(left, ObjV) and type(op) in (ast.Gt, ast.Lt):
                res = self._call_method(left, "__gt__" if isinstance(op, ast.Gt) else "__lt__", [r], {}, st, fi, depth, n)
                if res is not None and len(n.ops) == 1:
                    return res
            parts.append(mk_fn(self._CMP[type(op)], [as_value(left), as_value(r)]))
            left = r
        if len(parts) == 1:
            return parts[0]
        return mk_fn("and", parts)

    def e_IfExp(self, n, st, fi, depth):
        t = self.truth(n.test, st, fi, depth)
        if t is True:
            return self.eval(n.body, st, fi, depth)
        if t is False:
            return self.eval(n.orelse, st, fi, depth)
        a = State(st.env, st.facts.copy(), st.conds)
        self._refine(n.test, a, fi, depth, True)
        va = self.eval(n.body, a, fi, depth)
        b = State(st.env, st.facts.copy(), st.conds)
        self._refine(n.test, b, fi, depth, False)
        vb = self.eval(n.orelse, b, fi, depth)
        if vkey(va) == vkey(vb):
            return va
        c = self.eval(n.test, st, fi, depth)
        return mk_fn("ifexp", [as_value(c), as_value(va), as_value(vb)])

    def e_Tuple(self, n, st, fi, depth):
        return TupleV([self.eval(e, st, fi, depth) for e in n.elts], "tuple")

    def e_List(self, n, st, fi, depth):
        return TupleV([self.eval(e, st, fi, depth) for e in n.elts], "list")

    def e_Set(self, n, st, fi, depth):
        return TupleV([self.eval(e, st, fi, depth) for e in n.elts], "set")

    def e_Dict(self, n, st, fi, depth):
        items = []
        for k, v in zip(n.keys, n.values):
            if k is None:
                continue
            items.append((self.eval(k, st, fi, depth), self.eval(v, st, fi, depth)))
        return DictV(items)

    def e_Starred(self, n, st, fi, depth):
        return mk_fn("star", [as_value(self.eval(n.value, st, fi, depth))])

    def e_Slice(self, n, st, fi, depth):
        return SliceV(self.eval(n.lower, st, fi, depth), self.eval(n.upper, st, fi, depth), self.eval(n.step, st, fi, depth))

    def eval_index(self, n, st, fi, depth):
        return self.eval(n, st, fi, depth)

    def e_Subscript(self, n, st, fi, depth):
        base = self.eval(n.value, st, fi, depth)
        idx = self.eval_index(n.slice, st, fi, depth)
        if isinstance(base, ObjV):
            r = self._call_method(base, "__getitem__", [idx], {}, st, fi, depth, n)
            if r is not None:
                return r
        if isinstance(base, DictV):
            v = base.get(idx)
            if v is None:
                kc = self._const_of(idx, st) if not isinstance(idx, Const) else _MISSING
                if kc is not _MISSING and isinstance(kc, (str, int, bool)):
                    v = base.get(Const(kc))
            if v is not None:
                return v
            # symbolic key: value for each key
            return Form.atom(("idx", base, as_value(idx)))
        if isinstance(base, VecV) and isinstance(idx, Form) and idx.rational() is not None and idx.rational().denominator == 1:
            i = int(idx.rational())
            if -len(base.items) <= i < len(base.items):
                return base.items[i]
        if isinstance(base, Form) and isinstance(idx, SliceV) and _is_sequence_value(base) is True \
                and isinstance(idx.lo, Const) and idx.lo.v is None and isinstance(idx.step, Const) and idx.step.v is None \
                and isinstance(idx.hi, Form) and idx.hi.rational() is not None and idx.hi.rational().denominator == 1 and 0 <= idx.hi.rational() <= 4:
            # x.shape[:k] of an array whose number of dimensions is known: the tuple of its first min(ndim, k) extents
            nd = self._const_of(self._builtin("len", [base], {}, st, fi, depth, n), st)
            if isinstance(nd, int) and not isinstance(nd, bool) and 0 <= nd <= 8:
                return TupleV([mk_idx(as_value(base), Form.num(i_)) for i_ in range(min(nd, int(idx.hi.rational())))], "tuple")
        if isinstance(base, TupleV) and isinstance(idx, SliceV):
            def _b(x):
                if isinstance(x, Const) and x.v is None:
                    return None
                if isinstance(x, Form) and x.rational() is not None and x.rational().denominator == 1:
                    return int(x.rational())
                return _MISSING
            lo_, hi_, st_ = _b(idx.lo), _b(idx.hi), _b(idx.step)
            if _MISSING not in (lo_, hi_, st_):
                return TupleV(base.items[slice(lo_, hi_, st_)], base.kind)     # a literal sequence sliced at constant bounds
        if isinstance(base, TupleV) and isinstance(idx, Form) and idx.rational() is not None and idx.rational().denominator == 1:
            i = int(idx.rational())
            if -len(base.items) <= i < len(base.items):
                return base.items[i]
        if isinstance(base, ClassRef) or (isinstance(base, Form) and base.single_atom() and base.single_atom()[0] == "c" and base.single_atom()[1].startswith("typing.")):
            return base
        if isinstance(base, Form) and base.single_atom() in (("c", "numpy.s_"), ("c", "numpy.index_exp")):
            return idx  # np.s_[...] is the index expression itself
        if isinstance(base, Form) and isinstance(idx, Form) and idx.single_atom() and idx.single_atom()[0] == "fn" and idx.single_atom()[1] in ("argmin", "argmax") \
                and len(idx.single_atom()[2]) == 1 and not idx.single_atom()[3] and vkey(idx.single_atom()[2][0]) == vkey(base):
            return mk_fn(idx.single_atom()[1][3:], [base])      # y[y.argmin()] is y.min()
        if isinstance(base, Form) and isinstance(idx, Const) and idx.v is True and self.finite_domain:
            return base       # x[mask] with a mask that holds everywhere (x[~np.isnan(x)] for finite x)
        if isinstance(base, Form) and _selects_all(idx):
            return base   # x[:] (and x[:, :]) is x as a value; aliasing is the business of the effect analysis
        if isinstance(idx, Form):
            ia = idx.single_atom()
            if ia is not None and ia[0] == "fn" and ia[1] == "loopidx" and idx == Form.atom(ia) and vkey(ia[2][0]) == vkey(as_value(base)):
                return iter_element(base)
        if isinstance(base, Form) and isinstance(idx, Form) and idx.rational() is not None:
            ev = elementwise_items(base, None)
            if ev is not None:
                i = int(idx.rational())
                if -len(ev) <= i < len(ev):
                    return ev[i]
        return mk_idx(as_value(base), as_value(idx))

    def e_JoinedStr(self, n, st, fi, depth):
        parts = []
        for v in n.values:
            if isinstance(v, ast.Constant):
                parts.append(Const(v.value))
            elif isinstance(v, ast.FormattedValue):
                val = self.eval(v.value, st, fi, depth)
                spec = None
                if v.format_spec is not None:
                    spec = self.e_JoinedStr(v.format_spec, st, fi, depth)
                parts.append(mk_fn("fmt", [as_value(val), spec if spec is not None else NONE]))
        return _mk_fstr(parts)

    def e_FormattedValue(self, n, st, fi, depth):
        return mk_fn("fmt", [as_value(self.eval(n.value, st, fi, depth)), NONE])

    def e_Lambda(self, n, st, fi, depth):
        for cand in fi.module.funcs.values():
            if cand.node is n:
                return FuncV(cand, st.env)
        return Form.atom(("opaque", src_of(n)))

    def _comp(self, n, st, fi, depth, elt_nodes):
        env = dict(st.env)
        sub = State(env, st.facts, st.conds)
        iters = []
        for g in n.generators:
            it = self.eval(g.iter, sub, fi, depth)
            iters.append(it)
            self.assign(g.target, iter_element(it), sub, fi, depth, n)
        # literal iteration: expand when the single iterable is a literal list/tuple
        seq0 = self._literal_seq(iters[0]) if len(n.generators) == 1 else None
        if seq0 is not None:
            outs = []
            decided = True
            for item in seq0:
                s2 = State(dict(st.env), st.facts, st.conds)
                self.assign(n.generators[0].target, item, s2, fi, depth, n)
                keep = True
                for cond in n.generators[0].ifs:
                    tv = self.truth(cond, s2, fi, depth)
                    if tv is None:
                        decided = False
                        break
                    if tv is False:
                        keep = False
                        break
                if not decided:
                    break
                if keep:
                    outs.append([self.eval(e, s2, fi, depth) for e in elt_nodes])
            if decided:
                return outs, True
        return [[self.eval(e, sub, fi, depth) for e in elt_nodes]], False

    def e_ListComp(self, n, st, fi, depth):
        outs, exact = self._comp(n, st, fi, depth, [n.elt])
        if exact:
            return TupleV([o[0] for o in outs], "list")
        return mk_fn("listcomp", [as_value(outs[0][0])] + [as_value(self.eval(g.iter, st, fi, depth)) for g in n.generators])

    e_GeneratorExp = e_ListComp
    e_SetComp = e_ListComp

    def e_DictComp(self, n, st, fi, depth):
        outs, exact = self._comp(n, st, fi, depth, [n.key, n.value])
        return mk_fn("dictcomp", [as_value(outs[0][0]), as_value(outs[0][1])])

    def e_NamedExpr(self, n, st, fi, depth):
        v = self.eval(n.value, st, fi, depth)
        self.assign(n.target, v, st, fi, depth, n)
        return v

    # ------------------------------------------------------------------ calls
    def _callee_name(self, func, st, fi):
        if isinstance(func, ast.Name):
            if func.id in st.env:
                return None
            r = self.pkg.resolve_name(fi.module, fi if isinstance(fi, FuncInfo) else None, func.id)
            return r if r is not None else func.id
        if isinstance(func, ast.Attribute):
            root = func
            while isinstance(root, ast.Attribute):
                root = root.value
            if isinstance(root, ast.Name) and root.id in st.env:
                return None
            return self.pkg.resolve_expr(fi.module, fi if isinstance(fi, FuncInfo) else None, func)
        return None

    def _first_match(self, n, st, fi, depth):
        """next((elt for target in TABLE if cond), default) over a literal table: the first row whose condition holds, as a chain
        ifexp(c1, v1, ifexp(c2, v2, ... default)); None when the shape does not apply"""
        g = n.args[0]
        if not (isinstance(g, ast.GeneratorExp) and len(g.generators) == 1 and len(n.args) <= 2 and not n.keywords and not g.generators[0].is_async):
            return None
        gen = g.generators[0]
        it = self.eval(gen.iter, st, fi, depth)
        if not (isinstance(it, TupleV) and len(it.items) <= 32):
            return None
        default = self.eval(n.args[1], st, fi, depth) if len(n.args) == 2 else None
        rows = []
        for item in it.items:
            s2 = State(dict(st.env), st.facts, st.conds)
            self.assign(gen.target, item, s2, fi, depth, n)
            conds, decided_false = [], False
            for c_ in gen.ifs:
                tv = self.truth(c_, s2, fi, depth)
                if tv is False:
                    decided_false = True
                    break
                if tv is None:
                    conds.append(self.eval(c_, s2, fi, depth))
            if decided_false:
                continue
            val = self.eval(g.elt, s2, fi, depth)
            if not conds:
                rows.append((None, val))
                break                       # this row always matches: later rows are never reached
            cf = conds[0] if len(conds) == 1 else mk_fn("and", [as_value(c_) for c_ in conds])
            rows.append((cf, val))
        if rows and rows[-1][0] is None:
            out = rows.pop()[1]
        elif default is not None:
            out = default
        else:
            return None                      # StopIteration path: not modelled
        for cf, val in reversed(rows):
            out = mk_fn("ifexp", [as_value(cf), as_value(val), as_value(out)])
        return out

    def e_Call(self, n, st, fi, depth):
        if isinstance(n.func, ast.Name) and n.func.id == "next" and n.args and "next" not in st.env:
            fm = self._first_match(n, st, fi, depth)
            if fm is not None:
                return fm
        args = []
        for a in n.args:
            if isinstance(a, ast.Starred):
                v = self.eval(a.value, st, fi, depth)
                if isinstance(v, TupleV):
                    args.extend(v.items)
                else:
                    va = v.single_atom() if isinstance(v, Form) else None
                    if va and va[0] == "fn" and va[1] == "ifexp" and len(va[2]) == 3 and isinstance(va[2][1], TupleV) and isinstance(va[2][2], TupleV) \
                            and len(va[2][1].items) == len(va[2][2].items) and v == Form.atom(va):
                        # f(*(A if c else B)): the arguments are chosen together - element i is A[i] if c else B[i]
                        args.extend(mk_fn("ifexp", [va[2][0], x_, y_]) for x_, y_ in zip(va[2][1].items, va[2][2].items))
                    else:
                        args.append(mk_fn("star", [as_value(v)]))
            else:
                args.append(self.eval(a, st, fi, depth))
        kwargs = {}
        for k in n.keywords:
            if k.arg is None:
                v = self.eval(k.value, st, fi, depth)
                if isinstance(v, DictV):
                    for kk, vv in v.items:
                        if isinstance(kk, Const):
                            kwargs[kk.v] = vv
                else:
                    kwargs["**"] = v
            else:
                kwargs[k.arg] = self.eval(k.value, st, fi, depth)
        name = self._callee_name(n.func, st, fi)
        rec = CallRec(n, name, args, kwargs, list(st.conds), fi, depth, st.facts)
        self.calls.append(rec)
        if name is not None and name in self.stop_at_calls and depth == 0 and st.live:
            # the analysis only needs the path up to this call: treat reaching it as a (successful) exit
            self._stack[-1][1].append(Outcome("return", Form.atom(("opaque", "reached " + name)), list(st.conds), n))
            st.live = False
            return Form.atom(("opaque", "stopped at " + name))
        res = self._dispatch_call(n, name, args, kwargs, st, fi, depth, rec)
        rec.result = res
        return res

    def _dispatch_call(self, n, name, args, kwargs, st, fi, depth, rec):
        func = n.func
        # --- method call on a value
        if name is None:
            if isinstance(func, ast.Attribute):
                base = self.eval(func.value, st, fi, depth)
                rec.callee = f"<{type(base).__name__}>.{func.attr}"
                res = self._method_call(base, func.attr, args, kwargs, st, fi, depth, n, rec)
                if func.attr == "fit" and isinstance(base, Form):
                    root = base
                    ra = root.single_atom()
                    if ra is not None and ra[0] == "fn" and ra[1] == "fitted":
                        root, ra = ra[2][0], ra[2][0].single_atom()      # a refit replaces the previously fitted state
                    if ra is not None and ra[0] == "fn" and isinstance(ra[1], str) and ra[1].startswith("sklearn."):
                        # scikit-learn estimators: fit() stores the fitted state on the estimator and returns it.  The fitted
                        # estimator is `fitted(estimator, k)`; the data of the k-th fit are kept in fit_log (forms stay small)
                        k = len(self.fit_log)
                        self.fit_log.append((n, list(args), dict(kwargs), depth))
                        res = mk_fn("fitted", [root, Form.num(k)])
                        if isinstance(func.value, ast.Name) and func.value.id in st.env:
                            st.env[func.value.id] = res
                return res
            fv = self.eval(func, st, fi, depth)
            return self._call_value(fv, args, kwargs, st, fi, depth, n, rec)
        # --- builtins
        if name in _BUILTINS:
            r = self._builtin(name, args, kwargs, st, fi, depth, n)
            if r is not None:
                return r
        # --- the operator module: operator.add(a, b) IS a + b (dispatch tables / shared `_binary_op(self, other, op)` helpers)
        if name.startswith("operator.") and not kwargs:
            tmpl = _OPERATOR_EXPR.get(name.split(".", 1)[1])
            if tmpl is not None and tmpl.count("_op") == len(args):
                saved = {k: st.env.get(k, _MISSING) for k in ("_op0", "_op1", "_op2")}
                try:
                    for i, a in enumerate(args):
                        st.env[f"_op{i}"] = a
                    expr = ast.parse(tmpl, mode="eval").body
                    for sub in ast.walk(expr):
                        ast.copy_location(sub, n)
                    return self.eval(expr, st, fi, depth)
                finally:
                    for k, v in saved.items():
                        if v is _MISSING:
                            st.env.pop(k, None)
                        else:
                            st.env[k] = v
        # --- package callables
        if name.startswith(PKG + "."):
            parts = name.split(".")
            m = self.pkg.modules.get(parts[1])
            if m is not None and len(parts) == 3:
                if parts[2] in m.classes:
                    return self._construct(parts[2], args, kwargs, st, fi, depth, n)
                q = f"{m.name}.{parts[2]}"
                if q in m.funcs:
                    return self._call_func(m.funcs[q], args, kwargs, st, fi, depth, n, rec)
                if parts[2] in m.globals and parts[2] != "gv":
                    # a module-level alias of a callable: _log10 = np.log10, _pow10 = partial(operator.pow, 10), TABLE-free lambdas
                    gvv = self._global_value(name, fi)
                    ga = gvv.single_atom() if isinstance(gvv, Form) else None
                    if isinstance(gvv, (FuncV, ClassRef)) or (ga is not None and ((ga[0] == "c" and ga[1] != name) or (ga[0] == "fn" and ga[1] in ("functools.partial", "operator.itemgetter", "operator.attrgetter")))):
                        return self._call_value(gvv, args, kwargs, st, fi, depth, n, rec)
            if m is not None and len(parts) == 4 and parts[2] in m.classes:
                # Class.method(obj, ...): the plain function, nothing bound
                meth = self.pkg.find_method(m.name, parts[2], parts[3])
                if meth is not None:
                    if _is_static(meth.node):
                        return self._call_func(meth, args, kwargs, st, fi, depth, n, rec)
                    return self._call_func(meth, args[1:], kwargs, st, fi, depth, n, rec, bound_self=args[0]) if args else None
            if m is not None and len(parts) == 4 and parts[2] in m.globals and parts[2] != "gv" and parts[2] not in m.classes:
                # method of a module-level object (lookup table): TABLE.get(key), TABLE.items() ...
                obj = self._global_value(".".join(parts[:3]), fi)
                oa = obj.single_atom() if isinstance(obj, Form) else None
                if isinstance(obj, (DictV, TupleV)) or (oa is not None and oa[0] == "fn" and oa[1] == "re.compile"):
                    rec.callee = f"<{type(obj).__name__}>.{parts[3]}"
                    return self._method_call(obj, parts[3], args, kwargs, st, fi, depth, n, rec)
            if len(parts) >= 4 and parts[2] == "gv":
                rec.callee = name
                return Form.atom(("fn", name, tuple(map(as_value, args)), tuple(sorted((k, as_value(v)) for k, v in kwargs.items()))))
        if name in ("numpy.any", "numpy.all") and len(args) == 1 and not kwargs and isinstance(args[0], Const) and isinstance(args[0].v, bool):
            return args[0]
        if name in ("bool", "builtins.bool") and len(args) == 1 and not kwargs:
            v = args[0]
            if isinstance(v, Const) and isinstance(v.v, bool):
                return v
            tv = self._truthy(v, st) if isinstance(v, (Const, Form)) else None
            if tv is not None:
                return Const(bool(tv))          # a flag whose truth is known on this path
            return mk_fn("bool", [as_value(v)])

        if name in _IDENTITY_FNS and args:
            if name in ("float", "complex", "numpy.float64") and isinstance(args[0], Const):
                return mk_fn(name, [args[0]])
            v = args[0]
            if name.startswith("numpy.") and isinstance(v, Form):
                v = _elements_of(v, lambda inner: self._isinstance(inner, ["str"], st) is False)      # np.asarray(list(x)) holds the elements of x - unless x is text (list('101') splits it)
            if isinstance(v, TupleV) and name.startswith("numpy."):
                if v.items and len(v.items) <= 8 and all(isinstance(i, Form) for i in v.items):
                    return VecV(v.items)
                return mk_fn("array", [v])
            return v
        if self.finite_domain and name == "numpy.nan_to_num" and args and isinstance(args[0], Form):
            return args[0]
        if self.finite_domain and name in ("numpy.isfinite",) and len(args) == 1 and not kwargs:
            return Const(True)
        if self.finite_domain and name in ("numpy.isnan", "numpy.isinf") and len(args) == 1 and not kwargs:
            return Const(False)
        if name == "numpy.where" and len(args) == 3 and not kwargs and isinstance(args[1], Form) and isinstance(args[2], Form) and args[2].rational() is not None:
            # a literal column mask [[m0], [m1], ...] selects whole rows: the rows it switches off hold the scalar
            m_ = args[0]
            ma_ = m_.single_atom() if isinstance(m_, Form) else None
            if ma_ is not None and ma_[0] == "fn" and ma_[1] in ("array", "asarray") and len(ma_[2]) == 1:
                m_ = ma_[2][0]
            rows_ = list(m_.items) if isinstance(m_, (TupleV, VecV)) else None
            if rows_ and len(rows_) <= 4 and all(isinstance(r_, (TupleV, VecV)) and len(r_.items) == 1 and isinstance(r_.items[0], Const) and isinstance(r_.items[0].v, bool) for r_ in rows_):
                out_ = args[1]
                for i_, r_ in enumerate(rows_):
                    if not r_.items[0].v:
                        out_ = mk_fn("setitem", [out_, Form.num(i_), args[2]])
                return out_
        if name == "numpy.issubdtype" and len(args) == 2 and not kwargs and all(isinstance(a_, ClassRef) for a_ in args) and args[1].name in ("numpy.number", "numpy.integer", "numpy.floating", "numpy.complexfloating", "numpy.inexact", "numpy.generic"):
            # numpy's scalar hierarchy for the type objects a dtype argument is written with
            fam_ = {"int": "integer", "float": "floating", "complex": "complexfloating", "bool": "bool", "str": "str", "numpy.bool_": "bool", "numpy.str_": "str", "object": "object"}.get(args[0].name)
            short_ = args[0].name.split(".")[-1]
            if fam_ is None and args[0].name.startswith("numpy."):
                fam_ = "integer" if short_.startswith(("int", "uint")) or short_ in ("integer", "signedinteger", "unsignedinteger") else \
                       "floating" if short_.startswith("float") else "complexfloating" if short_.startswith("complex") else None
            if fam_ is not None:
                sup_ = {"integer": ("integer", "number", "generic"), "floating": ("floating", "inexact", "number", "generic"), "complexfloating": ("complexfloating", "inexact", "number", "generic"),
                        "bool": ("generic",), "str": ("generic",), "object": ()}[fam_]
                return Const(args[1].name.split(".")[-1] in sup_)
        if name == "numpy.isin" and len(args) == 2 and not kwargs and isinstance(args[0], Form) and isinstance(args[1], (TupleV, VecV)) and 1 <= len(args[1].items) <= 6 \
                and all(isinstance(i_, Form) and i_.rational() is not None for i_ in args[1].items):
            # membership in a short literal set is the disjunction of the equalities
            eqs = [mk_fn("eq", [args[0], i_]) for i_ in args[1].items]
            out_ = eqs[0]
            for e_ in eqs[1:]:
                out_ = mk_fn("bor", [out_, e_])
            return out_
        if name == "numpy.broadcast_to" and len(args) == 2 and not kwargs and isinstance(args[0], Form):
            self.broadcasts.append((args[0], args[1]))
            return args[0]          # the same values seen with another shape (what arithmetic does with the operand anyway)
        if name == "re.sub" and len(args) == 3 and not kwargs and all(isinstance(a_, Const) and isinstance(a_.v, str) for a_ in args):
            import re as _re
            try:
                return Const(_re.sub(args[0].v, args[1].v, args[2].v))      # a pure function of three constants (option spelling normalised)
            except Exception:
                pass
        if name == "numpy.ndim" and len(args) == 1 and not kwargs and isinstance(args[0], Form) and (args[0].rational() is not None or self._integer_valued(args[0], st)
                                                                                                     or self._isinstance(args[0], ["int", "float"], st) is True):
            return Form.num(0)           # a number has no axes
        if name in ("numpy.ndim", "numpy.size", "numpy.shape") and len(args) == 1 and not kwargs and isinstance(args[0], (Form, ObjV)):
            try:
                return self.getattr(args[0], name.split(".")[1], st, fi)      # np.ndim(x) is x.ndim for anything that has axes
            except Exception:
                pass
        if name == "numpy.flatnonzero" and len(args) == 1 and not kwargs:
            return mk_idx(mk_fn("where", [as_value(args[0])]), Form.num(0))       # flatnonzero(c) is where(c)[0] for the 1-D arrays it is applied to
        if name == "functools.reduce" and 2 <= len(args) <= 3 and not kwargs and isinstance(args[1], TupleV) and (args[1].items or len(args) == 3):
            items = list(args[1].items)
            acc = args[2] if len(args) == 3 else items.pop(0)
            for item in items:
                acc = self._call_value(args[0], [acc, item], {}, st, fi, depth, n, CallRec(n, None, [], {}, [], fi, depth, st.facts))
            return acc
        if name == "itertools.pairwise" and len(args) == 1 and not kwargs and isinstance(args[0], TupleV):
            its = args[0].items
            return TupleV([TupleV([a_, b_], "tuple") for a_, b_ in zip(its, its[1:])], "list")
        if name == "itertools.chain" and not kwargs and all(isinstance(a_, TupleV) for a_ in args):
            return TupleV([x_ for a_ in args for x_ in a_.items], "list")
        if args and isinstance(args[0], VecV) and len(args) == 1 and not kwargs and (name.startswith("numpy.") or name.startswith("scipy.special.") or name.startswith("math.")) \
                and name.split(".")[-1] in _ELEMENTWISE:
            sub = []
            for item in args[0].items:
                sub.append(self._dispatch_call(n, name, [item], {}, st, fi, depth, rec))
            return VecV(sub)
        short = _FN_NAMES.get(name)
        if short is None:
            if name.startswith("numpy.") and name.count(".") == 1:
                short = name.split(".")[1]
            else:
                short = name
        if short == "log10" and len(args) == 1 and isinstance(args[0], Form):
            return mk_fn("log10", [args[0]])
        if name.startswith(("numpy.", "scipy.")):
            last, cargs, ckw = canon_call(name.rsplit(".", 1)[1], args, kwargs)
            if (cargs, ckw) != (args, kwargs) or last != name.rsplit(".", 1)[1]:
                if last != name.rsplit(".", 1)[1]:
                    short = name.rsplit(".", 1)[0] + "." + last if short == name else last
                args, kwargs = cargs, ckw
        if self.tag_draws and name.startswith("numpy.random.") and name.rsplit(".", 1)[1] in ("normal", "standard_normal", "randn", "rand", "random", "uniform", "random_sample"):
            # two draws are two values even when their arguments agree: number them (sigma1*randn(N) + sigma2*randn(N) has two noise terms)
            self._draws += 1
            kwargs = dict(kwargs)
            kwargs["draw"] = Form.num(self._draws)
        return mk_fn(short, [as_value(a) for a in args], [(k, as_value(v)) for k, v in kwargs.items()])

    def _call_value(self, fv, args, kwargs, st, fi, depth, n, rec):
        if isinstance(fv, FuncV):
            rec.callee = PKG + "." + fv.fi.qualname
            return self._call_func(fv.fi, args, kwargs, st, fi, depth, n, rec, closure=fv.env, bound_self=fv.bound_self)
        if isinstance(fv, ClassRef) and fv.name in ("int", "float", "bool", "complex") and len(args) == 1 and not kwargs:
            # a conversion passed around as a value (`cast=float` ... `cast(x)`) is the conversion
            rec.callee = fv.name
            if fv.name == "int":
                r_ = self._builtin("int", args, kwargs, st, fi, depth, n)
                if r_ is not None:
                    return r_
            return self._dispatch_call(n, fv.name, args, kwargs, st, fi, depth, rec)
        if isinstance(fv, ClassRef):
            rec.callee = f"{PKG}.typing.{fv.name}" if fv.name in SIGNAL_CLASSES else fv.name
            if fv.name in SIGNAL_CLASSES or self._find_class(fv.name):
                return self._construct(fv.name, args, kwargs, st, fi, depth, n)
        if isinstance(fv, ObjV):
            r = self._call_method(fv, "__call__", args, kwargs, st, fi, depth, n)
            if r is not None:
                return r
        if isinstance(fv, Form):
            a = fv.single_atom()
            if a is not None and a[0] == "c" and isinstance(a[1], str) and "." in a[1] and not a[1].startswith("scipy.constants."):
                # a library function held in a local (`transform = np.fft.fft; transform(x)`)
                rec.callee = a[1]
                return self._dispatch_call(n, a[1], args, kwargs, st, fi, depth, rec)
            # self.__class__(...) / self.type()(...) / type(self)(...)
            cls = self._dynamic_class_of(fv)
            if cls is not None:
                rec.callee = f"{PKG}.typing.{cls}"
                return self._construct(cls, args, kwargs, st, fi, depth, n)
            if a is not None and a[0] == "fn" and a[1] in ("vectorize", "numpy.vectorize") and a[2] and isinstance(a[2][0], FuncV):
                return self._call_value(a[2][0], args, kwargs, st, fi, depth, n, rec)
            if a is not None and a[0] == "fn" and a[1] in ("functools.partial", "partial") and a[2]:
                # partial(f, *bound, **kw)(*args, **more) IS f(*bound, *args, **kw, **more)
                kw = dict(a[3])
                kw.update(kwargs)
                rec.args, rec.kwargs = list(a[2][1:]) + list(args), kw        # the record shows the call actually made
                return self._call_value(a[2][0], list(a[2][1:]) + list(args), kw, st, fi, depth, n, rec)
            if a is not None and a[0] == "fn" and a[1] == "operator.itemgetter" and len(a[2]) == 1 and len(args) == 1 and not kwargs:
                return self._dispatch_call(n, "operator.getitem", [args[0], a[2][0]], {}, st, fi, depth, rec)
            if a is not None and a[0] == "fn" and a[1] == "operator.itemgetter" and len(a[2]) > 1 and len(args) == 1 and not kwargs:
                return TupleV([self._dispatch_call(n, "operator.getitem", [args[0], k_], {}, st, fi, depth, rec) for k_ in a[2]], "tuple")
            if a is not None and a[0] == "fn" and a[1] == "operator.attrgetter" and a[2] and len(args) == 1 and not kwargs \
                    and all(isinstance(k_, Const) and isinstance(k_.v, str) and "." not in k_.v for k_ in a[2]):
                got = [self.getattr(args[0], k_.v, st, fi, n) for k_ in a[2]]
                return got[0] if len(got) == 1 else TupleV(got, "tuple")
            if a is not None and a[0] == "attr" and isinstance(a[1], (DictV, TupleV)) and isinstance(a[2], str):
                return self._method_call(a[1], a[2], args, kwargs, st, fi, depth, n, rec)       # a bound method held as a value: d.get
            s = fv.sym_name()
            if s is not None and self.param_classes.get(s) in SIGNAL_CLASSES:
                return Form.atom(("meth", fv, "__call__", tuple(map(as_value, args)), tuple(sorted((k, as_value(v)) for k, v in kwargs.items()))))
        return Form.atom(("fn", "call", (as_value(fv),) + tuple(map(as_value, args)), tuple(sorted((k, as_value(v)) for k, v in kwargs.items()))))

    def _dynamic_class_of(self, fv):
        a = fv.single_atom() if isinstance(fv, Form) else None
        if a is None:
            return None
        if a == ("sym", "self.__class__") and self.self_class:
            return self.self_class
        if a[0] == "fn" and a[1] == "type" and len(a[2]) == 1 and isinstance(a[2][0], Form) and a[2][0].sym_name() == "self" and self.self_class:
            return self.self_class
        if a[0] == "meth" and a[2] == "type" and isinstance(a[1], Form) and a[1].sym_name() == "self" and self.self_class:
            return self.self_class
        return None

    def _find_class(self, name):
        for m in self.pkg.modules.values():
            if name in m.classes:
                return m.classes[name]
        return None

    def _construct(self, cls, args, kwargs, st, fi, depth, n):
        ci = self._find_class(cls)
        fields = {}
        if cls in ("electrical_signal", "optical_signal"):
            names = ["signal", "noise", "dtype"] if cls == "electrical_signal" else ["signal", "noise", "n_pol", "dtype"]
            vals = dict(zip(names, args))
            vals.update({k: v for k, v in kwargs.items() if k in names})
            fields["signal"] = vals.get("signal", Form.atom(("opaque", "missing signal")))
            fields["noise"] = vals.get("noise", NONE)
            if cls == "optical_signal":
                sig0 = fields["signal"]
                owner = sig0.sym_name() if isinstance(sig0, Form) else None
                if "n_pol" not in vals and owner is not None and owner.endswith(".signal"):
                    # rebuilt from the whole signal of an existing object: the constructor derives the same layout (o.n_pol is
                    # a function of o.signal's shape - the invariant C01.4 establishes)
                    fields["n_pol"] = Form.sym(owner[:-len(".signal")] + ".n_pol")
                else:
                    fields["n_pol"] = vals.get("n_pol", Form.atom(("fn", "n_pol_of", (as_value(sig0),), ())))
            fields["execution_time"] = Form.num(0)
            if "dtype" in vals:
                fields["__dtype__"] = vals["dtype"]
                dt = vals["dtype"]
                dta = dt.single_atom() if isinstance(dt, Form) else None
                promoting = dta is not None and dta[0] == "fn" and dta[1] == "result_type"
                if not promoting and not (isinstance(dt, Const) and dt.v is None):
                    # an explicit dtype casts the samples (possibly lossy): keep the cast visible in the value form
                    for k in ("signal", "noise"):
                        if isinstance(fields.get(k), Form):
                            fields[k] = mk_fn("astype", [fields[k], as_value(dt)])
            return ObjV(cls, fields, n)
        if cls == "binary_sequence":
            fields["data"] = args[0] if args else kwargs.get("data", NONE)
            fields["execution_time"] = Form.num(0)
            return ObjV(cls, fields, n)
        if cls == "eye":
            for k, v in kwargs.items():
                if k != "**":
                    fields[k] = v
            if "**" in kwargs:
                fields["**"] = kwargs["**"]
            return ObjV(cls, fields, n)
        return ObjV(cls, {"__args__": TupleV(args)}, n)

    def _is_leaf(self, callee: FuncInfo):
        """a helper that calls no other function of the package (argument normalisers, unit conversions): reading it costs one level"""
        c = self._leaf_cache.get(callee.qualname)
        if c is None:
            c = True
            for n_ in ast.walk(callee.node):
                if isinstance(n_, ast.Call):
                    r_ = self.pkg.resolve_expr(callee.module, callee, n_.func)
                    if r_ is not None and r_.startswith(PKG + ".") and r_.split(".")[1] in self.pkg.modules and r_.split(".")[-1] not in ("tic", "toc"):
                        c = False
                        break
            self._leaf_cache[callee.qualname] = c
        return c

    def _should_inline(self, callee: FuncInfo, depth):
        if not self.inline or depth >= self.MAX_DEPTH + 2 or (depth >= self.MAX_DEPTH and not self._is_leaf(callee)):
            return False
        if callee.qualname in self.no_inline or callee.name in self.no_inline:
            return False
        if self.inline_only is not None and callee.qualname not in self.inline_only and callee.name not in self.inline_only:
            return False
        if any(f is callee for f, _ in self._stack):
            return False
        return True

    def _call_func(self, callee: FuncInfo, args, kwargs, st, fi, depth, n, rec, closure=None, bound_self=None):
        cargs, ckw = list(args), dict(kwargs)
        if kwargs:
            # canonical shape of the call: keyword arguments naming leading parameters become positional
            params = [p for p in callee.params if not (bound_self is not None and p == "self")]
            while len(cargs) < len(params) and params[len(cargs)] in ckw:
                cargs.append(ckw.pop(params[len(cargs)]))
            if rec is not None and getattr(rec, "node", None) is n:
                rec.args, rec.kwargs = cargs, ckw
        if callee.qualname in ("utils.tic",):
            return NONE
        if callee.qualname in ("utils.toc",):
            return Form.atom(("fn", "toc", (), ()))
        if not self._should_inline(callee, depth):
            nm = callee.qualname.split(".", 1)[1] if callee.cls is None else callee.qualname
            av = [as_value(a) for a in cargs]
            if bound_self is not None:
                return Form.atom(("meth", as_value(bound_self), callee.name, tuple(av), tuple(sorted((k, as_value(v)) for k, v in ckw.items()))))
            return mk_fn(nm, av, [(k, as_value(v)) for k, v in ckw.items()])
        sub = State({}, st.facts.copy(), list(st.conds))
        if closure:
            for k, v in closure.items():
                sub.env[k] = v
            if callee.parent is not None and fi is callee.parent:
                # late binding: a nested function called from the body of the function that defined it reads the enclosing
                # variables as they are NOW (a helper defined at the top that uses a local assigned further down)
                sub.env.update(st.env)
        elif callee.parent is not None and self._stack and any(f is callee.parent for f, _ in self._stack):
            sub.env.update(st.env)
        # methods analysed with a concrete receiver class
        old_self_class = self.self_class
        if bound_self is not None and isinstance(bound_self, ObjV):
            self.self_class = bound_self.cls
        try:
            self._bind_params(callee, sub, args, kwargs, bound_self=bound_self)
            before = {p_: sub.env.get(p_) for p_ in callee.params}
            outs = self._exec_function(callee, sub, depth + 1)
        finally:
            self.self_class = old_self_class
        # a helper that stores into the array it was handed (`def _blank_y(field): field[1] = 0`) has stored into the caller's array:
        # the element store recorded on the parameter is written through to the argument when that is a plain name or attribute
        try:
            pos = [p_ for p_ in callee.params if not (bound_self is not None and p_ == "self")]
            for p_, a_node in zip(pos, getattr(n, "args", []) or []):
                after = sub.env.get(p_)
                if isinstance(a_node, (ast.Name, ast.Attribute)) and isinstance(after, Form) and isinstance(before.get(p_), Form) and vkey(after) != vkey(before[p_]):
                    aa = after.single_atom()
                    if aa is not None and aa[0] == "fn" and aa[1] == "setitem" and aa[2] and isinstance(aa[2][0], Form) and vkey(aa[2][0]) == vkey(before[p_]):
                        self.assign(a_node, after, st, fi, depth, getattr(self, "_cur_stmt", None) or n)
        except Exception:
            pass
        rets = [o for o in outs if o.kind == "return"]
        raises = [o for o in outs if o.kind == "raise"]
        rec_out = getattr(rec, "result", None)
        self._callee_outcomes = getattr(self, "_callee_outcomes", {})
        self._callee_outcomes[id(n)] = outs
        if rets:
            self.nested_raises.extend(raises)
        if not rets:
            # every path raises: the caller's path ends here
            if raises:
                # every path of the callee raises: each of them ends the caller's path, in the callee's order (the last one is
                # the raise reached when all earlier, undecided guards were passed)
                for r_ in raises:
                    self._stack[-1][1].append(Outcome("raise", None, list(st.conds) + [(f"in {callee.qualname}", True)] + list(r_.conds[len(st.conds):]), r_.node if r_.node is not None else n, r_.exc))
                st.live = False
            return Form.atom(("opaque", f"noreturn {callee.qualname}"))
        # facts learned on surviving paths: conditions that lead only to raise are excluded on return
        if len(rets) == 1:
            v = rets[0].value
        else:
            v = self._join_vals(n, f"ret:{callee.name}", [r.value for r in rets])
        return v

    def _special_method(self, obj, name, args, kwargs):
        if obj.cls in ("electrical_signal", "optical_signal"):
            if name in ("len", "__len__") and not args:
                return mk_fn("siglen", [as_value(obj.fields.get("signal"))])
        if obj.cls == "binary_sequence" and name in ("len", "__len__") and not args:
            return mk_fn("size", [as_value(obj.fields.get("data"))])
        return None

    def _call_method(self, obj: ObjV, name, args, kwargs, st, fi, depth, n):
        sp = self._special_method(obj, name, args, kwargs)
        if sp is not None:
            return sp
        meth = self._find_method(obj.cls, name)
        if meth is None:
            return None
        rec = CallRec(n, f"{PKG}.{meth.qualname}", args, kwargs, list(st.conds), fi, depth, st.facts)
        self.calls.append(rec)
        r = self._call_func(meth, args, kwargs, st, fi, depth, n, rec, bound_self=obj)
        rec.result = r
        return r

    def _method_call(self, base, attr, args, kwargs, st, fi, depth, n, rec):
        if isinstance(base, Form) and attr in ("lower", "upper", "strip", "lstrip", "rstrip", "casefold", "startswith", "endswith", "replace", "split"):
            e_ = st.facts.eq.get(base.key())
            if isinstance(e_, Const) and isinstance(e_.v, str):
                base = e_                                      # option strings are assumed by value: 'NRZ'.lower() is 'nrz'
        if isinstance(base, ObjV):
            sp = self._special_method(base, attr, args, kwargs)
            if sp is not None:
                rec.callee = f"{PKG}.typing.{base.cls}.{attr}"
                return sp
            meth = self._find_method(base.cls, attr)
            if meth is not None:
                rec.callee = f"{PKG}.{meth.qualname}"
                return self._call_func(meth, args, kwargs, st, fi, depth, n, rec, bound_self=base)
            fv = self.getattr(base, attr, st, fi, n)
            return self._call_value(fv, args, kwargs, st, fi, depth, n, rec)
        if isinstance(base, DictV):
            if attr == "get" and args:
                key = args[0]
                v = base.get(key)
                known = isinstance(key, Const)
                if v is None:
                    kc = self._const_of(key, st) if not isinstance(key, Const) else _MISSING
                    if kc is not _MISSING and isinstance(kc, (str, int, bool)):
                        v = base.get(Const(kc))
                        known = True
                if v is not None:
                    return v
                if known or not base.items:
                    return args[1] if len(args) > 1 else NONE
                # a key that is not known on this path: any entry or the default
                return Form.atom(("meth", base, "get", tuple(map(as_value, args)), ()))
            if attr in ("keys", "values", "items"):
                if attr == "keys":
                    return TupleV([k for k, _ in base.items], "list")
                if attr == "values":
                    return TupleV([v for _, v in base.items], "list")
                return TupleV([TupleV([k, v]) for k, v in base.items], "list")
            if attr == "update" and len(args) <= 1:
                src = args[0] if args else None
                pairs = None
                if src is None:
                    pairs = []
                elif isinstance(src, DictV):
                    pairs = list(src.items)
                elif isinstance(src, TupleV) and all(isinstance(p_, TupleV) and len(p_.items) == 2 for p_ in src.items):
                    pairs = [(p_.items[0], p_.items[1]) for p_ in src.items]
                if pairs is not None and "**" not in kwargs:
                    for k_, v_ in pairs + [(Const(k_), v_) for k_, v_ in kwargs.items()]:
                        base.set(k_, v_)
                        self.store_log.append((fi, n, ("idx", base, k_, None), v_, list(st.conds), depth))
                    return NONE
            if attr == "setdefault" and 1 <= len(args) <= 2 and isinstance(args[0], Const):
                cur = base.get(args[0])
                if cur is None:
                    cur = args[1] if len(args) == 2 else NONE
                    base.set(args[0], cur)
                return cur
        if isinstance(base, Const) and isinstance(base.v, bool) and attr in ("any", "all") and not args:
            return base    # a decided scalar comparison: (x < 0).any() is x < 0
        if isinstance(base, Const) and isinstance(base.v, str):
            if attr in ("lower", "upper", "strip", "lstrip", "rstrip", "casefold") and not args:
                return Const(getattr(base.v, attr)())
            if attr == "format":
                fs = _format_as_fstr(base.v, args, kwargs)
                if fs is not None:
                    return fs
                return mk_fn("strformat", [base] + [as_value(a) for a in args])
            if attr == "join" and args:
                return mk_fn("strjoin", [base, as_value(args[0])])
            if attr in ("startswith", "endswith") and args and isinstance(args[0], Const):
                return Const(getattr(base.v, attr)(args[0].v))
            if attr == "replace" and len(args) == 2 and all(isinstance(a_, Const) and isinstance(a_.v, str) for a_ in args):
                return Const(base.v.replace(args[0].v, args[1].v))
        if isinstance(base, TupleV) and base.kind == "list" and attr == "append" and args:
            base.items.append(args[0])
            return NONE
        if isinstance(base, Form):
            s = base.sym_name()
            # string-valued parameters with assumed constant value
            e = st.facts.eq.get(base.key())
            if isinstance(e, Const) and isinstance(e.v, str) and attr in ("lower", "upper", "strip") and not args:
                return Const(getattr(e.v, attr)())
            # receiver of a known package class (parameter annotated / assumed)
            cls = None
            if s is not None:
                cls = self.param_classes.get(s)
                if s == "self" and self.self_class:
                    cls = self.self_class
            if cls is None:
                inst = st.facts.inst.get(base.key())
                if inst and len(inst) == 1:
                    cls = next(iter(inst))
            if cls is not None and self._find_class(cls) is not None:
                meth = self._find_method(cls, attr)
                if meth is not None:
                    rec.callee = f"{PKG}.{meth.qualname}"
                    if self._should_inline(meth, depth) and meth.name in _INLINE_METHODS:
                        old = self.self_class
                        self.self_class = cls
                        try:
                            sub = State({}, st.facts.copy(), list(st.conds))
                            self._bind_params(meth, sub, args, kwargs, bound_self=base)
                            outs = self._exec_function(meth, sub, depth + 1)
                        finally:
                            self.self_class = old
                        rets = [o for o in outs if o.kind == "return"]
                        if len(rets) == 1:
                            return rets[0].value
                        if rets:
                            return self._join_vals(n, f"ret:{meth.name}", [r.value for r in rets])
                    return Form.atom(("meth", base, attr, tuple(map(as_value, args)), tuple(sorted((k, as_value(v)) for k, v in kwargs.items()))))
            if s is not None and s.rsplit(".", 1)[-1] in ("signal", "noise", "data") and attr not in NDARRAY_API:
                self.bad_attrs.append((fi, n, base, attr))
            ba = base.single_atom()
            if ba is not None and ba[0] == "fn" and ba[1] == "re.compile" and ba[2] and attr in ("match", "fullmatch", "search", "split", "sub", "findall"):
                # a precompiled pattern: P.match(s) is re.match(pattern, s)
                rec.callee = "re." + attr
                return mk_fn("re." + attr, [ba[2][0]] + [as_value(x) for x in args], [(k, as_value(v)) for k, v in kwargs.items()])
            if attr in _IDENTITY_METHODS:
                if attr == "astype" and self.keep_astype:
                    return mk_fn("astype", [base] + [as_value(a) for a in args])
                return base
            if attr in _ARRAY_METHODS_AS_FN:
                _, cargs, ckw = canon_call(_ARRAY_METHODS_AS_FN[attr], [base] + list(args), kwargs)
                return mk_fn(_ARRAY_METHODS_AS_FN[attr], [as_value(a) for a in cargs], [(k, as_value(v)) for k, v in ckw.items()])
            a = base.single_atom()
            if a is not None and a[0] == "c":
                # module-level object from a library: warnings.warn(...), plt.plot(...), (np.random).standard_normal(...)
                rec.callee = a[1] + "." + attr
                if a[1].startswith(("numpy", "scipy", "math")):
                    return self._dispatch_call(n, a[1] + "." + attr, args, kwargs, st, fi, depth, rec)
                return mk_fn(a[1] + "." + attr, [as_value(x) for x in args], [(k, as_value(v)) for k, v in kwargs.items()])
        return Form.atom(("meth", as_value(base), attr, tuple(map(as_value, args)), tuple(sorted((k, as_value(v)) for k, v in kwargs.items()))))

    def _builtin(self, name, args, kwargs, st, fi, depth, n):
        if name == "len" and len(args) == 1 and isinstance(args[0], Form):
            a0 = args[0].single_atom()
            if a0 is not None and a0[0] == "sym" and a0[1].endswith(".shape"):
                return Form.sym(a0[1][:-len("shape")] + "ndim")          # len(x.shape) is x.ndim
            if a0 is not None and a0[0] == "attr" and a0[2] == "shape":
                return self.getattr(a0[1], "ndim", st, fi, n)
        if name == "dict" and len(args) <= 1 and "**" not in kwargs:
            pairs = []
            if args:
                if isinstance(args[0], DictV):
                    pairs = list(args[0].items)
                elif isinstance(args[0], TupleV) and all(isinstance(p_, TupleV) and len(p_.items) == 2 for p_ in args[0].items):
                    pairs = [(p_.items[0], p_.items[1]) for p_ in args[0].items]
                else:
                    pairs = None
            if pairs is not None:
                d_ = DictV(list(pairs))
                for k_, v_ in kwargs.items():
                    d_.set(Const(k_), v_)
                return d_
        if name == "len" and len(args) == 1:
            v = args[0]
            if isinstance(v, TupleV):
                return Form.num(len(v.items))
            if isinstance(v, Const) and isinstance(v.v, str):
                return Form.num(len(v.v))
            if isinstance(v, ObjV):
                r = self._call_method(v, "__len__", [], {}, st, fi, depth, n)
                if r is not None:
                    return r
            return mk_fn("len", [as_value(v)])
        if name == "int" and len(args) == 1:
            v = args[0]
            if isinstance(v, Form) and v.rational() is not None:
                q = v.rational()
                return Form.num(int(q))
            if isinstance(v, Form) and self._integer_valued(v, st):
                return v           # an integer (guarded by isinstance, or so by the property's domain) is its own int()
            if isinstance(v, Form):
                cv = self._concrete(v, st)
                if isinstance(cv, Fraction) and cv.denominator == 1:
                    return v       # assumed to have an integer value on this run
            return mk_fn("int", [as_value(v)])
        if name == "isinstance" and len(args) == 2:
            if isinstance(n, ast.Call) and len(n.args) == 2:
                try:
                    dec = self._isinstance(args[0], self._class_names(n.args[1], st, fi, depth), st)
                except Exception:
                    dec = None
                if dec is not None:
                    return Const(bool(dec))        # `return isinstance(x, T)` in a predicate helper
            return None
        if name == "type" and len(args) == 1:
            if isinstance(args[0], ObjV):
                return ClassRef(args[0].cls)
            if isinstance(args[0], Form) and args[0].sym_name() == "self" and self.self_class:
                return ClassRef(self.self_class)
            return mk_fn("type", [as_value(args[0])])
        if name == "getattr" and len(args) >= 2 and isinstance(args[1], Const):
            return self.getattr(args[0], args[1].v, st, fi)
        if name == "super" and not args:
            cls = fi.cls if isinstance(fi, FuncInfo) else None
            return _SuperV(cls, st.env.get("self"))
        if name == "str" and len(args) == 1:
            if isinstance(args[0], Const):
                return Const(str(args[0].v))
            if isinstance(args[0], Form) and args[0].rational() is not None and args[0].rational().denominator == 1:
                return Const(str(int(args[0].rational())))
            if isinstance(args[0], Form):
                e_ = st.facts.eq.get(args[0].key())
                if isinstance(e_, Const) and isinstance(e_.v, str):
                    return e_            # an option assumed to be this string is its own str()
            return mk_fn("str", [as_value(args[0])])
        if name in ("min", "max") and len(args) >= 2:
            qs = [a.rational() if isinstance(a, Form) else None for a in args]
            if all(q is not None for q in qs):
                return Form.num(min(qs) if name == "min" else max(qs))
            if len(args) == 2 and self.domain_sign is not None and isinstance(args[0], Form) and isinstance(args[1], Form):
                sg = self.domain_sign(args[0] - args[1])        # a >= b on the property's domain: max(a, b) is a, min(a, b) is b
                if sg in ("ge0", 1, 0):
                    return args[0] if name == "max" else args[1]
                if sg in ("le0", -1):
                    return args[1] if name == "max" else args[0]
        if name in ("all", "any") and len(args) == 1 and not kwargs and isinstance(args[0], TupleV) and 1 <= len(args[0].items) <= 32 \
                and all(isinstance(x_, (Form, Const)) for x_ in args[0].items):
            # all((c1, c2, ...)) over a literal sequence of conditions is their conjunction
            return args[0].items[0] if len(args[0].items) == 1 else mk_fn("and" if name == "all" else "or", list(args[0].items))
        if name == "divmod" and len(args) == 2 and not kwargs and all(isinstance(a_, Form) for a_ in args):
            return TupleV([self.binop(ast.FloorDiv(), args[0], args[1], st, fi, depth, n), self.binop(ast.Mod(), args[0], args[1], st, fi, depth, n)])   # (a // b, a % b)
        if name in ("list", "tuple") and len(args) == 1:
            if isinstance(args[0], TupleV):
                return TupleV(args[0].items, name)
            if isinstance(args[0], Form):
                a0 = args[0].single_atom()
                if a0 is not None and a0[0] == "fn" and a0[1] == "listcomp":
                    return args[0]
        if name == "map" and len(args) == 2 and not kwargs and isinstance(args[1], TupleV) and len(args[1].items) <= 32:
            # map over a literal sequence: element by element
            return TupleV([self._call_value(args[0], [item], {}, st, fi, depth, n, CallRec(n, None, [], {}, [], fi, depth, st.facts)) for item in args[1].items], "list")
        def _is_partial(v_):
            a_ = v_.single_atom() if isinstance(v_, Form) else None
            return a_ is not None and a_[0] == "fn" and a_[1] in ("functools.partial", "partial") and bool(a_[2])
        if name == "map" and len(args) == 2 and (isinstance(args[0], FuncV) or _is_partial(args[0])) and not kwargs:
            # map(f, xs) is the comprehension [f(x) for x in xs]
            body = self._call_value(args[0], [iter_element(args[1])], {}, st, fi, depth, n, CallRec(n, None, [], {}, [], fi, depth, st.facts))
            return mk_fn("listcomp", [as_value(body), as_value(args[1])])
        if name in ("zip", "enumerate", "reversed") and args and not kwargs:
            seqs = []
            for a in args:
                if isinstance(a, TupleV):
                    seqs.append(list(a.items))
                elif isinstance(a, Const) and isinstance(a.v, str):
                    seqs.append([Const(ch) for ch in a.v])
                elif isinstance(a, VecV):
                    seqs.append(list(a.items))
                else:
                    seqs = None
                    break
            if seqs is not None and all(len(q) <= 64 for q in seqs):
                if name == "zip":
                    return TupleV([TupleV(list(t), "tuple") for t in zip(*seqs)], "list")
                if name == "enumerate" and len(seqs) == 1:
                    return TupleV([TupleV([Form.num(i), x], "tuple") for i, x in enumerate(seqs[0])], "list")
                if name == "reversed" and len(seqs) == 1:
                    return TupleV(list(reversed(seqs[0])), "list")
        if name == "zip":
            return mk_fn("zip", [as_value(a) for a in args])
        if name == "range":
            return mk_fn("range", [as_value(a) for a in args])
        if name == "abs" and len(args) == 1:
            return mk_fn("abs", [as_value(args[0])])
        if name == "round" and args:
            return mk_fn("round", [as_value(a) for a in args])
        if name == "print":
            return NONE
        if name == "next" and args and isinstance(args[0], TupleV):
            if args[0].items:
                return args[0].items[0]
            if len(args) > 1:
                return args[1]
        if name == "slice" and 1 <= len(args) <= 3 and not kwargs:
            a = list(args)
            if len(a) == 1:
                a = [NONE, a[0], NONE]
            elif len(a) == 2:
                a = a + [NONE]
            return SliceV(*a)
        return None


def contains_atom_form(f, atom):
    return isinstance(f, Form) and any(a == atom for a in f.atoms(deep=True))


def _full_slice(i):
    return isinstance(i, SliceV) and all(isinstance(x, Const) and x.v is None for x in (i.lo, i.hi, i.step))


def _elements_of(v, not_text, depth=0):
    """the value as an array of its elements: list(x) / tuple(x) of an array-like is x; a merge of alternatives that all hold the same
    elements is that one value"""
    if not isinstance(v, Form) or depth > 4:
        return v
    a = v.single_atom()
    if a is None:
        return v
    if a[0] == "fn" and a[1] in ("list", "tuple") and len(a[2]) == 1 and not a[3] and isinstance(a[2][0], Form) and not_text(a[2][0]):
        return _elements_of(a[2][0], not_text, depth + 1)
    if a[0] == "phi" and a[2]:
        alts = [_elements_of(x, not_text, depth + 1) for x in a[2]]
        if all(isinstance(x, Form) and x == alts[0] for x in alts):
            return alts[0]
    return v


def _literal_like(g, resolve=None):
    """module-level value that is safe to evaluate symbolically: literals, containers of them, names, attribute paths,
    arithmetic, lambdas; no calls except pure numeric helpers"""
    def walk_now(node):
        # what is evaluated when the module is imported: the body of a lambda is not (only its argument defaults are)
        yield node
        if isinstance(node, ast.Lambda):
            for d in list(node.args.defaults) + [k for k in node.args.kw_defaults if k is not None]:
                yield from walk_now(d)
            return
        for ch in ast.iter_child_nodes(node):
            yield from walk_now(ch)
    for n in walk_now(g):
        if isinstance(n, ast.Call):
            f = n.func
            nm = f.attr if isinstance(f, ast.Attribute) else (f.id if isinstance(f, ast.Name) else "")
            if nm not in ("log", "log2", "log10", "sqrt", "exp", "float", "int", "tuple", "frozenset", "dict", "list", "set", "compile"):
                dotted = resolve(f) if resolve is not None else None
                if dotted not in ("functools.partial", "operator.itemgetter", "operator.attrgetter"):       # module-level aliases: _pow10 = partial(operator.pow, 10)
                    return False
        elif isinstance(n, (ast.Await, ast.Yield, ast.YieldFrom, ast.NamedExpr, ast.ListComp, ast.DictComp, ast.SetComp, ast.GeneratorExp)):
            return False
    return True


def _selects_all(idx):
    """the index keeps every element: `:`, `(:, :)`, or a merge of such alternatives (layout-dependent index built before use)"""
    if _full_slice(idx):
        return True
    if isinstance(idx, TupleV):
        return bool(idx.items) and all(_full_slice(i) for i in idx.items)
    if isinstance(idx, Form):
        a = idx.single_atom()
        if a is not None and a[0] == "phi" and a[2]:
            return all(_selects_all(x) for x in a[2])
    return False


def _format_as_fstr(template, args, kwargs):
    """'...{}...{:.2f}'.format(a, b) in the same value form as the f-string f'...{a}...{b:.2f}' (None if not expressible)"""
    import string
    auto = [0]

    def field(name):
        if name == "":
            i = auto[0]
            auto[0] += 1
            return args[i] if i < len(args) else None
        if name.isdigit():
            return args[int(name)] if int(name) < len(args) else None
        return kwargs.get(name)

    def pieces(tmpl, nested):
        out = []
        try:
            parsed = list(string.Formatter().parse(tmpl))
        except ValueError:
            return None
        for lit, name, spec, conv in parsed:
            if lit:
                out.append(Const(lit))
            if name is None:
                continue
            if conv is not None:
                return None
            v = field(name)
            if v is None:
                return None
            sp = NONE
            if spec:
                if nested:
                    return None
                sub = pieces(spec, True)
                if sub is None:
                    return None
                sp = Const("".join(str(p.v) for p in sub)) if all(isinstance(p, Const) for p in sub) else mk_fn("fstr", sub)
            out.append(mk_fn("fmt", [as_value(v), sp]))
        return out
    ps = pieces(template, False)
    if ps is None:
        return None
    return _mk_fstr(ps)


def _is_text(v):
    """'fstr' / 'strjoin' / 'const' when the value is known to be a string built from pieces, else None"""
    if isinstance(v, Const):
        return "const" if isinstance(v.v, str) else None
    a = v.single_atom() if isinstance(v, Form) else None
    if a is not None and a[0] == "fn" and a[1] in ("fstr", "strjoin"):
        return a[1]
    return None


def _text_parts(v):
    if isinstance(v, Const):
        return [v]
    a = v.single_atom()
    if a[1] == "fstr":
        return list(a[2])
    return [mk_fn("fmt", [v, NONE])]


def _mk_fstr(parts):
    """string built from literal text and formatted values: constant strings formatted without a spec are literal text,
    adjacent literal pieces are one piece, a piece that is itself such a string and is put in as it is (no spec) contributes its pieces"""
    flat = []
    for p in parts:
        a = p.single_atom() if isinstance(p, Form) else None
        if a is not None and a[0] == "fn" and a[1] == "fmt" and isinstance(a[2][1], Const) and a[2][1].v is None and _is_text(a[2][0]) == "fstr":
            flat.extend(a[2][0].single_atom()[2])
        else:
            flat.append(p)
    parts = flat
    out = []
    for p in parts:
        if isinstance(p, Form):
            a = p.single_atom()
            if a is not None and a[0] == "fn" and a[1] == "fmt" and isinstance(a[2][0], Const) and isinstance(a[2][0].v, str) \
                    and isinstance(a[2][1], Const) and a[2][1].v is None:
                p = Const(a[2][0].v)
        if isinstance(p, Const) and out and isinstance(out[-1], Const):
            out[-1] = Const(str(out[-1].v) + str(p.v))
        else:
            out.append(p)
    if all(isinstance(p, Const) for p in out):
        return Const("".join(str(p.v) for p in out))
    return mk_fn("fstr", out)


_TOWER = {"int": ("int", "numbers.Number", "numbers.Complex", "numbers.Real", "numbers.Rational", "numbers.Integral"),
          "float": ("float", "numbers.Number", "numbers.Complex", "numbers.Real"),
          "complex": ("complex", "numbers.Number", "numbers.Complex"),
          # a numpy integer scalar (np.int64(3), np.argmax(..)): an Integral, NOT a python int
          "numpy.integer": ("numpy.integer", "numpy.number", "numpy.generic", "numbers.Number", "numbers.Complex", "numbers.Real", "numbers.Rational", "numbers.Integral")}


class _SuperV:
    def __init__(self, cls, selfv):
        self.cls, self.selfv = cls, selfv

    def key(self):
        return ("super", self.cls)

    def __repr__(self):
        return f"super({self.cls})"


class _ModuleScope:
    """stands in for a FuncInfo when evaluating module/class level expressions"""

    def __init__(self, module):
        self.module = module
        self.parent = None
        self.locals = set()
        self.local_imports = {}
        self.qualname = module.name
        self.cls = None


_MISSING = object()
_ELEMENTWISE = {"sqrt", "abs", "absolute", "exp", "log", "log10", "log2", "cos", "sin", "tan", "erfc", "erf", "conj", "real", "imag",
                "square", "negative", "array", "asarray", "float64"}
_BUILTIN_TYPES = {"int", "float", "complex", "str", "bool", "list", "tuple", "dict", "set", "bytes", "object", "type", "bytearray", "frozenset", "range", "memoryview", "slice",
                  "Exception", "ValueError", "TypeError"}
_BUILTINS = {"dict", "len", "int", "isinstance", "type", "getattr", "super", "str", "min", "max", "list", "tuple", "zip", "range", "divmod", "all", "any",
             "abs", "round", "print", "callable", "float", "sum", "map", "dir", "setattr", "delattr", "hasattr", "id", "slice", "next", "enumerate", "reversed"}
_INLINE_METHODS = {"len", "fs", "sps", "dt", "w", "t", "abs", "power", "type", "copy", "__getitem__", "__call__", "__mul__",
                   "__rmul__", "__add__", "__radd__", "__sub__", "__rsub__", "ones", "zeros", "__len__"}


_CLASS_FIELDS = {
    "electrical_signal": ("signal", "noise", "execution_time"),
    "optical_signal": ("signal", "noise", "n_pol", "execution_time"),
    "binary_sequence": ("data", "execution_time"),
    "eye": (),
}


def param_object(cls, name):
    return ObjV(cls, {f: Form.sym(f"{name}.{f}") for f in _CLASS_FIELDS.get(cls, ())}, None, name)


NDARRAY_API = {
    "T", "all", "any", "argmax", "argmin", "argpartition", "argsort", "astype", "base", "byteswap", "choose", "clip",
    "compress", "conj", "conjugate", "copy", "ctypes", "cumprod", "cumsum", "data", "diagonal", "dot", "dtype", "dump",
    "dumps", "fill", "flags", "flat", "flatten", "getfield", "imag", "item", "itemset", "itemsize", "max", "mean", "min",
    "nbytes", "ndim", "newbyteorder", "nonzero", "partition", "prod", "ptp", "put", "ravel", "real", "repeat", "reshape",
    "resize", "round", "searchsorted", "setfield", "setflags", "shape", "size", "sort", "squeeze", "std", "strides", "sum",
    "swapaxes", "take", "tobytes", "tofile", "tolist", "tostring", "trace", "transpose", "var", "view",
}


_LOAD_CACHE: dict = {}


def _load(t):
    """the assignment target as an expression (Load context).  Re-parsed from its source text: a deepcopy would follow the
    `_parent` links and copy the whole module."""
    k = id(t)
    hit = _LOAD_CACHE.get(k)
    if hit is not None and hit[0] is t:
        return hit[1]
    n = ast.parse(ast.unparse(t), mode="eval").body
    for x in ast.walk(n):
        ast.copy_location(x, t)
    _LOAD_CACHE[k] = (t, n)
    return n


def as_value(v):
    """anything usable as an atom argument"""
    if v is None:
        return NONE
    return v


def num_form(v):
    if isinstance(v, Form):
        return v
    if isinstance(v, Const) and isinstance(v.v, bool):
        return Form.num(int(v.v))
    return None


def _all_forms(t: TupleV):
    return all(isinstance(i, Form) or (isinstance(i, TupleV) and _all_forms(i)) for i in t.items)


def elementwise_items(v: Form, n):
    """if v is arithmetic over exactly one literal array([..]) atom, return the per-element forms"""
    arr = None
    for a in v.atoms(deep=False):
        if a[0] == "fn" and a[1] == "array" and len(a[2]) == 1 and isinstance(a[2][0], TupleV) and all(isinstance(i, Form) for i in a[2][0].items):
            if arr is not None and arr != a:
                return None
            arr = a
    if arr is None:
        return None
    items = arr[2][0].items
    if n is not None and len(items) != n:
        return None
    return [v.subst(lambda a, it=it: it if a == arr else None) for it in items]


def iter_element(it):
    if isinstance(it, VecV):
        it = TupleV(it.items, "list")
    if isinstance(it, TupleV) and it.items and all(vkey(i) == vkey(it.items[0]) for i in it.items):
        return it.items[0]
    if isinstance(it, Form):
        a = it.single_atom()
        if a is not None and a[0] == "fn" and a[1] == "zip":
            return TupleV([iter_element(x) for x in a[2]])
        if a is not None and a[0] == "fn" and a[1] == "listcomp" and len(a[2]) == 2:
            return a[2][0]       # [body(x) for x in seq]: the body was evaluated on the element of seq
        if a is None and len(it.terms) == 1:
            # an element of  c * s1 * ... * X  (scalars times one sequence) is  c * s1 * ... * element(X)
            (mono, coef), = it.terms.items()
            seqs = [(at, e) for at, e in mono if at[0] in ("idx", "phi") or (at[0] == "fn" and at[1] in ("where", "arange", "listcomp", "nonzero", "sort", "unique"))]
            others = [(at, e) for at, e in mono if (at, e) not in seqs]
            if len(seqs) == 1 and seqs[0][1] == 1 and all(at[0] in ("sym", "num", "c") for at, _e in others):
                rest = Form({tuple(sorted(others, key=lambda ae: repr(ae))): coef}) if others else Form({(): coef})
                try:
                    return (it / Form.atom(seqs[0][0])) * iter_element(Form.atom(seqs[0][0]))
                except Exception:
                    pass
    return mk_fn("elem", [as_value(it)])
