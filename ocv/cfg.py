"""Statement-level control-flow graph for the statement kinds the package uses, with
dominators and must-pass-through queries.  Conditions are nodes of kind 'cond' with
labelled true/false out-edges."""
from __future__ import annotations

import ast


class Node:
    __slots__ = ("id", "kind", "ast", "succ", "pred", "label")

    def __init__(self, id, kind, astnode=None, label=""):
        self.id, self.kind, self.ast, self.label = id, kind, astnode, label
        self.succ = []   # list of (node, edge label) ; label in (None, True, False, 'exc', 'iter', 'done')
        self.pred = []

    def __repr__(self):
        import ast as _a
        s = ""
        if self.ast is not None:
            try:
                s = _a.unparse(self.ast).split("\n")[0][:60]
            except Exception:
                s = ""
        return f"<{self.id}:{self.kind} {self.label}{s}>"


class CFG:
    def __init__(self, fnode):
        self.nodes = []
        self.entry = self._new("entry")
        self.exit = self._new("exit")        # normal return
        self.raise_exit = self._new("raise")  # exceptional exit
        self._loops = []
        body = fnode.body if isinstance(fnode.body, list) else [ast.Return(value=fnode.body)]
        ends = self._block(body, [(self.entry, None)])
        for e in ends:
            self._edge(e, self.exit)

    def _new(self, kind, astnode=None, label=""):
        n = Node(len(self.nodes), kind, astnode, label)
        self.nodes.append(n)
        return n

    def _edge(self, src, dst):
        node, lab = src
        node.succ.append((dst, lab))
        dst.pred.append((node, lab))

    def _block(self, stmts, ins):
        cur = ins
        for s in stmts:
            if not cur:
                break
            cur = self._stmt(s, cur)
        return cur

    def _stmt(self, s, ins):
        if isinstance(s, ast.If):
            c = self._new("cond", s.test)
            c.label = "if "
            for i in ins:
                self._edge(i, c)
            t = self._block(s.body, [(c, True)])
            f = self._block(s.orelse, [(c, False)])
            return t + f
        if isinstance(s, ast.While):
            c = self._new("cond", s.test)
            c.label = "while "
            for i in ins:
                self._edge(i, c)
            self._loops.append({"head": c, "breaks": []})
            const_true = isinstance(s.test, ast.Constant) and bool(s.test.value) is True
            body_end = self._block(s.body, [(c, True)])
            for e in body_end:
                self._edge(e, c)
            lp = self._loops.pop()
            outs = list(lp["breaks"])
            if not const_true:
                outs += self._block(s.orelse, [(c, False)]) if s.orelse else [(c, False)]
            return outs
        if isinstance(s, ast.For):
            c = self._new("for", s)
            c.label = "for "
            for i in ins:
                self._edge(i, c)
            self._loops.append({"head": c, "breaks": []})
            body_end = self._block(s.body, [(c, "iter")])
            for e in body_end:
                self._edge(e, c)
            lp = self._loops.pop()
            outs = list(lp["breaks"])
            outs += self._block(s.orelse, [(c, "done")]) if s.orelse else [(c, "done")]
            return outs
        if isinstance(s, ast.Return):
            n = self._new("return", s)
            for i in ins:
                self._edge(i, n)
            self._edge((n, None), self.exit)
            return []
        if isinstance(s, ast.Raise):
            n = self._new("raisestmt", s)
            for i in ins:
                self._edge(i, n)
            self._edge((n, None), self.raise_exit)
            return []
        if isinstance(s, ast.Break):
            n = self._new("break", s)
            for i in ins:
                self._edge(i, n)
            if self._loops:
                self._loops[-1]["breaks"].append((n, None))
            return []
        if isinstance(s, ast.Continue):
            n = self._new("continue", s)
            for i in ins:
                self._edge(i, n)
            if self._loops:
                self._edge((n, None), self._loops[-1]["head"])
            return []
        if isinstance(s, ast.Try):
            start = self._new("try", s)
            for i in ins:
                self._edge(i, start)
            before = len(self.nodes)
            body_end = self._block(s.body, [(start, None)])
            body_nodes = self.nodes[before:]
            outs = self._block(s.orelse, body_end) if s.orelse else body_end
            for h in s.handlers:
                hn = self._new("except", h)
                # an exception may leave the body after any of its statements
                self._edge((start, "exc"), hn)
                for bn in body_nodes:
                    if bn.kind in ("stmt", "cond", "for"):
                        self._edge((bn, "exc"), hn)
                outs += self._block(h.body, [(hn, None)])
            if s.finalbody:
                outs = self._block(s.finalbody, outs)
            return outs
        if isinstance(s, ast.With):
            n = self._new("stmt", s)
            n.label = "with "
            for i in ins:
                self._edge(i, n)
            return self._block(s.body, [(n, None)])
        if isinstance(s, (ast.FunctionDef, ast.AsyncFunctionDef, ast.ClassDef)):
            n = self._new("def", s)
            for i in ins:
                self._edge(i, n)
            return [(n, None)]
        n = self._new("stmt", s)
        for i in ins:
            self._edge(i, n)
        return [(n, None)]

    # ------------------------------------------------------------------ queries
    def reachable(self, start=None):
        start = start or self.entry
        seen = {start.id}
        stack = [start]
        while stack:
            n = stack.pop()
            for m, _ in n.succ:
                if m.id not in seen:
                    seen.add(m.id)
                    stack.append(m)
        return seen

    def dominators(self):
        reach = self.reachable()
        ids = [n.id for n in self.nodes if n.id in reach]
        dom = {i: set(ids) for i in ids}
        dom[self.entry.id] = {self.entry.id}
        changed = True
        while changed:
            changed = False
            for i in ids:
                if i == self.entry.id:
                    continue
                preds = [p.id for p, _ in self.nodes[i].pred if p.id in reach]
                if not preds:
                    continue
                new = set.intersection(*[dom[p] for p in preds]) | {i}
                if new != dom[i]:
                    dom[i] = new
                    changed = True
        return dom

    def path_avoiding(self, src, dst, avoid):
        """a path (list of nodes) from src to dst that visits no node satisfying avoid(node), or None.
        `avoid` may also inspect edges: avoid(node) only."""
        prev = {src.id: None}
        stack = [src]
        while stack:
            n = stack.pop()
            if n.id == dst.id:
                path = []
                cur = n.id
                while cur is not None:
                    path.append(self.nodes[cur])
                    cur = prev[cur]
                return path[::-1]
            for m, _ in n.succ:
                if m.id in prev:
                    continue
                if m.id != dst.id and avoid(m):
                    continue
                prev[m.id] = n.id
                stack.append(m)
        return None

    def node_of(self, astnode):
        for n in self.nodes:
            if n.ast is astnode:
                return n
        # expression inside a statement
        for n in self.nodes:
            if n.ast is not None:
                tgt = n.ast
                if n.kind == "for":
                    cands = [tgt.iter, tgt.target]
                else:
                    cands = [tgt]
                for c in cands:
                    for sub in ast.walk(c):
                        if sub is astnode:
                            return n
        return None
