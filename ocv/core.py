"""Rule results, known findings, evidence files, exit-code discipline."""
from __future__ import annotations

import ast
import json
import os
import time
import hashlib

from .srcmodel import AnalysisError, Package, norm_src

HOLDS, VIOLATION, UNKNOWN = "HOLDS", "VIOLATION", "UNKNOWN"
VERIF = os.path.dirname(os.path.dirname(os.path.abspath(__file__)))


class Result:
    __slots__ = ("prop", "rule", "status", "func", "file", "line", "construct", "msg", "detail")

    def __init__(self, prop, rule, status, func="", file="", line=0, construct="", msg="", detail=None):
        self.prop, self.rule, self.status = prop, rule, status
        self.func, self.file, self.line = func, file, line
        self.construct = " ".join(str(construct).split())
        self.msg = msg
        self.detail = detail

    def key(self):
        return (self.prop, self.rule, self.func, self.construct)

    def as_dict(self):
        d = {"rule": self.rule, "status": self.status, "function": self.func, "where": f"{self.file}:{self.line}",
             "construct": self.construct[:400], "note": self.msg[:600]}
        if self.detail is not None:
            d["detail"] = self.detail
        return d


class Ctx:
    """what a property module gets: the parsed package and result sinks"""

    def __init__(self, pkg: Package, prop: str, tier: str):
        self.pkg = pkg
        self.prop = prop
        self.tier = tier
        self.results: list[Result] = []
        self.analysed: set[str] = set()
        self.notes: list[str] = []
        self.counts: dict[str, int] = {}
        self._seen: set = set()

    # -- helpers used by rules
    def _loc(self, fi, node):
        file = os.path.relpath(fi.module.path, self.pkg.root) if fi is not None else ""
        line = getattr(node, "lineno", 0) if node is not None else (fi.lineno if fi is not None else 0)
        return file, line

    def add(self, rule, status, fi=None, node=None, construct=None, msg="", detail=None):
        file, line = self._loc(fi, node)
        if construct is None:
            construct = norm_src(node) if isinstance(node, ast.AST) else ""
        r = Result(self.prop, rule, status, fi.qualname if fi is not None else "", file, line, construct, msg, detail)
        dk = (rule, status, r.func, r.construct)
        if dk in self._seen:
            return r
        self._seen.add(dk)
        self.results.append(r)
        if fi is not None:
            self.analysed.add(fi.qualname)
        self.counts[rule] = self.counts.get(rule, 0) + 1
        return r

    def holds(self, rule, fi=None, node=None, construct=None, msg="", detail=None):
        return self.add(rule, HOLDS, fi, node, construct, msg, detail)

    def violation(self, rule, fi=None, node=None, construct=None, msg="", detail=None):
        return self.add(rule, VIOLATION, fi, node, construct, msg, detail)

    def unknown(self, rule, fi=None, node=None, construct=None, msg="", detail=None):
        return self.add(rule, UNKNOWN, fi, node, construct, msg, detail)

    def check(self, rule, cond, fi=None, node=None, construct=None, msg_ok="", msg_bad="", detail=None):
        if cond:
            return self.holds(rule, fi, node, construct, msg_ok, detail)
        return self.violation(rule, fi, node, construct, msg_bad, detail)

    def require_min(self, rule, n):
        """a rule matching fewer instances than were confirmed by hand is analysis-broken"""
        got = self.counts.get(rule, 0)
        if got < n:
            self.add(rule, UNKNOWN, None, None, f"instances<{n}", f"rule {rule} matched {got} instance(s); at least {n} were confirmed by hand on the reference tree")


def load_known():
    p = os.path.join(VERIF, "known_findings.json")
    if not os.path.isfile(p):
        return []
    with open(p) as fh:
        return json.load(fh).get("findings", [])


def finish(ctx: Ctx, t0, explanation, trusted, checker_cmd, level="other", seed=0, selftest=None, extra=None,
           write_evidence=True, quiet=False):
    """print reports, write the evidence file, return the process exit code"""
    known = [k for k in load_known() if k.get("property") == ctx.prop and k.get("status") == "open"]
    viol, unk, kf = [], [], []
    for r in ctx.results:
        if r.status == VIOLATION:
            hit = None
            for k in known:
                if k.get("rule") == r.rule and k.get("function") == r.func and " ".join(k.get("construct", "").split()) == r.construct:
                    hit = k
                    break
            if hit is not None:
                kf.append((r, hit))
            else:
                viol.append(r)
        elif r.status == UNKNOWN:
            unk.append(r)
    out = []
    for r, k in kf:
        out.append(f"KNOWN-FINDING: property={ctx.prop} {r.rule} {r.func}: {k.get('what', r.msg)}")
    vdir = os.path.join(VERIF, "evidence", "violations")
    for r in viol:
        out.append(f"{r.file}:{r.line} {r.func} {r.rule}: {r.construct[:300]} -- {r.msg}")
        replay = os.path.join(vdir, f"{ctx.prop}-{r.rule}-{hashlib.sha1(repr(r.key()).encode()).hexdigest()[:10]}.json")
        if write_evidence:
            os.makedirs(vdir, exist_ok=True)
            with open(replay, "w") as fh:
                json.dump({"property": ctx.prop, "rule": r.rule, "function": r.func, "construct": r.construct,
                           "where": f"{r.file}:{r.line}", "why": r.msg, "detail": r.detail,
                           "digests": ctx.pkg.digests()}, fh, indent=1, default=str)
        out.append(f"VIOLATION property={ctx.prop} replay={replay}")
    for r in unk:
        out.append(f"ANALYSIS-ERROR property={ctx.prop} {r.rule} {r.func} {r.file}:{r.line}: {r.construct[:200]} -- {r.msg}")
    if selftest and selftest.get("failures"):
        for f in selftest["failures"]:
            out.append(f"ANALYSIS-ERROR property={ctx.prop} self-test: {f}")
    n_obl = len(ctx.results)
    n_ok = sum(1 for r in ctx.results if r.status == HOLDS)
    distinct = len({r.key() for r in ctx.results if r.construct})
    samples = [r.as_dict() for r in ctx.results if r.status != HOLDS][:20]
    seen_rules = set()
    for r in ctx.results:
        if r.status == HOLDS and r.rule not in seen_rules and len(samples) < 60:
            seen_rules.add(r.rule)
            samples.append(r.as_dict())
    cov = {
        "explanation": explanation,
        "obligations": n_obl,
        "discharged": n_ok + len(kf),
        "evaluations": n_obl,
        "distinct_nontrivial": distinct,
        "rule": "one evaluation = one rule instance (rule id x function x construct) decided on the current /repo sources; "
                "distinct_nontrivial counts distinct (rule, function, construct) triples that inspected a concrete construct",
        "samples": samples,
        "checker_cmd": checker_cmd,
        "trusted_base": trusted,
        "rule_instance_counts": dict(sorted(ctx.counts.items())),
        "functions_analysed": sorted(ctx.analysed),
        "known_findings_printed": [f"{r.rule} {r.func}: {r.construct[:120]}" for r, _ in kf],
        "unknown": [r.as_dict() for r in unk],
        "source_digests": ctx.pkg.digests(),
        "notes": ctx.notes[:50],
        "exhaustive": False,
    }
    if selftest is not None:
        cov["self_test"] = {k: v for k, v in selftest.items() if k != "failures"}
        cov["self_test"]["failures"] = selftest.get("failures", [])[:20]
    if extra:
        cov.update(extra)
    if level == "proof" and (n_ok + len(kf) != n_obl):
        level = "other"
    ev = {
        "property_id": ctx.prop,
        "tier": ctx.tier,
        "seed": seed,
        "level": level,
        "coverage": cov,
        "assumptions": trusted,
        "wall_s": round(time.time() - t0, 3),
        "violations": len(viol),
    }
    if write_evidence:
        os.makedirs(os.path.join(VERIF, "evidence"), exist_ok=True)
        with open(os.path.join(VERIF, "evidence", f"{ctx.prop}.json"), "w") as fh:
            json.dump(ev, fh, indent=1, default=str)
    if not quiet and os.environ.get("OCV_VERBOSE"):
        for r in ctx.results:
            print(f"  {r.status:9s} {r.rule:7s} {r.func}:{r.line}  {r.construct[:150]}  -- {r.msg[:200]}")
    if not quiet:
        print(f"[{ctx.prop}] tier={ctx.tier} rule instances={n_obl} holding={n_ok} known-findings={len(kf)} "
              f"violations={len(viol)} undecided={len(unk)} functions={len(ctx.analysed)} wall={ev['wall_s']}s")
        for line in out:
            print(line)
    if viol:
        return 1, out
    if unk or (selftest and selftest.get("failures")):
        return 2, out
    return 0, out
