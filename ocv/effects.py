"""Ownership / effect summaries for every function of the package.

For each function (fixpoint over the call graph):
  * ret:      roots (param, path) the returned value (or its array fields) may share memory with;
  * mutates:  roots whose sample data may be written in place (with the statement);
  * attr_writes: attribute stores on objects reachable from a parameter (field name kept);
  * gv_writes: statements that modify the global `gv` object;
  * rand:     nondeterminism sources called (dotted name, node).
Alias classes: the empty root set means *fresh* (allocated in this activation).
"""
from __future__ import annotations

import ast
import re

from .srcmodel import PKG, FuncInfo, Package, src_of

# numpy / scipy API summaries --------------------------------------------------------------
FRESH_FUNCS = {
    "array", "copy", "zeros", "ones", "empty", "full", "zeros_like", "ones_like", "empty_like", "full_like", "arange", "linspace",
    "concatenate", "stack", "vstack", "hstack", "kron", "tile", "repeat", "where", "sort", "argsort", "unique", "roll", "abs",
    "absolute", "exp", "log", "log10", "log2", "sqrt", "cos", "sin", "tan", "angle", "unwrap", "conj", "conjugate", "sum", "mean",
    "std", "var", "min", "max", "argmin", "argmax", "cumsum", "diff", "round", "around", "clip", "sign", "result_type", "isnan",
    "all", "any", "array_equal", "split", "nonzero", "flatnonzero", "searchsorted", "dot", "matmul", "outer", "convolve",
    "correlate", "interp", "power", "square", "maximum", "minimum", "floor", "ceil", "mod", "add", "multiply", "subtract", "divide",
    "fft", "ifft", "fftshift", "ifftshift", "fftfreq", "rfft", "irfft", "normal", "randn", "rand", "randint", "choice", "uniform",
    "random", "vectorize", "meshgrid", "logspace", "histogram", "percentile", "quantile", "median", "nanmean", "nanstd", "trapz",
    "gradient", "pad", "flip", "fliplr", "flipud", "delete", "insert", "append", "log1p", "expm1", "sinc", "hypot", "arctan2",
    "float64", "complex128", "uint8", "int64", "isfinite", "isinf", "count_nonzero", "packbits", "unpackbits", "fromstring",
    "frombuffer_copy", "set_printoptions",
}
VIEW_FUNCS = {"asarray", "asanyarray", "ascontiguousarray", "squeeze", "reshape", "ravel", "atleast_1d", "atleast_2d", "atleast_3d",
              "real", "imag", "transpose", "broadcast_to", "swapaxes", "moveaxis", "expand_dims", "frombuffer", "diag", "diagonal"}
FRESH_METHODS = {"copy", "sum", "mean", "std", "var", "min", "max", "argmin", "argmax", "cumsum", "round", "clip", "conj",
                 "conjugate", "any", "all", "tolist", "nonzero", "dot", "repeat", "flatten", "tobytes", "item", "lower", "upper",
                 "strip", "split", "replace", "format", "join", "get", "keys", "values", "items", "count", "index", "ptp", "prod",
                 "astype", "evaluate", "fit", "endswith", "startswith", "size", "len"}
VIEW_METHODS = {"reshape", "ravel", "squeeze", "view", "transpose", "swapaxes", "newbyteorder", "getfield", "diagonal"}
VIEW_ATTRS = {"T", "real", "imag", "flat", "base", "data"}
MUTATING_METHODS = {"sort", "fill", "put", "resize", "itemset", "setflags", "partition", "byteswap", "setfield",
                    "append", "extend", "insert", "remove", "clear", "reverse", "update", "popitem", "setdefault", "pop"}
LIST_MUTATORS = {"append", "extend", "insert", "remove", "clear", "reverse", "update", "popitem", "setdefault", "pop"}
MUTATING_FUNCS = {"copyto": 0, "put": 0, "place": 0, "putmask": 0, "put_along_axis": 0, "fill_diagonal": 0, "shuffle": 0}
SCALAR_ANN = {"int", "float", "bool", "str", "complex", "Number"}
SAMPLE_FIELDS = {"signal", "noise", "data"}

RAND_PREFIXES = ("numpy.random.", "random.", "secrets.", "uuid.", "os.urandom", "time.time", "time.perf_counter", "time.monotonic",
                 "time.process_time", "datetime.", "sklearn.")


RAND_METHODS = {"normal", "randn", "randint", "choice", "rand", "random", "uniform", "standard_normal", "random_sample", "poisson", "exponential",
                "permutation", "shuffle", "integers"}
GV_ROOT = "<gv>"            # pseudo-parameter: the arrays held by the global grid object
GV_ARRAYS = ("t", "w")


class Summary:
    def __init__(self, fi: FuncInfo):
        self.fi = fi
        self.ret = set()          # {(param, path)}
        self.mutates = {}         # (param, path) -> node
        self.attr_writes = {}     # (param, path, attr) -> node
        self.gv_writes = []       # [(node, description)]
        self.rand = []            # [(dotted, node)]
        self.calls = set()        # resolved callee qualnames
        self.unresolved = []      # [(node, text)]
        self.defaults_gv = []     # default-argument expressions reading gv
        self.stored = set()       # __init__ only: roots of what is stored into self.<sample field>
        self.reads_gv = []        # nodes reading an attribute of the global gv
        self.memoised = None      # decorator node when the function is cached (functools.lru_cache / cache)
        self.global_writes = []   # (node, name): stores into module-level mutable objects of the package

    def key(self):
        return (frozenset(self.ret), frozenset(self.mutates), frozenset(self.attr_writes), len(self.gv_writes), len(self.rand), frozenset(self.stored))


class Effects:
    def __init__(self, pkg: Package):
        self.pkg = pkg
        self.sum: dict[str, Summary] = {}
        self.class_of_method = {}
        for fi in pkg.all_funcs():
            self.sum[fi.qualname] = Summary(fi)
        self._cls_cache = {}
        self._cls_busy = set()
        self.method_index = {}
        for m in pkg.modules.values():
            for ci in m.classes.values():
                for name, f in ci.methods.items():
                    self.method_index.setdefault(name, []).append((m.name, ci.name, f))
        self.const_params = self._constant_options()
        self._solve()

    # ------------------------------------------------------------------ boolean options that are constant in this package
    def _constant_options(self):
        """(qualname, parameter) -> bool for switches whose value is fixed on every call the package itself makes:
        keyword-only parameters with a boolean default (options added next to the documented signature: the properties are stated
        for calls that do not pass them) and, transitively, parameters of private helpers that only ever receive such a value or
        a literal.  Branches on them are decided instead of joined."""
        out = {}
        for fi in self.pkg.all_funcs():
            a = fi.node.args
            for kwo, d in zip(a.kwonlyargs, a.kw_defaults):
                if isinstance(d, ast.Constant) and isinstance(d.value, bool) and not _reassigned(fi.node, kwo.arg):
                    out[(fi.qualname, kwo.arg)] = d.value
        # call sites of private helpers
        sites = {}
        for fi in self.pkg.all_funcs():
            for n in ast.walk(fi.node):
                if isinstance(n, ast.Call) and isinstance(n.func, ast.Name):
                    r = self.pkg.resolve_name(fi.module, fi, n.func.id)
                    if r and r.startswith(PKG + ".") and r.count(".") == 2:
                        q = r.split(".", 1)[1]
                        if q in self.sum and self.sum[q].fi.name.startswith("_"):
                            sites.setdefault(q, []).append((fi, n))
        for _ in range(3):
            changed = False
            for q, calls in sites.items():
                callee = self.sum[q].fi
                params = [x.arg for x in callee.node.args.posonlyargs + callee.node.args.args]
                for i, p_ in enumerate(params):
                    if (q, p_) in out or _reassigned(callee.node, p_):
                        continue
                    vals = set()
                    for (caller, call) in calls:
                        arg = call.args[i] if i < len(call.args) and not any(isinstance(x, ast.Starred) for x in call.args) else next((k.value for k in call.keywords if k.arg == p_), None)
                        if arg is None and not any(k.arg is None for k in call.keywords):
                            # not passed: the helper's own default
                            npos = len(params)
                            dflts = callee.node.args.defaults
                            j = i - (npos - len(dflts))
                            arg = dflts[j] if 0 <= j < len(dflts) else None
                        if isinstance(arg, ast.Constant) and isinstance(arg.value, bool):
                            vals.add(arg.value)
                        elif isinstance(arg, ast.Name) and (caller.qualname, arg.id) in out:
                            vals.add(out[(caller.qualname, arg.id)])
                        else:
                            vals.add(None)
                    if len(vals) == 1 and None not in vals:
                        out[(q, p_)] = vals.pop()
                        changed = True
            if not changed:
                break
        return out

    def _yields_numpy_random(self, node, fi, depth=0):
        """the expression can evaluate to the numpy.random module (directly, through a conditional, or through a package helper)"""
        if depth > 3:
            return False
        if isinstance(node, ast.Attribute):
            return self.pkg.resolve_expr(fi.module, fi, node) == "numpy.random"
        if isinstance(node, ast.IfExp):
            return self._yields_numpy_random(node.body, fi, depth + 1) or self._yields_numpy_random(node.orelse, fi, depth + 1)
        if isinstance(node, ast.Name):
            for n in ast.walk(fi.node):
                if isinstance(n, ast.Assign) and any(isinstance(t, ast.Name) and t.id == node.id for t in n.targets) and self._yields_numpy_random(n.value, fi, depth + 1):
                    return True
            return False
        if isinstance(node, ast.Call) and isinstance(node.func, ast.Name):
            r = self.pkg.resolve_name(fi.module, fi, node.func.id)
            if r and r.startswith(PKG + ".") and r.count(".") == 2:
                q = r.split(".", 1)[1]
                callee = self.sum.get(q)
                if callee is not None:
                    return any(isinstance(n, ast.Return) and n.value is not None and self._yields_numpy_random(n.value, callee.fi, depth + 1) for n in ast.walk(callee.fi.node))
        return False

    def _copy_flag(self, node, fi):
        """value of a `copy=` argument: True / False when constant in this package, None (may alias) otherwise"""
        if isinstance(node, ast.Constant) and isinstance(node.value, bool):
            return node.value
        return self._const_test(node, fi)

    def _const_test(self, test, fi):
        if isinstance(test, ast.Name):
            return self.const_params.get((fi.qualname, test.id))
        if isinstance(test, ast.UnaryOp) and isinstance(test.op, ast.Not):
            v = self._const_test(test.operand, fi)
            return None if v is None else (not v)
        if isinstance(test, ast.Constant) and isinstance(test.value, bool):
            return test.value
        return None

    # ------------------------------------------------------------------ fixpoint
    def _solve(self):
        for _ in range(12):
            changed = False
            for q, s in self.sum.items():
                before = s.key()
                self._analyse(s)
                if s.key() != before:
                    changed = True
            if not changed:
                break

    # ------------------------------------------------------------------ per-function analysis
    def _analyse(self, s: Summary):
        fi = s.fi
        s.gv_writes, s.rand, s.unresolved = [], [], []
        s.reads_gv, s.global_writes = [], []
        s.calls = set()
        s.memoised = None
        for d in getattr(fi.node, "decorator_list", []):
            f = d.func if isinstance(d, ast.Call) else d
            r = self.pkg.resolve_expr(fi.module, fi.parent, f) if isinstance(f, ast.Attribute) else (self.pkg.resolve_name(fi.module, fi.parent, f.id) if isinstance(f, ast.Name) else None)
            if r in ("functools.lru_cache", "functools.cache", "functools.cached_property") or (r or "").endswith((".memoize", ".cache", ".lru_cache")):
                s.memoised = d
        env = {p: {(p, "")} for p in fi.params}
        fld = {}  # local var -> roots stored into its fields / elements
        self._ann = self._annotations(fi)
        body = fi.node.body if isinstance(fi.node.body, list) else [ast.Return(value=fi.node.body)]
        self._walk(body, fi, s, env, fld)
        a = fi.node.args
        s.defaults_gv = []
        for d in list(a.defaults) + [x for x in a.kw_defaults if x is not None]:
            for n in ast.walk(d):
                r = None
                if isinstance(n, ast.Attribute):
                    r = self.pkg.resolve_expr(fi.module, fi.parent, n)
                elif isinstance(n, ast.Name):
                    r = self.pkg.resolve_name(fi.module, fi.parent, n.id)
                if r and r.startswith(f"{PKG}.typing.gv"):
                    if src_of(d) not in [x[1] for x in s.defaults_gv]:
                        s.defaults_gv.append((d, src_of(d)))

    def _annotations(self, fi):
        out = {}
        a = fi.node.args
        for arg in a.posonlyargs + a.args + a.kwonlyargs:
            if arg.annotation is not None:
                out[arg.arg] = src_of(arg.annotation)
        return out

    def _is_scalar_param(self, fi, name):
        ann = self._ann.get(name)
        if ann is None:
            return False
        ann = re.sub(r"Literal\[[^\]]*\]", "Literal", ann)
        parts = {p.strip() for p in ann.replace("Union[", "").replace("Optional[", "").replace("]", "").replace("|", ",").split(",")}
        return bool(parts) and all(p in SCALAR_ANN or p.startswith("Literal") or p == "None" for p in parts)

    def _walk(self, stmts, fi, s, env, fld):
        """-> True when the block always leaves the function (return / raise): what follows it is not analysed"""
        for st in stmts:
            if self._stmt(st, fi, s, env, fld) is True:
                return True
        return False

    def _bind(self, target, roots, fi, s, env, fld):
        if isinstance(target, ast.Name):
            env[target.id] = set(roots)      # strong update (the walk is flow-sensitive)
            fld.pop(target.id, None)
        elif isinstance(target, (ast.Tuple, ast.List)):
            for e in target.elts:
                self._bind(e, roots, fi, s, env, fld)
        elif isinstance(target, ast.Starred):
            self._bind(target.value, roots, fi, s, env, fld)

    @staticmethod
    def _join(envs):
        out = {}
        for e in envs:
            for k, v in e.items():
                out.setdefault(k, set()).update(v)
        return out

    def _branch(self, blocks, fi, s, env, fld, nones=None):
        """analyse alternative blocks from the same entry state and join"""
        res_env, res_fld = [], []
        for i, blk in enumerate(blocks):
            e2 = {k: set(v) for k, v in env.items()}
            f2 = {k: set(v) for k, v in fld.items()}
            if nones:
                for nm in nones[i]:
                    e2[nm] = set()      # the name holds None on this branch: nothing to alias
            done = self._walk(blk, fi, s, e2, f2)
            if not done:
                res_env.append(e2)
                res_fld.append(f2)
        if not res_env:
            return True                 # every alternative leaves the function
        je, jf = self._join(res_env), self._join(res_fld)
        env.clear(); env.update(je)
        fld.clear(); fld.update(jf)
        return False

    def _loop(self, body, fi, s, env, fld, pre=None):
        for _ in range(3):
            e2 = {k: set(v) for k, v in env.items()}
            f2 = {k: set(v) for k, v in fld.items()}
            if pre:
                pre(e2, f2)
            self._walk(body, fi, s, e2, f2)
            je, jf = self._join([env, e2]), self._join([fld, f2])
            if je == env and jf == fld:
                break
            env.clear(); env.update(je)
            fld.clear(); fld.update(jf)

    def _stmt(self, st, fi, s, env, fld):
        if isinstance(st, (ast.FunctionDef, ast.AsyncFunctionDef, ast.ClassDef)):
            return
        if isinstance(st, ast.Assign):
            roots = self.roots(st.value, fi, s, env, fld)
            for t in st.targets:
                self._store(t, roots, st, fi, s, env, fld)
        elif isinstance(st, ast.AnnAssign):
            if st.value is not None:
                self._store(st.target, self.roots(st.value, fi, s, env, fld), st, fi, s, env, fld)
        elif isinstance(st, ast.AugAssign):
            vr = self.roots(st.value, fi, s, env, fld)
            t = st.target
            if isinstance(t, ast.Name):
                # in-place for arrays: mutates whatever the name refers to
                tr = {r for r in env.get(t.id, set()) if not (r[1] == "" and self._is_scalar_param(fi, r[0]))}
                if tr:
                    self._record_mut(s, tr, st)
                env[t.id] = set(tr)
                self._check_gv_target(t, st, fi, s)
            else:
                self._store(t, vr, st, fi, s, env, fld, aug=True)
        elif isinstance(st, ast.Delete):
            for t in st.targets:
                self._check_gv_target(t, st, fi, s)
        elif isinstance(st, ast.Return):
            if st.value is not None:
                r = self.roots(st.value, fi, s, env, fld)
                r |= self._field_roots(st.value, fld)
                s.ret |= r
            return True
        elif isinstance(st, ast.Expr):
            self.roots(st.value, fi, s, env, fld)
        elif isinstance(st, ast.If):
            self.roots(st.test, fi, s, env, fld)
            ct = self._const_test(st.test, fi)
            if ct is not None:
                return self._walk(st.body if ct else st.orelse, fi, s, env, fld)
            none_in_body, none_in_else = _none_names(st.test)
            return self._branch([st.body, st.orelse], fi, s, env, fld, nones=[none_in_body, none_in_else])
        elif isinstance(st, ast.While):
            self.roots(st.test, fi, s, env, fld)
            self._loop(st.body, fi, s, env, fld)
            self._walk(st.orelse, fi, s, env, fld)
        elif isinstance(st, ast.For):
            r = self.roots(st.iter, fi, s, env, fld)
            self._loop(st.body, fi, s, env, fld, pre=lambda e2, f2: self._bind(st.target, r, fi, s, e2, f2))
            self._walk(st.orelse, fi, s, env, fld)
        elif isinstance(st, ast.With):
            for it in st.items:
                r = self.roots(it.context_expr, fi, s, env, fld)
                if it.optional_vars is not None:
                    self._bind(it.optional_vars, r, fi, s, env, fld)
            self._walk(st.body, fi, s, env, fld)
        elif isinstance(st, ast.Try):
            self._branch([st.body + st.orelse] + [st.body + h.body for h in st.handlers], fi, s, env, fld)
            self._walk(st.finalbody, fi, s, env, fld)
        elif isinstance(st, ast.Raise):
            if st.exc is not None:
                self.roots(st.exc, fi, s, env, fld)
            return True
        elif isinstance(st, ast.Assert):
            self.roots(st.test, fi, s, env, fld)
        elif isinstance(st, ast.Global):
            for nm in st.names:
                r = self.pkg.resolve_name(fi.module, None, nm)
                if r == f"{PKG}.typing.gv" or nm == "gv":
                    s.gv_writes.append((st, f"global {nm}"))

    def _field_roots(self, expr, fld):
        out = set()
        if isinstance(expr, ast.Name):
            out |= fld.get(expr.id, set())
        elif isinstance(expr, (ast.Tuple, ast.List)):
            for e in expr.elts:
                out |= self._field_roots(e, fld)
        return out

    def _record_mut(self, s, roots, node):
        for r in roots:
            if r not in s.mutates:
                s.mutates[r] = node

    def _store(self, t, vroots, st, fi, s, env, fld, aug=False):
        if isinstance(t, ast.Name):
            self._bind(t, vroots, fi, s, env, fld)
            self._check_gv_target(t, st, fi, s)
        elif isinstance(t, (ast.Tuple, ast.List)):
            for e in t.elts:
                self._store(e, vroots, st, fi, s, env, fld, aug)
        elif isinstance(t, ast.Starred):
            self._store(t.value, vroots, st, fi, s, env, fld, aug)
        elif isinstance(t, ast.Subscript):
            self._check_gv_target(t, st, fi, s)
            self._check_global_store(t, st, fi, s, env)
            self.roots(t.slice, fi, s, env, fld)
            br = self.roots(t.value, fi, s, env, fld)
            if br:
                self._record_mut(s, br, st)
            # the container now also holds the stored value
            root = t.value
            while isinstance(root, (ast.Attribute, ast.Subscript)):
                root = root.value
            if isinstance(root, ast.Name) and vroots:
                fld.setdefault(root.id, set()).update(vroots)
        elif isinstance(t, ast.Attribute):
            self._check_gv_target(t, st, fi, s)
            br = self.roots(t.value, fi, s, env, fld)
            for (p, path) in br:
                k = (p, path, t.attr)
                if k not in s.attr_writes:
                    s.attr_writes[k] = st
                if fi.name == "__init__" and p == "self" and path == "" and t.attr in SAMPLE_FIELDS:
                    s.stored |= set(vroots)
                if aug and t.attr in SAMPLE_FIELDS:
                    self._record_mut(s, {(p, path + "." + t.attr)}, st)
            if aug and not br:
                pass
            root = t.value
            while isinstance(root, (ast.Attribute, ast.Subscript)):
                root = root.value
            if isinstance(root, ast.Name) and vroots:
                fld.setdefault(root.id, set()).update(vroots)

    def _check_global_store(self, t, st, fi, s, env):
        root = t
        while isinstance(root, (ast.Attribute, ast.Subscript)):
            root = root.value
        if isinstance(root, ast.Name) and root.id not in env and root.id not in fi.locals:
            r = self.pkg.resolve_name(fi.module, fi, root.id)
            if r and r.startswith(PKG + ".") and r != f"{PKG}.typing.gv":
                s.global_writes.append((st, root.id))

    # ------------------------------------------------------------------ gv
    def _is_gv(self, node, fi):
        root = node
        while isinstance(root, (ast.Attribute, ast.Subscript, ast.Call)):
            root = root.func if isinstance(root, ast.Call) else root.value
        if isinstance(root, ast.Name):
            r = self.pkg.resolve_name(fi.module, fi, root.id)
            return r == f"{PKG}.typing.gv"
        return False

    def _check_gv_target(self, t, st, fi, s):
        if isinstance(t, (ast.Attribute, ast.Subscript)) and self._is_gv(t, fi):
            s.gv_writes.append((st, f"store to {src_of(t)}"))
        elif isinstance(t, ast.Name):
            # rebinding the module-level name gv (only at module level or via `global`)
            pass

    # ------------------------------------------------------------------ expressions
    def roots(self, e, fi, s, env, fld):
        if e is None:
            return set()
        if isinstance(e, ast.Name):
            return set(env.get(e.id, set()))
        if isinstance(e, ast.Constant):
            return set()
        if isinstance(e, ast.Attribute):
            rr = self.pkg.resolve_expr(fi.module, fi, e)
            if rr is not None and not (isinstance(_rootname(e), str) and _rootname(e) in env):
                if rr.startswith(f"{PKG}.typing.gv."):
                    s.reads_gv.append(e)
                    attr = rr[len(f"{PKG}.typing.gv."):]
                    if attr.split(".")[0] in GV_ARRAYS:
                        return {(GV_ROOT, "." + attr)}     # the global grid's own arrays: aliasing them hands out shared state
                return set()
            br = self.roots(e.value, fi, s, env, fld)
            return {(p, _cap(path + "." + e.attr)) for (p, path) in br}
        if isinstance(e, ast.Subscript):
            br = self.roots(e.value, fi, s, env, fld)
            self.roots(e.slice, fi, s, env, fld)
            # package signal objects: __getitem__ builds a new object through the constructor
            cls = self._class_of(e.value, fi, env)
            if cls and isinstance(e.value, ast.Name) and isinstance(env.get(e.value.id), (set, frozenset)) and env[e.value.id] \
                    and all(isinstance(r_, tuple) and len(r_) == 2 and r_[1] not in ("", None) for r_ in env[e.value.id]):
                # the name was rebound to an ARRAY FIELD of an argument (`input = input.data`, through a helper or not): at this point it
                # is a plain ndarray, whatever class the parameter was annotated with - slicing it gives a view of the caller's data
                cls = []
            if cls:
                out = set()
                for c in cls:
                    m = self.pkg.find_method(c[0], c[1], "__getitem__")
                    if m is not None:
                        out |= self._apply_summary(m, [br, set()], {}, s)
                    else:
                        out |= br
                return out
            if self._fancy_index(e.slice, fi):
                return set()
            return br
        if isinstance(e, (ast.BinOp,)):
            l = self.roots(e.left, fi, s, env, fld)
            r = self.roots(e.right, fi, s, env, fld)
            # operators on signal objects dispatch to __add__ etc.: results built by the constructor (checked in C01)
            return set()
        if isinstance(e, ast.UnaryOp):
            self.roots(e.operand, fi, s, env, fld)
            return set()
        if isinstance(e, ast.BoolOp):
            out = set()
            for v in e.values:
                out |= self.roots(v, fi, s, env, fld)
            return out
        if isinstance(e, ast.Compare):
            self.roots(e.left, fi, s, env, fld)
            for c in e.comparators:
                self.roots(c, fi, s, env, fld)
            return set()
        if isinstance(e, ast.IfExp):
            self.roots(e.test, fi, s, env, fld)
            ct = self._const_test(e.test, fi)
            if ct is not None:
                return self.roots(e.body if ct else e.orelse, fi, s, env, fld)
            return self.roots(e.body, fi, s, env, fld) | self.roots(e.orelse, fi, s, env, fld)
        if isinstance(e, (ast.Tuple, ast.List, ast.Set)):
            out = set()
            for x in e.elts:
                out |= self.roots(x, fi, s, env, fld)
            return out
        if isinstance(e, ast.Dict):
            out = set()
            for x in list(e.keys) + list(e.values):
                if x is not None:
                    out |= self.roots(x, fi, s, env, fld)
            return out
        if isinstance(e, ast.Starred):
            return self.roots(e.value, fi, s, env, fld)
        if isinstance(e, (ast.JoinedStr, ast.FormattedValue)):
            for n in ast.iter_child_nodes(e):
                if isinstance(n, ast.expr):
                    self.roots(n, fi, s, env, fld)
            return set()
        if isinstance(e, ast.Slice):
            for x in (e.lower, e.upper, e.step):
                self.roots(x, fi, s, env, fld)
            return set()
        if isinstance(e, (ast.ListComp, ast.SetComp, ast.GeneratorExp, ast.DictComp)):
            sub = dict(env)
            for g in e.generators:
                r = self.roots(g.iter, fi, s, sub, fld)
                self._bind_local(g.target, r, sub)
                for c in g.ifs:
                    self.roots(c, fi, s, sub, fld)
            if isinstance(e, ast.DictComp):
                return self.roots(e.key, fi, s, sub, fld) | self.roots(e.value, fi, s, sub, fld)
            return self.roots(e.elt, fi, s, sub, fld)
        if isinstance(e, ast.Lambda):
            return set()
        if isinstance(e, ast.NamedExpr):
            r = self.roots(e.value, fi, s, env, fld)
            self._bind(e.target, r, fi, s, env, fld)
            return r
        if isinstance(e, ast.Call):
            return self._call(e, fi, s, env, fld)
        return set()

    def _bind_local(self, t, roots, env):
        if isinstance(t, ast.Name):
            env[t.id] = set(roots)
        elif isinstance(t, (ast.Tuple, ast.List)):
            for x in t.elts:
                self._bind_local(x, roots, env)

    def _fancy_index(self, sl, fi):
        """index that certainly triggers advanced indexing (result is a copy)"""
        if isinstance(sl, ast.Compare):
            return True
        if isinstance(sl, ast.List):
            return True
        if isinstance(sl, ast.Call):
            f = src_of(sl.func)
            if f.endswith(("where", "argsort", "nonzero", "arange", "argmin", "argmax")):
                return True
        if isinstance(sl, ast.BinOp) and isinstance(sl.op, (ast.BitAnd, ast.BitOr)):
            return True
        if isinstance(sl, ast.UnaryOp) and isinstance(sl.op, ast.Invert):
            return True
        return False

    def _class_of(self, node, fi, env):
        """package classes a receiver expression may be an instance of: [(module, class)]"""
        out = []
        if isinstance(node, ast.Name):
            nm = node.id
            ck = (fi.qualname, id(fi.node), nm)
            if ck in self._cls_cache:
                return self._cls_cache[ck]
            if ck in self._cls_busy:
                return []
            self._cls_busy.add(ck)
            try:
                res = self._class_of_name(node, fi, env)
            finally:
                self._cls_busy.discard(ck)
            self._cls_cache[ck] = res
            return res
        elif isinstance(node, ast.Call):
            c = self._ctor_class(node, fi)
            if c:
                out.extend(c)
        elif isinstance(node, ast.Subscript):
            return self._class_of(node.value, fi, env)
        seen = []
        for o in out:
            if o not in seen:
                seen.append(o)
        return seen

    def _class_of_name(self, node, fi, env):
        out = []
        if isinstance(node, ast.Name):
            nm = node.id
            if nm == "self" and fi.cls:
                # methods inherited: the dynamic class may be any subclass
                out.append((fi.module.name, fi.cls))
                for m in self.pkg.modules.values():
                    for ci in m.classes.values():
                        if ci.name != fi.cls and fi.cls in [c.name for c in self.pkg.mro(m.name, ci.name)]:
                            out.append((m.name, ci.name))
                return out
            ann = self._ann.get(nm, "")
            for m in self.pkg.modules.values():
                for cn in m.classes:
                    if cn in ann:
                        out.append((m.name, cn))
            # isinstance checks / constructor assignments anywhere in the function
            for n in ast.walk(fi.node):
                if isinstance(n, ast.Call) and src_of(n.func) == "isinstance" and len(n.args) == 2 and src_of(n.args[0]) == nm:
                    for sub in ast.walk(n.args[1]):
                        if isinstance(sub, ast.Name):
                            if sub.id in fi.locals:
                                out.extend(self._class_alias(fi, sub.id) or [])
                                continue
                            r = self.pkg.resolve_name(fi.module, fi, sub.id)
                            if r and r.startswith(PKG + "."):
                                parts = r.split(".")
                                if len(parts) == 3 and parts[2] in self.pkg.modules[parts[1]].classes:
                                    out.append((parts[1], parts[2]))
                if isinstance(n, ast.Assign) and len(n.targets) == 1 and isinstance(n.targets[0], ast.Name) and n.targets[0].id == nm:
                    c = self._ctor_class(n.value, fi)
                    if c:
                        out.extend(c)
        elif isinstance(node, ast.Call):
            c = self._ctor_class(node, fi)
            if c:
                out.extend(c)
        elif isinstance(node, ast.Subscript):
            return self._class_of(node.value, fi, env)
        seen = []
        for o in out:
            if o not in seen:
                seen.append(o)
        return seen

    def _class_expr(self, e, fi):
        """classes denoted by a class-valued expression: X.__class__, type(X), X.type(), a package class name"""
        if isinstance(e, ast.Attribute) and e.attr == "__class__":
            return self._class_of(e.value, fi, {}) or None
        if isinstance(e, ast.Call) and isinstance(e.func, ast.Attribute) and e.func.attr == "type" and not e.args:
            return self._class_of(e.func.value, fi, {}) or None
        if isinstance(e, ast.Call) and isinstance(e.func, ast.Name) and e.func.id == "type" and len(e.args) == 1:
            return self._class_of(e.args[0], fi, {}) or None
        if isinstance(e, ast.Name):
            r = self.pkg.resolve_name(fi.module, fi, e.id)
            if r and r.startswith(PKG + "."):
                parts = r.split(".")
                if len(parts) == 3 and parts[2] in self.pkg.modules[parts[1]].classes:
                    return [(parts[1], parts[2])]
        return None

    def _class_alias(self, fi, name):
        """a local name every assignment of which is a class-valued expression (`cls = self.__class__`)"""
        if name in fi.params:
            return None
        out, found = [], False
        for n in ast.walk(fi.node):
            tg = []
            if isinstance(n, ast.Assign):
                tg = n.targets
            elif isinstance(n, (ast.AugAssign, ast.AnnAssign, ast.For, ast.NamedExpr)):
                tg = [n.target]
            elif isinstance(n, (ast.With,)):
                tg = [i.optional_vars for i in n.items if i.optional_vars is not None]
            for t in tg:
                for sub in ast.walk(t):
                    if isinstance(sub, ast.Name) and sub.id == name:
                        if not (isinstance(n, ast.Assign) and sub is t):
                            return None
                        c = self._class_expr(n.value, fi)
                        if not c:
                            return None
                        found = True
                        out.extend(x for x in c if x not in out)
        return out if found else None

    def _local_class(self, name, fi, env, depth=0):
        """package classes [(module, class)] a local name stands for when EVERY assignment to it is `<obj>.__class__`, `type(<obj>)`, another
        such local, or functools.partial of one of those (keyword arguments bound, the class still constructs); else []"""
        if depth > 3 or name in fi.params:
            return []
        vals = []
        for n in ast.walk(fi.node):
            if isinstance(n, ast.Assign):
                for t in n.targets:
                    if isinstance(t, ast.Name) and t.id == name:
                        vals.append(n.value)
                    elif any(isinstance(x, ast.Name) and x.id == name for x in ast.walk(t)):
                        return []
            elif isinstance(n, (ast.AugAssign, ast.AnnAssign, ast.For, ast.NamedExpr, ast.With)) and any(isinstance(x, ast.Name) and x.id == name and isinstance(x.ctx, ast.Store) for x in ast.walk(n)):
                if not isinstance(n, ast.Assign):
                    return []
        if not vals:
            return []
        out = None
        for v in vals:
            if isinstance(v, ast.Call) and self.pkg.resolve_expr(fi.module, fi, v.func) == "functools.partial" and v.args:
                v = v.args[0]
            if isinstance(v, ast.Attribute) and v.attr == "__class__":
                c = self._class_of(v.value, fi, env)
            elif isinstance(v, ast.Call) and isinstance(v.func, ast.Name) and v.func.id == "type" and len(v.args) == 1:
                c = self._class_of(v.args[0], fi, env)
            elif isinstance(v, ast.Name) and v.id != name:
                c = self._local_class(v.id, fi, env, depth + 1)
            else:
                c = []
            if not c:
                return []
            out = c if out is None else [x for x in out if x in c] or c
        return out or []

    def _callable_alias(self, fi, name):
        """(dotted callee, bound argument nodes) for a local every assignment of which names one library / package function,
        directly (`f = np.fft.fft`, `a, b = np.sqrt, np.exp`) or through functools.partial (`g = partial(sg.sosfiltfilt, sos)`)"""
        if name in fi.params:
            return None
        found = None
        for n in ast.walk(fi.node):
            pairs = []
            if isinstance(n, ast.Assign):
                for t in n.targets:
                    if isinstance(t, ast.Name):
                        pairs.append((t, n.value))
                    elif isinstance(t, (ast.Tuple, ast.List)) and isinstance(n.value, (ast.Tuple, ast.List)) and len(t.elts) == len(n.value.elts):
                        pairs.extend(zip(t.elts, n.value.elts))
                    else:
                        pairs.extend((sub, None) for sub in ast.walk(t) if isinstance(sub, ast.Name))
            elif isinstance(n, (ast.AugAssign, ast.AnnAssign, ast.For, ast.NamedExpr)):
                pairs.extend((sub, None) for sub in ast.walk(n.target) if isinstance(sub, ast.Name))
            elif isinstance(n, (ast.FunctionDef, ast.Lambda)) and n is not fi.node and getattr(n, "name", None) == name:
                return None
            for t, v in pairs:
                if not (isinstance(t, ast.Name) and t.id == name):
                    continue
                if v is None:
                    return None
                bound = []
                if isinstance(v, ast.Call) and self.pkg.resolve_expr(fi.module, fi, v.func) == "functools.partial" and v.args:
                    bound = list(v.args[1:])
                    v = v.args[0]
                if not isinstance(v, (ast.Name, ast.Attribute)):
                    return None
                root = v
                while isinstance(root, ast.Attribute):
                    root = root.value
                if not isinstance(root, ast.Name) or root.id in fi.locals or root.id in fi.params:
                    return None
                dotted = self.pkg.resolve_expr(fi.module, fi, v)
                if not dotted or (found is not None and found[0] != dotted):
                    return None
                found = (dotted, bound)
        return found

    def _ctor_class(self, call, fi):
        if not isinstance(call, ast.Call):
            if isinstance(call, ast.Subscript):
                return self._class_of(call.value, fi, {})
            return None
        f = call.func
        if isinstance(f, ast.Name) and f.id in fi.locals:
            c = self._class_alias(fi, f.id)
            if c:
                return c
        if isinstance(f, ast.Name):
            r = self.pkg.resolve_name(fi.module, fi, f.id)
            if r and r.startswith(PKG + "."):
                parts = r.split(".")
                if len(parts) == 3 and parts[2] in self.pkg.modules[parts[1]].classes:
                    return [(parts[1], parts[2])]
                # function returning a signal object: look at its annotation-free summary -> unknown
                q = f"{parts[1]}.{parts[2]}" if len(parts) == 3 else None
                if q in self.sum:
                    rc = self._return_classes(self.sum[q].fi)
                    if rc:
                        return rc
        if isinstance(f, ast.Attribute) and f.attr in ("__class__",):
            return self._class_of(f.value, fi, {})
        if isinstance(f, ast.Call) and isinstance(f.func, ast.Attribute) and f.func.attr == "type":
            return self._class_of(f.func.value, fi, {})
        return None

    _rc_cache: dict = {}

    def _return_classes(self, fi):
        if fi.qualname in self._rc_cache:
            return self._rc_cache[fi.qualname]
        self._rc_cache[fi.qualname] = None
        out = []
        for n in ast.walk(fi.node):
            if isinstance(n, ast.Return) and n.value is not None:
                v = n.value
                if isinstance(v, ast.Name):
                    for a in ast.walk(fi.node):
                        if isinstance(a, ast.Assign) and len(a.targets) == 1 and isinstance(a.targets[0], ast.Name) and a.targets[0].id == v.id:
                            c = self._ctor_class(a.value, fi)
                            if c:
                                out.extend(c)
                else:
                    c = self._ctor_class(v, fi)
                    if c:
                        out.extend(c)
        self._rc_cache[fi.qualname] = out or None
        return out or None

    def _apply_summary(self, callee: FuncInfo, arg_roots, kw_roots, s, node=None):
        """map the callee's summary through the actual arguments; returns result roots"""
        cs = self.sum.get(callee.qualname)
        if cs is None:
            out = set()
            for r in arg_roots:
                out |= r
            return out
        s.calls.add(callee.qualname)
        params = callee.params

        def actual(p):
            if p in params:
                i = params.index(p)
                if i < len(arg_roots):
                    return arg_roots[i]
            return kw_roots.get(p, set())
        out = set()
        for (p, path) in cs.ret:
            if p == GV_ROOT:
                out.add((p, path))
                continue
            out |= {(q, _cap(qp + path)) for (q, qp) in actual(p)}
        for (p, path), n in cs.mutates.items():
            if p == GV_ROOT and (p, path) not in s.mutates:
                s.mutates[(p, path)] = node if node is not None else n
            for (q, qp) in actual(p):
                k = (q, _cap(qp + path))
                if k not in s.mutates:
                    s.mutates[k] = node if node is not None else n
        for (p, path, attr), n in cs.attr_writes.items():
            for (q, qp) in actual(p):
                k = (q, _cap(qp + path), attr)
                if k not in s.attr_writes:
                    s.attr_writes[k] = node if node is not None else n
        for g in cs.gv_writes:
            pass  # gv writes are reported where they occur; transitive reachability is computed by the rule
        return out

    def _call(self, e, fi, s, env, fld):
        args = [self.roots(a, fi, s, env, fld) for a in e.args]
        kws = {k.arg: self.roots(k.value, fi, s, env, fld) for k in e.keywords}
        allr = set()
        for r in args:
            allr |= r
        for r in kws.values():
            allr |= r
        f = e.func
        if isinstance(f, ast.Call) and src_of(f.func).split(".")[-1] == "vectorize":
            return set()          # np.vectorize(kernel)(a, b, ...): the kernel is applied element by element and the results collected in a new array
        # out= keyword writes into its target
        if "out" in kws and kws["out"]:
            self._record_mut(s, kws["out"], e)
        dotted = None
        if isinstance(f, ast.Attribute) and f.attr == "__class__":
            c = self._class_of(f.value, fi, env)
            if c:
                return self._construct(c, args, kws, s, e)
        if isinstance(f, ast.Name) and f.id in fi.locals:
            # a local that stands for a class of the package: `cls = self.__class__`, `new = partial(cls, dtype=...)` - calling it constructs
            c = self._local_class(f.id, fi, env)
            if c:
                return self._construct(c, args, kws, s, e)
        if isinstance(f, ast.Name) and f.id not in env and f.id in fi.locals:
            for q, cs in self.sum.items():
                if cs.fi.parent is fi and cs.fi.name == f.id:
                    return self._apply_summary(cs.fi, args, kws, s, e)
        if isinstance(f, ast.Name) and f.id not in env and f.id not in fi.locals and fi.parent is not None:
            # a free variable of a closure that names one library function in the enclosing function (`draw = partial(np.random.normal, 0)`)
            up = fi.parent
            while up is not None:
                if f.id in up.locals:
                    ca = self._callable_alias(up, f.id)
                    if ca is not None:
                        return self._call_dotted(ca[0], e, args, kws, allr, fi, s, env, fld)
                    break
                up = up.parent
        if isinstance(f, ast.Name):
            if f.id in fi.locals:
                c = self._class_alias(fi, f.id)
                if c:
                    return self._construct(c, args, kws, s, e)
            if f.id in env and f.id not in ("len", "int"):
                # calling a local (lambda / nested def / parameter callable)
                for q, cs in self.sum.items():
                    if cs.fi.parent is fi and cs.fi.name == f.id:
                        return self._apply_summary(cs.fi, args, kws, s, e)
                ca = self._callable_alias(fi, f.id)
                if ca is not None:
                    # a local that only ever names one library / package function (possibly with leading arguments bound)
                    bound = [self.roots(b, fi, s, env, fld) for b in ca[1]]
                    for r in bound:
                        allr |= r
                    return self._call_dotted(ca[0], e, bound + args, kws, allr, fi, s, env, fld)
                return allr
            dotted = self.pkg.resolve_name(fi.module, fi, f.id) or f.id
        elif isinstance(f, ast.Attribute):
            rootnm = _rootname(f)
            if not (isinstance(rootnm, str) and rootnm in env):
                dotted = self.pkg.resolve_expr(fi.module, fi, f)
        if dotted is not None:
            return self._call_dotted(dotted, e, args, kws, allr, fi, s, env, fld)
        # ---- super().__init__(...)
        if isinstance(f, ast.Attribute) and f.attr == "__init__" and isinstance(f.value, ast.Call) and src_of(f.value.func) == "super" and fi.cls:
            mro = self.pkg.mro(fi.module.name, fi.cls)
            for ci in mro[1:]:
                if "__init__" in ci.methods:
                    base = ci.methods["__init__"]
                    cs = self.sum[base.qualname]
                    s.calls.add(base.qualname)
                    for (p, path) in cs.stored:
                        if p in base.params:
                            i = base.params.index(p) - 1
                            src = args[i] if 0 <= i < len(args) else kws.get(p, set())
                            s.stored |= {(q, qp + path) for (q, qp) in src}
                    break
            return set()
        # ---- method call on a value
        if isinstance(f, ast.Attribute):
            br = self.roots(f.value, fi, s, env, fld)
            name = f.attr
            if name in RAND_METHODS and self._yields_numpy_random(f.value, fi):
                # (np.random if rng is None else rng).normal(...) / _source(rng).standard_normal(...): numpy's global generator
                # unless the caller supplies one
                s.rand.append(("numpy.random." + name, e))
            if self._is_gv(f.value, fi) or (isinstance(f.value, ast.Name) and self._is_gv(f.value, fi)):
                pass
            cls = self._class_of(f.value, fi, env)
            cands = []
            if cls:
                for c in cls:
                    m = self.pkg.find_method(c[0], c[1], name)
                    if m is not None and m not in cands:
                        cands.append(m)
            elif name in self.method_index and name not in ("copy", "print", "plot", "show", "type", "len"):
                cands = [m for (_, _, m) in self.method_index[name]]
            if cands:
                out = set()
                for m in cands:
                    out |= self._apply_summary(m, [br] + args, kws, s, e)
                return out
            if name in MUTATING_METHODS:
                rn = _rootname(f.value)
                if isinstance(rn, str) and rn not in env and rn not in fi.locals:
                    r0 = self.pkg.resolve_name(fi.module, fi, rn)
                    if r0 and r0.startswith(PKG + ".") and r0 != f"{PKG}.typing.gv":
                        s.global_writes.append((e, rn))
                if name in LIST_MUTATORS:
                    # a list/dict built locally is a fresh container even when its elements alias arguments
                    direct = isinstance(f.value, ast.Name) and f.value.id in fi.params and env.get(f.value.id) == {(f.value.id, "")}
                    direct = direct or (isinstance(f.value, ast.Attribute) and bool(br))
                    if direct:
                        self._record_mut(s, br, e)
                elif br and not (name == "byteswap" and not e.args):
                    self._record_mut(s, br, e)
                if isinstance(f.value, ast.Name) and allr:
                    fld.setdefault(f.value.id, set()).update(allr)
                return set()
            if name in VIEW_METHODS:
                return br
            if name == "astype":
                cp = [k for k in e.keywords if k.arg == "copy"]
                if cp and self._copy_flag(cp[0].value, fi) is not True:
                    return br
                return set()
            if name in FRESH_METHODS:
                return set()
            if name in self.method_index:
                out = set()
                for (_, _, m) in self.method_index[name]:
                    out |= self._apply_summary(m, [br] + args, kws, s, e)
                return out
            s.unresolved.append((e, src_of(f)))
            return br | allr
        if isinstance(f, ast.Call):
            # self.type()(...) / type(self)(...)
            c = self._ctor_class(e, fi)
            if c:
                return self._construct(c, args, kws, s, e)
            self.roots(f, fi, s, env, fld)
        return allr

    def _construct(self, classes, args, kws, s, node):
        out = set()
        for (mn, cn) in classes:
            init = self.pkg.find_method(mn, cn, "__init__")
            if init is None:
                for r in args:
                    out |= r
                continue
            cs = self.sum[init.qualname]
            s.calls.add(init.qualname)
            # the object's fields alias whatever __init__ stored from its parameters
            params = init.params
            for (p, path, attr), n in cs.attr_writes.items():
                pass
            stored = getattr(cs, "stored", set())
            for (p, path) in stored:
                if p in params:
                    i = params.index(p) - 1
                    if 0 <= i < len(args):
                        out |= {(q, qp + path) for (q, qp) in args[i]}
                    elif p in kws:
                        out |= {(q, qp + path) for (q, qp) in kws[p]}
        return out

    def _call_dotted(self, dotted, e, args, kws, allr, fi, s, env, fld):
        f = e.func
        if dotted.startswith(f"{PKG}.typing.gv"):
            # gv(...), gv.clean(), gv.__call__(...)
            tail = dotted[len(f"{PKG}.typing.gv"):]
            if tail in ("", ".clean", ".__call__", ".__init__", ".__setattr__", ".__delattr__", ".__dict__.update"):
                s.gv_writes.append((e, f"call {src_of(f)}(...)"))
            return set()
        if dotted in ("setattr", "delattr") and e.args and self._is_gv(e.args[0], fi):
            s.gv_writes.append((e, f"{dotted}({src_of(e.args[0])}, ...)"))
            return set()
        if dotted in ("setattr", "delattr") and e.args:
            br = args[0]
            for (p, path) in br:
                k = (p, path, "<dynamic>")
                if k not in s.attr_writes:
                    s.attr_writes[k] = e
            return set()
        if any(dotted.startswith(p) for p in RAND_PREFIXES) or dotted in ("id", "hash"):
            s.rand.append((dotted, e))
        if dotted.startswith(PKG + "."):
            parts = dotted.split(".")
            if len(parts) == 3 and parts[1] in self.pkg.modules:
                m = self.pkg.modules[parts[1]]
                if parts[2] in m.classes:
                    return self._construct([(m.name, parts[2])], args, kws, s, e)
                q = f"{m.name}.{parts[2]}"
                if q in self.sum:
                    return self._apply_summary(self.sum[q].fi, args, kws, s, e)
            return allr
        last = dotted.split(".")[-1]
        top = dotted.split(".")[0]
        if top in ("numpy", "scipy", "math", "sklearn", "matplotlib", "warnings", "re", "timeit", "time", "tqdm", "pympler", "pyvisa", "typing"):
            if last in MUTATING_FUNCS and args:
                if args[MUTATING_FUNCS[last]]:
                    self._record_mut(s, args[MUTATING_FUNCS[last]], e)
                return set()
            if last == "array" or last == "astype":
                cp = [k for k in e.keywords if k.arg == "copy"]
                if cp and self._copy_flag(cp[0].value, fi) is not True:
                    return allr
                return set()
            if last in VIEW_FUNCS:
                return args[0] if args else set()
            return set()
        if dotted in ("len", "int", "float", "str", "bool", "complex", "abs", "min", "max", "sum", "round", "range", "print", "isinstance",
                      "type", "callable", "sorted", "enumerate", "zip", "map", "list", "tuple", "dict", "set", "super", "getattr", "hasattr",
                      "dir", "any", "all", "repr", "format", "divmod", "pow", "ord", "chr", "iter", "next", "reversed", "filter", "id", "hash",
                      "bytearray", "bytes", "frozenset", "slice", "bin", "hex", "oct", "operator.index", "math.floor", "math.ceil"):
            if dotted in ("list", "tuple", "sorted", "dict", "set", "reversed", "enumerate", "zip", "map", "filter", "iter", "next", "getattr", "max", "min"):
                # containers keep references to the same element objects
                return allr if dotted in ("getattr", "next", "iter", "zip", "enumerate", "map", "filter", "reversed") else set()
            return set()
        if dotted.endswith(("Error", "Exception", "Warning")):
            return set()
        s.unresolved.append((e, dotted))
        return allr

    # ------------------------------------------------------------------ reachability
    def reachable(self, qualname, seen=None):
        seen = seen if seen is not None else set()
        if qualname in seen or qualname not in self.sum:
            return seen
        seen.add(qualname)
        for c in self.sum[qualname].calls:
            self.reachable(c, seen)
        # nested defs / lambdas are part of the function
        for q, cs in self.sum.items():
            if cs.fi.parent is self.sum[qualname].fi:
                self.reachable(q, seen)
        return seen


def _reassigned(fnode, name):
    for n in ast.walk(fnode):
        if isinstance(n, ast.Name) and n.id == name and isinstance(n.ctx, (ast.Store, ast.Del)):
            return True
    return False


def _none_names(test):
    """(names known to be None when the test is true, ... when it is false) for `x is None` / `x is not None` tests"""
    t, f = [], []
    if isinstance(test, ast.Compare) and len(test.ops) == 1 and isinstance(test.left, ast.Name) \
            and isinstance(test.comparators[0], ast.Constant) and test.comparators[0].value is None:
        if isinstance(test.ops[0], ast.Is):
            t.append(test.left.id)
        elif isinstance(test.ops[0], ast.IsNot):
            f.append(test.left.id)
    elif isinstance(test, ast.BoolOp) and isinstance(test.op, ast.And):
        for v in test.values:
            a, _ = _none_names(v)
            t += a
    elif isinstance(test, ast.UnaryOp) and isinstance(test.op, ast.Not):
        a, b = _none_names(test.operand)
        return b, a
    return t, f


def _cap(path):
    parts = path.split(".")
    return ".".join(parts[:4]) if len(parts) > 4 else path


def _rootname(node):
    while isinstance(node, (ast.Attribute, ast.Subscript)):
        node = node.value
    if isinstance(node, ast.Call):
        return _rootname(node.func)
    return node.id if isinstance(node, ast.Name) else None
