"""Polynomial normal forms over symbolic atoms with exact complex-rational coefficients.

This is an algebraic normaliser of the kind a compiler's value numbering uses: expressions
that are equal as polynomials / monomials with rational exponents (after a small set of
rewrite rules for exp, 10**x and sqrt) get the same key.  Nothing is executed.
"""
from __future__ import annotations

from fractions import Fraction
from functools import lru_cache

F0 = Fraction(0)
F1 = Fraction(1)


# ----------------------------------------------------------------------------- other values
class Const:
    """a non-numeric Python constant (None, str, bool, Ellipsis, type objects by name)"""
    __slots__ = ("v",)

    def __init__(self, v):
        self.v = v

    def key(self):
        return ("const", type(self.v).__name__, self.v)

    def __eq__(self, o):
        return isinstance(o, Const) and self.key() == o.key()

    def __hash__(self):
        return hash(self.key())

    def __repr__(self):
        return repr(self.v)


class TupleV:
    __slots__ = ("items", "kind")

    def __init__(self, items, kind="tuple"):
        self.items = list(items)
        self.kind = kind

    def key(self):
        return (self.kind, tuple(vkey(i) for i in self.items))

    def __eq__(self, o):
        return isinstance(o, TupleV) and self.key() == o.key()

    def __hash__(self):
        return hash(self.key())

    def __repr__(self):
        a, b = ("(", ")") if self.kind == "tuple" else ("[", "]")
        return a + ", ".join(map(repr, self.items)) + b


class DictV:
    __slots__ = ("items",)

    def __init__(self, items):
        self.items = list(items)  # list of (keyvalue, value)

    def key(self):
        return ("dict", tuple((vkey(k), vkey(v)) for k, v in self.items))

    def __eq__(self, o):
        return isinstance(o, DictV) and self.key() == o.key()

    def __hash__(self):
        return hash(self.key())

    def get(self, k):
        kk = vkey(k)
        for a, b in self.items:
            if vkey(a) == kk:
                return b
        return None

    def set(self, k, v):
        kk = vkey(k)
        for i, (a, b) in enumerate(self.items):
            if vkey(a) == kk:
                self.items[i] = (a, v)
                return
        self.items.append((k, v))

    def __repr__(self):
        return "{" + ", ".join(f"{k!r}: {v!r}" for k, v in self.items) + "}"


class SliceV:
    __slots__ = ("lo", "hi", "step")

    def __init__(self, lo, hi, step):
        self.lo, self.hi, self.step = lo, hi, step

    def key(self):
        lo = self.lo
        if isinstance(lo, Form) and lo.is_zero() and (isinstance(self.step, Const) and self.step.v is None or (isinstance(self.step, Form) and self.step.rational() is not None and self.step.rational() > 0)):
            lo = Const(None)          # x[0:k] selects what x[:k] selects (forward slices)
        return ("slice", vkey(lo), vkey(self.hi), vkey(self.step))

    def __eq__(self, o):
        return isinstance(o, SliceV) and self.key() == o.key()

    def __hash__(self):
        return hash(self.key())

    def __repr__(self):
        f = lambda x: "" if (isinstance(x, Const) and x.v is None) else repr(x)
        s = f"{f(self.lo)}:{f(self.hi)}"
        if not (isinstance(self.step, Const) and self.step.v is None):
            s += ":" + f(self.step)
        return s


def vkey(v):
    if v is None:
        return ("pynone",)
    if hasattr(v, "key"):
        return v.key()
    return ("py", repr(v))


# ----------------------------------------------------------------------------- number helpers
_SMALL_PRIMES = None


def _primes(limit=100000):
    global _SMALL_PRIMES
    if _SMALL_PRIMES is None:
        sieve = bytearray([1]) * (limit + 1)
        sieve[0:2] = b"\x00\x00"
        for i in range(2, int(limit ** 0.5) + 1):
            if sieve[i]:
                sieve[i * i::i] = bytearray(len(sieve[i * i::i]))
        _SMALL_PRIMES = [i for i, b in enumerate(sieve) if b]
    return _SMALL_PRIMES


@lru_cache(maxsize=4096)
def factor_int(n: int):
    """{prime: exponent}; a cofactor that resists trial division is kept as one 'prime'."""
    out = {}
    if n <= 1:
        return out
    for p in _primes():
        if p * p > n:
            break
        while n % p == 0:
            out[p] = out.get(p, 0) + 1
            n //= p
    if n > 1:
        out[n] = out.get(n, 0) + 1
    return out


def cmul(a, b):
    return (a[0] * b[0] - a[1] * b[1], a[0] * b[1] + a[1] * b[0])


def cinv(a):
    d = a[0] * a[0] + a[1] * a[1]
    return (a[0] / d, -a[1] / d)


def cpow_int(a, n: int):
    if n < 0:
        return cpow_int(cinv(a), -n)
    r = (F1, F0)
    base = a
    while n:
        if n & 1:
            r = cmul(r, base)
        base = cmul(base, base)
        n >>= 1
    return r


# ----------------------------------------------------------------------------- Form
class Form:
    """sum of monomials; monomial = tuple of (atom, exponent) pairs sorted by atom string."""
    __slots__ = ("terms", "_key", "_str")

    def __init__(self, terms=None):
        self.terms = {}
        if terms:
            for m, c in terms.items():
                if c[0] != 0 or c[1] != 0:
                    self.terms[m] = c
        self._key = None
        self._str = None

    # -- construction helpers
    @staticmethod
    def num(x, imag=0):
        if isinstance(x, complex):
            return Form({(): (to_frac(x.real), to_frac(x.imag))})
        return Form({(): (to_frac(x), to_frac(imag))})

    @staticmethod
    def atom(a):
        if a[0] == "idx" and isinstance(a[2], SliceV) and isinstance(a[1], Form):
            sl = a[2]
            none = lambda x: isinstance(x, Const) and x.v is None
            if (none(sl.lo) or (isinstance(sl.lo, Form) and sl.lo.is_zero())) and none(sl.hi) and (none(sl.step) or (isinstance(sl.step, Form) and sl.step.rational() == 1)):
                return a[1]           # x[:] / x[0:] holds the values of x
        return Form({((a, F1),): (F1, F0)})

    @staticmethod
    def sym(name):
        return Form.atom(("sym", name))

    def key(self):
        if self._key is None:
            self._key = ("form", tuple(sorted(((tuple((atom_str(a), e) for a, e in m)), c) for m, c in self.terms.items())))
        return self._key

    def __eq__(self, o):
        return isinstance(o, Form) and self.key() == o.key()

    def __hash__(self):
        return hash(self.key())

    # -- predicates
    def is_zero(self):
        return not self.terms

    def is_const(self):
        return all(m == () for m in self.terms)

    def const_value(self):
        """(re, im) Fractions if constant, else None"""
        if not self.terms:
            return (F0, F0)
        if self.is_const():
            return self.terms[()]
        return None

    def rational(self):
        c = self.const_value()
        if c is not None and c[1] == 0:
            return c[0]
        return None

    def single_atom(self):
        """the atom if the form is exactly 1*atom**1, else None"""
        if len(self.terms) == 1:
            (m, c), = self.terms.items()
            if c == (F1, F0) and len(m) == 1 and m[0][1] == 1:
                return m[0][0]
        return None

    def sym_name(self):
        a = self.single_atom()
        if a is not None and a[0] == "sym":
            return a[1]
        return None

    def atoms(self, deep=True):
        """all atoms occurring (recursively through function arguments when deep)"""
        out = set()
        stack = [self]
        while stack:
            f = stack.pop()
            if isinstance(f, Form):
                for m in f.terms:
                    for a, _ in m:
                        if a not in out:
                            out.add(a)
                            if deep:
                                stack.extend(atom_children(a))
            elif isinstance(f, TupleV):
                stack.extend(f.items)
            elif isinstance(f, DictV):
                for k, v in f.items:
                    stack.extend([k, v])
            elif isinstance(f, SliceV):
                stack.extend([f.lo, f.hi, f.step])
            elif hasattr(f, "fields") and deep:
                stack.extend(f.fields.values())
        return out

    def syms(self):
        return {a[1] for a in self.atoms() if a[0] == "sym"}

    def fn_atoms(self, name):
        return [a for a in self.atoms() if a[0] == "fn" and a[1] == name]

    # -- arithmetic
    def __add__(self, o):
        o = as_form(o)
        t = dict(self.terms)
        for m, c in o.terms.items():
            if m in t:
                n = (t[m][0] + c[0], t[m][1] + c[1])
                if n[0] == 0 and n[1] == 0:
                    del t[m]
                else:
                    t[m] = n
            else:
                t[m] = c
        return Form(t)

    __radd__ = __add__

    def __neg__(self):
        return Form({m: (-c[0], -c[1]) for m, c in self.terms.items()})

    def __sub__(self, o):
        return self + (-as_form(o))

    def __rsub__(self, o):
        return as_form(o) + (-self)

    def __mul__(self, o):
        o = as_form(o)
        t = {}
        for m1, c1 in self.terms.items():
            for m2, c2 in o.terms.items():
                m, extra = mono_mul(m1, m2)
                c = cmul(cmul(c1, c2), extra)
                if any(a[0] == "grp" and e.denominator == 1 and 1 <= e <= 3 for a, e in m):
                    # (sum)**k with small positive integer k: expand back into the polynomial
                    sub = Form({tuple((a, e) for a, e in m if not (a[0] == "grp" and e.denominator == 1 and 1 <= e <= 3)): c})
                    for a, e in m:
                        if a[0] == "grp" and e.denominator == 1 and 1 <= e <= 3:
                            for _ in range(int(e)):
                                sub = sub * a[1]
                    for mm, cc in sub.terms.items():
                        if mm in t:
                            n = (t[mm][0] + cc[0], t[mm][1] + cc[1])
                            if n[0] == 0 and n[1] == 0:
                                del t[mm]
                            else:
                                t[mm] = n
                        else:
                            t[mm] = cc
                    continue
                if m in t:
                    n = (t[m][0] + c[0], t[m][1] + c[1])
                    if n[0] == 0 and n[1] == 0:
                        del t[m]
                    else:
                        t[m] = n
                else:
                    t[m] = c
        return Form(t)

    __rmul__ = __mul__

    def __truediv__(self, o):
        return self * fpow(as_form(o), Fraction(-1))

    def __rtruediv__(self, o):
        return as_form(o) * fpow(self, Fraction(-1))

    # -- substitution
    def subst(self, fn):
        """rebuild the form replacing atoms: fn(atom) -> value (Form) or None to keep (children
        are rebuilt recursively)."""
        total = Form()
        for m, c in self.terms.items():
            term = Form({(): c})
            for a, e in m:
                r = fn(a)
                if r is None:
                    r = rebuild_atom(a, fn)
                term = term * fpow(r, e)
            total = total + term
        return total

    # -- printing
    def __repr__(self):
        if self._str is None:
            self._str = form_str(self)
        return self._str


def to_frac(x):
    if isinstance(x, Fraction):
        return x
    if isinstance(x, bool):
        return Fraction(int(x))
    if isinstance(x, int):
        return Fraction(x)
    if isinstance(x, float):
        if x != x or x in (float("inf"), float("-inf")):
            raise ValueError("non-finite literal")
        return Fraction(repr(x))
    raise TypeError(type(x))


def as_form(x):
    if isinstance(x, Form):
        return x
    if isinstance(x, (int, float, Fraction, complex)) and not isinstance(x, bool):
        return Form.num(x)
    if isinstance(x, bool):
        return Form.num(int(x))
    raise TypeError(f"not a form: {x!r}")


# ----------------------------------------------------------------------------- atoms
_ATOM_STR_CACHE: dict = {}


def atom_str(a) -> str:
    try:
        s = _ATOM_STR_CACHE.get(a)
    except TypeError:
        s = None
    if s is not None:
        return s
    k = a[0]
    if k == "sym":
        s = a[1]
    elif k == "c":
        s = a[1].split(".")[-1] if a[1].startswith("scipy.constants") else a[1]
        s = {"k": "kB"}.get(s, s)
    elif k == "num":
        s = f"#{a[1]}"
    elif k == "grp":
        s = f"({a[1]!r})"
    elif k == "fn":
        args = [repr(x) for x in a[2]] + [f"{kw}={v!r}" for kw, v in a[3]]
        s = f"{a[1]}({', '.join(args)})"
    elif k == "attr":
        s = f"{_paren(a[1])}.{a[2]}"
    elif k == "idx":
        s = f"{_paren(a[1])}[{a[2]!r}]"
    elif k == "meth":
        args = [repr(x) for x in a[3]] + [f"{kw}={v!r}" for kw, v in a[4]]
        s = f"{_paren(a[1])}.{a[2]}({', '.join(args)})"
    elif k == "phi":
        s = f"phi<{a[1]}>({', '.join(repr(x) for x in a[2])})"
    elif k == "loop":
        s = f"loop<{a[1]}>"
    elif k == "opaque":
        s = f"?{a[1]}"
    else:
        s = repr(a)
    try:
        _ATOM_STR_CACHE[a] = s
    except TypeError:
        pass
    return s


def _paren(v):
    s = repr(v)
    if isinstance(v, Form) and (len(v.terms) > 1 or any(len(m) > 1 or (m and m[0][1] != 1) or c != (F1, F0) for m, c in v.terms.items())):
        return f"({s})"
    return s


def atom_children(a):
    k = a[0]
    if k == "fn":
        return list(a[2]) + [v for _, v in a[3]]
    if k == "grp":
        return [a[1]]
    if k == "attr":
        return [a[1]]
    if k == "idx":
        return [a[1], a[2]]
    if k == "meth":
        return [a[1]] + list(a[3]) + [v for _, v in a[4]]
    if k == "phi":
        return list(a[2])
    return []


def subst_value(v, fn):
    if isinstance(v, Form):
        return v.subst(fn)
    if isinstance(v, TupleV):
        return TupleV([subst_value(i, fn) for i in v.items], v.kind)
    if isinstance(v, SliceV):
        return SliceV(subst_value(v.lo, fn), subst_value(v.hi, fn), subst_value(v.step, fn))
    return v


def rebuild_atom(a, fn):
    k = a[0]
    if k == "fn":
        return mk_fn(a[1], [subst_value(x, fn) for x in a[2]], [(kw, subst_value(v, fn)) for kw, v in a[3]])
    if k == "grp":
        return a[1].subst(fn)
    if k == "attr":
        return mk_attr(subst_value(a[1], fn), a[2])
    if k == "idx":
        return mk_idx(subst_value(a[1], fn), subst_value(a[2], fn))
    if k == "meth":
        return Form.atom(("meth", subst_value(a[1], fn), a[2], tuple(subst_value(x, fn) for x in a[3]),
                          tuple((kw, subst_value(v, fn)) for kw, v in a[4])))
    if k == "phi":
        return Form.atom(("phi", a[1], tuple(subst_value(x, fn) for x in a[2])))
    return Form.atom(a)


def mk_attr(base, name):
    if isinstance(base, Form):
        s = base.sym_name()
        if s is not None:
            return Form.sym(f"{s}.{name}")
    return Form.atom(("attr", base, name))


def mk_idx(base, index):
    return Form.atom(("idx", base, index))


# exponential families merged inside monomials
_EXPFAM = ("exp", "exp10")


def mono_mul(m1, m2):
    """product of two monomials -> (monomial, extra coefficient)"""
    d = {}
    for a, e in m1:
        d[a] = d.get(a, F0) + e
    for a, e in m2:
        d[a] = d.get(a, F0) + e
    return mono_norm(d)


def mono_norm(d):
    extra = (F1, F0)
    # merge exponential atoms: exp(a)^p * exp(b)^q -> exp(p a + q b)
    for fam in _EXPFAM:
        found = [(a, e) for a, e in d.items() if a[0] == "fn" and a[1] == fam and e != 0]
        if len(found) > 1 or (len(found) == 1 and found[0][1] != 1):
            tot = Form()
            for a, e in found:
                tot = tot + a[2][0] * Form.num(e)
                del d[a]
            f = mk_fn(fam, [tot], [])
            # f is a form: either constant or coef*atom
            for m, c in f.terms.items():
                extra = cmul(extra, c)
                for a, e in m:
                    d[a] = d.get(a, F0) + e
    # fold integer powers of 'num' atoms into the coefficient
    for a in [a for a in d if a[0] == "num"]:
        e = d[a]
        ip = e.numerator // e.denominator  # floor
        if ip != 0:
            extra = cmul(extra, (Fraction(a[1]) ** ip, F0))
            d[a] = e - ip
    items = [(a, e) for a, e in d.items() if e != 0]
    items.sort(key=lambda ae: atom_str(ae[0]))
    return tuple(items), extra


def num_pow(r: Fraction, q: Fraction) -> Form:
    """r**q for rational r>0, rational q, as coefficient * num-atoms"""
    if q.denominator == 1:
        return Form.num(r ** int(q))
    if r <= 0:
        if r == 0:
            return Form.num(0)
        if q == Fraction(1, 2):
            return num_pow(-r, q) * Form.num(0, 1)
        return Form.atom(("fn", "pow", (Form.num(r), Form.num(q)), ()))
    d = {}
    for p, k in factor_int(r.numerator).items():
        d[("num", p)] = d.get(("num", p), F0) + k * q
    for p, k in factor_int(r.denominator).items():
        d[("num", p)] = d.get(("num", p), F0) - k * q
    m, extra = mono_norm(d)
    return Form({m: extra})


def fpow(base: Form, exp) -> Form:
    if isinstance(exp, Form):
        q = exp.rational()
        if q is None:
            b = base.rational()
            if b == 10:
                return mk_fn("exp10", [exp], [])
            a = base.single_atom()
            if a is not None and a == ("c", "math.e"):
                return mk_fn("exp", [exp], [])
            return Form.atom(("fn", "pow", (base, exp), ()))
    else:
        q = Fraction(exp)
    if q == 1:
        return base
    if q == 0:
        return Form.num(1)
    if base.is_zero():
        return Form.num(0) if q > 0 else Form.atom(("fn", "pow", (base, Form.num(q)), ()))
    if len(base.terms) == 1:
        (m, c), = base.terms.items()
        # coefficient
        if c[1] == 0:
            if c[0] > 0 or q.denominator == 1:
                cf = num_pow(c[0], q) if c[0] > 0 else Form.num(c[0] ** int(q))
            else:
                cf = num_pow(c[0], q)
        elif q.denominator == 1:
            cf = Form({(): cpow_int(c, int(q))})
        else:
            cf = Form.atom(("fn", "pow", (Form({(): c}), Form.num(q)), ()))
        res = cf
        for a, e in m:
            if a[0] == "fn" and a[1] in _EXPFAM:
                res = res * mk_fn(a[1], [a[2][0] * Form.num(e * q)], [])
            elif a[0] == "grp" and (e * q).denominator == 1 and 1 <= e * q <= 3:
                for _ in range(int(e * q)):
                    res = res * a[1]
            elif q.denominator != 1 and e.denominator == 1 and e % 2 == 0 and a[0] not in ("num", "c") and not (a[0] == "fn" and a[1] in ("abs", "exp", "exp10")):
                # (x**2)**1.5 is |x|**3, not x**3: an even power hides the sign of a real x
                mm, extra = mono_norm({("fn", "abs", (Form.atom(a),), ()): e * q})
                res = res * Form({mm: extra})
            else:
                mm, extra = mono_norm({a: e * q})
                res = res * Form({mm: extra})
        return res
    # multi-term base
    if q.denominator == 1 and 0 < q <= 3:
        r = base
        for _ in range(int(q) - 1):
            r = r * base
        return r
    # normalise the content: (2M-2)**-1 == 1/2*(M-1)**-1
    lead = _leading_coef(base)
    if lead is not None and lead != 1:
        c0 = lead if q.denominator == 1 else abs(lead)
        if c0 != 1 and c0 != 0:
            inner = Form({m: (c[0] / c0, c[1] / c0) for m, c in base.terms.items()})
            outer = Form.num(c0 ** int(q)) if q.denominator == 1 else num_pow(c0, q)
            mm, extra = mono_norm({("grp", inner): q})
            return outer * Form({mm: extra})
    mm, extra = mono_norm({("grp", base): q})
    return Form({mm: extra})


def _leading_coef(f: "Form"):
    """real rational coefficient of the canonical leading monomial, or None"""
    items = sorted(f.terms.items(), key=lambda mc: (len(mc[0]) == 0, [(atom_str(a), e) for a, e in mc[0]]))
    if not items:
        return None
    m, c = items[0]
    if c[1] != 0:
        return None
    return c[0]


# canonical commutative / structural rewrites for function atoms
# ----------------------------------------------------------------------------- library call signatures
# name (last component) -> (parameter names, number of leading parameters written positionally in canonical form, defaults)
# Spelling a parameter positionally or by keyword, or passing a default explicitly, does not change the call.
_NODEF = object()
_SIGS = {
    "fftfreq": (("n", "d"), 1, {"d": 1}),
    "fft": (("a", "n", "axis", "norm"), 1, {"n": None, "norm": None}),
    "ifft": (("a", "n", "axis", "norm"), 1, {"n": None, "norm": None}),
    "fftshift": (("x", "axes"), 1, {"axes": None}),
    "ifftshift": (("x", "axes"), 1, {"axes": None}),
    "linspace": (("start", "stop", "num", "endpoint", "retstep", "dtype", "axis"), 3, {"num": 50, "retstep": False, "dtype": None, "axis": 0}),
    "sum": (("a", "axis", "dtype", "out", "keepdims"), 1, {"axis": None, "dtype": None, "out": None, "keepdims": False}),
    "mean": (("a", "axis", "dtype", "out", "keepdims"), 1, {"axis": None, "dtype": None, "out": None, "keepdims": False}),
    "std": (("a", "axis", "dtype", "out", "ddof", "keepdims"), 1, {"axis": None, "dtype": None, "out": None, "ddof": 0, "keepdims": False}),
    "var": (("a", "axis", "dtype", "out", "ddof", "keepdims"), 1, {"axis": None, "dtype": None, "out": None, "ddof": 0, "keepdims": False}),
    "argmax": (("a", "axis", "out"), 1, {"axis": None, "out": None}),
    "argmin": (("a", "axis", "out"), 1, {"axis": None, "out": None}),
    "cumsum": (("a", "axis", "dtype", "out"), 1, {"axis": None, "dtype": None, "out": None}),
    "clip": (("a", "a_min", "a_max", "out"), 3, {"out": None}),
    "tile": (("A", "reps"), 2, {}),
    "kron": (("a", "b"), 2, {}),
    "zeros": (("shape", "dtype", "order"), 1, {"order": "C"}),
    "ones": (("shape", "dtype", "order"), 1, {"order": "C"}),
    "empty": (("shape", "dtype", "order"), 1, {"order": "C"}),
    "zeros_like": (("a", "dtype"), 1, {"dtype": None}),
    "ones_like": (("a", "dtype"), 1, {"dtype": None}),
    "normal": (("loc", "scale", "size"), 3, {}),
    "randint": (("low", "high", "size", "dtype"), 1, {"high": None, "size": None}),
    "concatenate": (("arrays", "axis", "out"), 1, {"axis": 0, "out": None}),
    "repeat": (("a", "repeats", "axis"), 2, {"axis": None}),
    "roll": (("a", "shift", "axis"), 2, {"axis": None}),
    "round": (("a", "decimals"), 1, {"decimals": 0}),
    "diff": (("a", "n", "axis"), 1, {"n": 1, "axis": -1}),
    "fftconvolve": (("in1", "in2", "mode", "axes"), 2, {"axes": None}),
    "sosfiltfilt": (("sos", "x", "axis", "padtype", "padlen"), 2, {"padtype": "odd", "padlen": None}),
    "bessel": (("N", "Wn", "btype", "analog", "output", "norm", "fs"), 0, {"analog": False}),
    "sosfreqz": (("sos", "worN", "whole", "fs"), 1, {}),
    "resample": (("x", "num", "t", "axis", "window", "domain"), 2, {"t": None, "axis": 0, "window": None, "domain": "time"}),
    "medfilt": (("volume", "kernel_size"), 2, {}),
    "solve_ivp": (("fun", "t_span", "y0", "method", "t_eval", "dense_output", "events", "vectorized", "args"), 1,
                  {"t_eval": None, "dense_output": False, "events": None}),
    "array": (("object", "dtype"), 1, {"dtype": None}),
    "split": (("ary", "indices_or_sections", "axis"), 2, {"axis": 0}),
}
_SIG_ALIASES = {"clip": {"min": "a_min", "max": "a_max"}, "reshape": {"shape": "newshape"}}
_FILL = {"normal": {"loc": 0, "scale": 1}, "clip": {"a_min": None, "a_max": None}}


def _is_default(v, d):
    if d is None or isinstance(d, (bool, str)):
        return isinstance(v, Const) and type(v.v) is type(d) and v.v == d
    if isinstance(v, Form):
        q = v.rational()
        return q is not None and q == d
    return False


def _lit(d):
    if d is None or isinstance(d, (bool, str)):
        return Const(d)
    return Form.num(d)


def canon_call(short, args, kwargs):
    """canonical (args, kwargs) of a library call: same call however its parameters are spelt"""
    args = list(args)
    kw = dict(kwargs)
    if short == "standard_normal" and len(args) + len(kw) == 1:
        size = args[0] if args else kw.get("size")
        if isinstance(size, TupleV):
            return "randn", list(size.items), {}
        if size is not None:
            return "randn", [size], {}
    if short == "nonzero" and len(args) == 1 and not kw:
        return "where", args, kw          # np.where(cond) with one argument is np.nonzero(cond)
    if short == "reshape" and len(args) == 2 and isinstance(args[1], TupleV) and not kw:
        return short, [args[0]] + list(args[1].items), kw   # reshape(a, (m, n)) == a.reshape(m, n)
    sig = _SIGS.get(short)
    if sig is None:
        return short, args, kw
    params, npos, defaults = sig
    for a, b in _SIG_ALIASES.get(short, {}).items():
        if a in kw and b not in kw:
            kw[b] = kw.pop(a)
    if len(args) > len(params) or any(k not in params for k in kw):
        return short, args, kw
    bound = dict(zip(params, args))
    if any(k in bound for k in kw):
        return short, args, kw
    bound.update(kw)
    for k, d in defaults.items():
        if k in bound and _is_default(bound[k], d):
            del bound[k]
    # leading parameters positional as long as they are contiguous (missing ones filled from known defaults)
    out_args = []
    fill = _FILL.get(short, {})
    i = 0
    while i < npos:
        p = params[i]
        if p in bound:
            out_args.append(bound.pop(p))
        elif p in fill and any(q in bound for q in params[i + 1:npos]):
            out_args.append(_lit(fill[p]))
        else:
            break
        i += 1
    if short in ("concatenate", "vstack", "hstack") and out_args and isinstance(out_args[0], TupleV):
        out_args[0] = TupleV(out_args[0].items, "tuple")
    return short, out_args, bound


_INT_FOLD = {"floordiv": lambda a, b: a // b if b else None, "mod": lambda a, b: a % b if b else None,
             "lshift": lambda a, b: a << b if 0 <= b < 4096 else None, "rshift": lambda a, b: a >> b if b >= 0 else None,
             "band": lambda a, b: a & b, "bor": lambda a, b: a | b, "bxor": lambda a, b: a ^ b}


_BOOLEAN_FNS = {"eq", "ne", "gt", "ge", "lt", "le", "not", "band", "bor", "bxor", "invert", "isnan", "isfinite", "isinf", "logical_and", "logical_or", "logical_not",
                "logical_xor", "isclose", "isin"}


def is_boolean_form(v):
    """the value is an array (or scalar) of truth values by construction: a comparison or a logical combination of them"""
    if not isinstance(v, Form):
        return False
    a = v.single_atom()
    if a is None or a[0] != "fn" or a[1] not in _BOOLEAN_FNS:
        return False
    if a[1] in ("band", "bor", "bxor", "invert", "not"):
        return all(is_boolean_form(x) for x in a[2])
    return True


_INTEGER_SYMS = {"gv.sps", "gv.N"}        # the library's integer globals: samples per slot, number of slots


def is_integer_form(v, depth=0):
    """the value is a whole number by construction: integer-coefficient polynomial in counts, indices, the integer globals and
    integer quotients / remainders of such"""
    if not isinstance(v, Form) or depth > 6:
        return False
    for m, c in v.terms.items():
        if c[1] != 0 or c[0].denominator != 1:
            return False
        for a, e in m:
            if not (isinstance(e, int) or getattr(e, "denominator", 0) == 1) or e < 0:
                return False
            if a[0] == "sym" and a[1] in _INTEGER_SYMS:
                continue
            if a[0] == "fn" and a[1] in ("len", "size", "siglen", "argmin", "argmax", "count_nonzero") and not (a[1] in ("argmin", "argmax") and a[3]):
                continue
            if a[0] == "fn" and a[1] == "sum" and len(a[2]) == 1 and not a[3] and is_boolean_form(a[2][0]):
                continue
            if a[0] == "fn" and a[1] in ("floordiv", "mod", "min", "max") and not a[3] and all(is_integer_form(x, depth + 1) for x in a[2]):
                continue
            if a[0] == "fn" and a[1] == "int" and len(a[2]) == 1:
                continue
            return False
    return True


_NP_COMPARE = {"equal": "eq", "not_equal": "ne", "greater": "gt", "greater_equal": "ge", "less": "lt", "less_equal": "le"}


def mk_fn(name, args, kwargs=()):
    args = list(args)
    kwargs = sorted(kwargs, key=lambda kv: kv[0])
    if name == "arange" and len(args) == 3 and not kwargs and all(isinstance(a_, Form) for a_ in args) and args[1] == Form.num(-1) and args[2] == Form.num(-1):
        # arange(k-1, -1, -1) counts k-1 ... 0: arange(k) read backwards
        return mk_idx(mk_fn("arange", [args[0] + 1]), SliceV(Const(None), Const(None), Form.num(-1)))
    if name == "lshift" and len(args) == 2 and not kwargs and isinstance(args[0], Form) and args[0] == Form.num(1) and isinstance(args[1], Form):
        return fpow(Form.num(2), args[1])          # 1 << k is 2**k
    if name in ("len", "size") and len(args) == 1 and not kwargs and isinstance(args[0], Form):
        a = args[0].single_atom()
        if a is not None and a[0] == "fn" and a[1] in ("sort", "flip", "roll", "abs", "real", "imag", "conj", "cumsum", "fftshift", "ifftshift") and a[2] and isinstance(a[2][0], Form) \
                and not [k for k, _v in a[3] if k == "axis"]:
            return mk_fn(name, [a[2][0]])          # a reordering / element-wise image has as many elements
    if name == "count_nonzero" and len(args) == 1 and not kwargs and is_boolean_form(args[0]):
        name = "sum"               # the number of True entries of a boolean array
    if name == "int" and len(args) == 1 and not kwargs and isinstance(args[0], Form):
        a = args[0].single_atom()
        if is_integer_form(args[0]):
            return args[0]         # already a whole number: a count, an index, an integer quotient of whole numbers
    if name == "full" and len(args) == 2 and isinstance(args[1], Form) and isinstance(args[0], Form) and not [k for k, _v in kwargs if k != "dtype"]:
        return args[1] * mk_fn("ones", [args[0]])          # an array filled with one value
    if name in ("fft", "ifft") and kwargs:
        # the transform acts on the last axis unless told otherwise: an explicit axis=-1 says nothing new
        kwargs = [(k, v) for k, v in kwargs if not (k == "axis" and isinstance(v, Form) and v.rational() == -1)]
    if name in _NP_COMPARE and len(args) == 2 and not kwargs:
        name = _NP_COMPARE[name]                      # np.equal(a, b) is a == b, np.less(a, b) is a < b, ...
    if name in ("lt", "le") and len(args) == 2 and not kwargs:
        name, args = ("gt" if name == "lt" else "ge"), [args[1], args[0]]
    elif name in ("eq", "ne") and len(args) == 2 and not kwargs:
        args = sorted(args, key=lambda v: repr(vkey(v)))
    elif name == "not" and len(args) == 1 and isinstance(args[0], Form):
        a = args[0].single_atom()
        if a is not None and a[0] == "fn" and a[1] in ("eq", "ne") and not a[3] and args[0] == Form.atom(a):
            return Form.atom(("fn", "ne" if a[1] == "eq" else "eq", a[2], ()))
    if name in ("or", "and") and not kwargs and len(args) >= 2:
        # x or True = True, x and False = False (value semantics of a decided operand; the other operands have no side effects here);
        # a decided neutral operand (False in `or`, True in `and`) is dropped
        absorb, neutral = (True, False) if name == "or" else (False, True)
        if any(isinstance(a, Const) and a.v is absorb for a in args):
            return Const(absorb)
        kept = [a for a in args if not (isinstance(a, Const) and a.v is neutral)]
        if len(kept) == 1:
            return kept[0]
        if not kept:
            return Const(neutral)
        args = kept
    if name == "ifexp" and len(args) == 3 and not kwargs and isinstance(args[0], Const) and isinstance(args[0].v, bool):
        return args[1] if args[0].v else args[2]
    if name in ("min", "max") and not kwargs and len(args) == 2 and vkey(args[0]) == vkey(args[1]):
        return args[0]
    if name == "abs" and len(args) == 1 and not kwargs and isinstance(args[0], Form) and args[0].rational() is not None:
        return Form.num(abs(args[0].rational()))
    if name in _INT_FOLD and len(args) == 2 and not kwargs and all(isinstance(a, Form) for a in args):
        a, b = args[0].rational(), args[1].rational()
        if a is not None and b is not None and a.denominator == 1 and b.denominator == 1:
            try:
                r = _INT_FOLD[name](int(a), int(b))
                if r is not None:
                    return Form.num(r)
            except Exception:
                pass
    if name == "sqrt" and len(args) == 1 and isinstance(args[0], Form):
        return fpow(args[0], Fraction(1, 2))
    if name == "square" and len(args) == 1 and isinstance(args[0], Form):
        return fpow(args[0], Fraction(2))
    if name == "erfc" and len(args) == 1 and not kwargs and isinstance(args[0], Form) and args[0].terms:
        # erfc(-u) = 2 - erfc(u): one representative per pair of opposite arguments (sign of the coefficient of the first monomial
        # in key order), so that the upper tail of one level and the lower tail of the same level are recognised as complements
        lead = min(args[0].key()[1])
        c = lead[1]
        if (c[0] < 0) or (c[0] == 0 and c[1] < 0):
            return Form.num(2) - Form.atom(("fn", "erfc", (-args[0],), ()))
    if name == "expm1" and len(args) == 1 and not kwargs and isinstance(args[0], Form):
        return mk_fn("exp", [args[0]]) - 1           # exp(u) - 1 (the accurate spelling of the same value)
    if name == "log1p" and len(args) == 1 and not kwargs and isinstance(args[0], Form):
        return mk_fn("log", [1 + args[0]])           # log(1 + v)
    if name in ("exp", "exp10") and len(args) == 1 and isinstance(args[0], Form):
        a = args[0]
        if a.is_zero():
            return Form.num(1)
        if name == "exp" and a.terms:
            # exp(k * log(w)) is w**k: every term of the exponent carries the same log atom to the first power
            logs = {at for m in a.terms for at, e in m if at[0] == "fn" and at[1] == "log" and e == 1 and len(at[2]) == 1 and not at[3]}
            if len(logs) == 1:
                la = next(iter(logs))
                if all(sum(1 for at, e in m if at == la) == 1 for m in a.terms):
                    k = Form({tuple((at, e) for at, e in m if at != la): c for m, c in a.terms.items()})
                    if isinstance(la[2][0], Form) and not any(at == la for at in k.atoms()):
                        return fpow(la[2][0], k)
        if name == "exp10":
            k = a.terms.get(())
            if k is not None and k[1] == 0 and len(a.terms) > 1:
                rest = Form({m: c for m, c in a.terms.items() if m != ()})
                return num_pow(Fraction(10), k[0]) * Form.atom(("fn", "exp10", (rest,), ()))
            if a.is_const() and k is not None and k[1] == 0:
                return num_pow(Fraction(10), k[0])
        return Form.atom(("fn", name, (a,), ()))
    if name == "conj" and len(args) == 1 and isinstance(args[0], Form):
        a = args[0].single_atom()
        if a is not None and a[0] == "fn" and a[1] == "conj":
            return a[2][0]
    if name == "neg" and len(args) == 1 and isinstance(args[0], Form):
        return -args[0]
    return Form.atom(("fn", name, tuple(args), tuple(kwargs)))


# ----------------------------------------------------------------------------- printing
def _coef_str(c):
    re, im = c
    def fr(x):
        if x.denominator == 1:
            return str(x.numerator)
        # short decimal when exact
        d = x.denominator
        while d % 2 == 0:
            d //= 2
        while d % 5 == 0:
            d //= 5
        if d == 1 and abs(x) < 10**6 and abs(x) > Fraction(1, 10**6):
            return repr(float(x))
        return f"{x.numerator}/{x.denominator}"
    if im == 0:
        return fr(re)
    if re == 0:
        return f"{fr(im)}j" if im != 1 else "1j"
    return f"({fr(re)}{'+' if im > 0 else '-'}{fr(abs(im))}j)"


def form_str(f: Form) -> str:
    if not f.terms:
        return "0"
    parts = []
    for m, c in sorted(f.terms.items(), key=lambda mc: (len(mc[0]), [atom_str(a) for a, _ in mc[0]])):
        fs = []
        for a, e in m:
            s = atom_str(a)
            if e != 1:
                es = str(e.numerator) if e.denominator == 1 else f"({e.numerator}/{e.denominator})"
                s = f"{s}**{es}"
            fs.append(s)
        cs = _coef_str(c)
        if not fs:
            parts.append(cs)
        elif cs == "1":
            parts.append("*".join(fs))
        elif cs == "-1":
            parts.append("-" + "*".join(fs))
        else:
            parts.append(cs + "*" + "*".join(fs))
    s = " + ".join(parts)
    return s.replace("+ -", "- ")


# ----------------------------------------------------------------------------- queries
def const_float(f):
    """numeric value of a constant form: rational coefficients times powers of log(c) / sqrt-like number atoms; None otherwise"""
    import math
    if not isinstance(f, Form):
        return None
    tot = 0.0
    for m, c in f.terms.items():
        if c[1] != 0:
            return None
        v = float(c[0])
        for a, e in m:
            if a[0] == "num":
                v *= float(a[1]) ** float(e)
            elif a[0] == "fn" and a[1] in ("log", "log10", "exp") and len(a[2]) == 1 and isinstance(a[2][0], Form) and a[2][0].rational() is not None:
                x = float(a[2][0].rational())
                v *= {"log": math.log, "log10": math.log10, "exp": math.exp}[a[1]](x) ** float(e)
            elif a[0] == "c" and a[1] in ("math.e", "numpy.e"):
                v *= math.e ** float(e)
            else:
                return None
        tot += v
    return tot


def linear_in(form: Form, atoms: list):
    """decompose form = sum_i coef_i * atom_i + rest, where coef_i and rest do not contain any
    of `atoms` (at top level of each monomial).  Returns (coefs: list[Form], rest: Form) or None
    if some monomial has degree != 1 in the atoms jointly."""
    coefs = [Form() for _ in atoms]
    rest = Form()
    idx = {a: i for i, a in enumerate(atoms)}
    for m, c in form.terms.items():
        hits = [(a, e) for a, e in m if a in idx]
        if not hits:
            rest = rest + Form({m: c})
            continue
        if len(hits) != 1 or hits[0][1] != 1:
            return None
        mm = tuple((a, e) for a, e in m if a not in idx)
        coefs[idx[hits[0][0]]] = coefs[idx[hits[0][0]]] + Form({mm: c})
    return coefs, rest


def contains_atom(v, pred) -> bool:
    if isinstance(v, Form):
        return any(pred(a) for a in v.atoms())
    if isinstance(v, TupleV):
        return any(contains_atom(i, pred) for i in v.items)
    return False


def is_real_form(f: Form, real_atom) -> bool:
    """every coefficient real and every atom accepted by real_atom(atom) (which may recurse)."""
    for m, c in f.terms.items():
        if c[1] != 0:
            return False
        for a, e in m:
            if not real_atom(a):
                return False
    return True
