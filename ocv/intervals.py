"""Element-wise interval analysis with guard refinement for the instrument driver (lab.py).

Abstract value: AV(lo, hi, kind, member) - every element of the (scalar or array) value lies in [lo, hi];
kind in {'scalar', 'array', 'str', 'list', 'unknown'}; member = frozenset of allowed values when known.
A guard the refinement does not understand refines nothing (the interval stays wide: sound).
"""
from __future__ import annotations

import ast
import math

INF = math.inf


class AV:
    __slots__ = ("lo", "hi", "kind", "member", "size", "note", "esize", "opaque", "items", "text", "parts", "fn", "flag")

    def __init__(self, lo=-INF, hi=INF, kind="unknown", member=None, size=None, note="", esize=None, opaque=False, items=None, text=None, parts=None):
        self.lo, self.hi, self.kind, self.member, self.size, self.note, self.esize = lo, hi, kind, member, size, note, esize
        self.opaque = opaque     # produced by a construct the analysis does not model (as opposed to an unclamped request)
        self.items = items       # element values of a tuple/list display (for unpacking and *args)
        self.text = text         # a string literal (a command template passed to a helper)
        self.parts = parts       # a command string built from literal text and interpolated values
        self.fn = None           # a callable value (lambda / nested def handed to a helper): (node, defining environment, its closures)
        self.flag = None         # a boolean that is True exactly when the guarded clamp of this `if` node was taken

    def copy(self, **kw):
        a = AV(self.lo, self.hi, self.kind, self.member, self.size, self.note, self.esize, self.opaque, self.items, self.text, self.parts)
        a.fn, a.flag = self.fn, self.flag
        for k, v in kw.items():
            setattr(a, k, v)
        return a

    def within(self, lo, hi):
        return self.lo >= lo and self.hi <= hi

    def __repr__(self):
        m = f" in {sorted(self.member)}" if self.member else ""
        return f"[{fmt(self.lo)}, {fmt(self.hi)}]{m} ({self.kind})"


def fmt(x):
    if x in (INF, -INF):
        return "-inf" if x < 0 else "inf"
    if float(x).is_integer() and abs(x) < 1e15:
        return str(int(x))
    return f"{x:g}"


def hull(a: AV, b: AV):
    kind = a.kind if a.kind == b.kind else ("array" if "array" in (a.kind, b.kind) else "unknown")
    member = (a.member | b.member) if (a.member is not None and b.member is not None) else None
    size = hull(a.size, b.size) if (a.size is not None and b.size is not None) else None
    esize = hull(a.esize, b.esize) if (a.esize is not None and b.esize is not None) else None
    items = [hull(x, y) for x, y in zip(a.items, b.items)] if (a.items is not None and b.items is not None and len(a.items) == len(b.items)) else None
    text = a.text if (a.text is not None and a.text == b.text) else None
    out = AV(min(a.lo, b.lo), max(a.hi, b.hi), kind, member, size, "", esize, a.opaque or b.opaque, items, text)
    out.fn = a.fn if a.fn is b.fn else None
    # True-in-the-clamp-branch joined with the constant False of the other return: still "True exactly when clamped"
    if a.flag is not None and (b.flag is a.flag or (b.lo == b.hi == 0)):
        out.flag = a.flag
    elif b.flag is not None and a.lo == a.hi == 0:
        out.flag = b.flag
    return out


TOP = AV()


class Site:
    def __init__(self, node, fi_name, parts, env_note):
        self.node, self.fi_name, self.parts = node, fi_name, parts  # parts: list of ('text', str) | ('slot', src, AV, spec)


class IntervalInterp:
    def __init__(self, consts: dict, callee_summaries=None, query_names=("_query",), functions=None, depth=0):
        self.functions = functions or {}   # name -> FunctionDef of helpers (methods of the class / module-level functions): inlined
        self.depth = depth
        self.consts = consts            # name -> number / list
        self.sites: list[Site] = []
        self.fmt_issues = []            # (node, name, spec): float format spec applied to an array
        self.summaries = callee_summaries or {}
        self.query_names = query_names
        self.branch_info = []           # (if node, has_clip, has_warn, has_raise)
        self.returns = []               # AV of every returned value
        self.local_funcs = {}           # nested defs of the function under analysis (closures): name -> FunctionDef
        self.flag_warned = set()        # `if` nodes of clamps whose "was clamped" flag is tested by a caller that warns

    # ------------------------------------------------------------------ entry
    def run(self, fnode: ast.FunctionDef):
        self.fname = fnode.name
        env = {}
        for a in fnode.args.args + fnode.args.kwonlyargs:
            env[a.arg] = AV()
        for a, d in zip(fnode.args.kwonlyargs, fnode.args.kw_defaults):
            # keyword-only options keep their default (the documented calls do not pass them)
            if isinstance(d, ast.Constant):
                env[a.arg] = AV(kind="none") if d.value is None else self.ev(d, env)
        self.block(fnode.body, env)
        return env

    def block(self, stmts, env):
        for s in stmts:
            if env.get("__dead__"):
                break
            self.stmt(s, env)

    def stmt(self, s, env):
        if isinstance(s, ast.Assign):
            if len(s.targets) == 1 and isinstance(s.targets[0], ast.Tuple) and len(s.targets[0].elts) == 2 and isinstance(s.value, ast.Call) \
                    and _callname(s.value) == "divmod" and len(s.value.args) == 2:
                # q, r = divmod(a, b)
                a, b = (self.ev(x, env) for x in s.value.args)
                self.bind(s.targets[0].elts[0], self.arith(ast.FloorDiv(), a, b), env)
                self.bind(s.targets[0].elts[1], self.arith(ast.Mod(), a, b), env)
                return
            v = self.ev(s.value, env)
            for t in s.targets:
                self.bind(t, v, env)
                if isinstance(t, ast.Name):
                    # `x = y`: x holds what y holds until either is bound again
                    for k_ in [k_ for k_, src_ in env.items() if isinstance(k_, str) and k_.startswith("$copy:") and (k_ == "$copy:" + t.id or src_ == t.id)]:
                        del env[k_]
                    if isinstance(s.value, ast.Name) and s.value.id != t.id:
                        env["$copy:" + t.id] = s.value.id
            if len(s.targets) == 1 and isinstance(s.targets[0], ast.Name) and _is_mask_expr(s.value):
                env["$mask:" + s.targets[0].id] = s.value          # m = (x < a) | (x > b): read again where m.any() is tested
            if isinstance(s.value, ast.JoinedStr) and len(s.targets) == 1 and isinstance(s.targets[0], ast.Name):
                env["$str:" + s.targets[0].id] = self._fstring(s.value, env, None)   # a command built first and sent later
        elif isinstance(s, ast.AugAssign):
            cur = self.ev(_load(s.target), env)
            r = self.ev(s.value, env)
            v = self.arith(s.op, cur, r)
            self.bind(s.target, v, env)
        elif isinstance(s, ast.Expr):
            self.ev(s.value, env)
        elif isinstance(s, ast.If) and self._none_test(s.test, env) is not None:
            self.block(s.body if self._none_test(s.test, env) else s.orelse, env)
        elif isinstance(s, ast.If):
            e1, e2 = dict(env), dict(env)
            u1 = self.refine(s.test, e1, True)
            u2 = self.refine(s.test, e2, False)
            if not (u1 and u2):
                # a guard on values that this analysis cannot read: what it protects is not decidable here (neither "clamped" nor
                # "unclamped" may be claimed), so the quantities it mentions are marked as such in both branches
                for e_ in (e1, e2):
                    self._mark_unread(s.test, e_)
            self.ev(s.test, env)
            tv = env.get(s.test.id) if isinstance(s.test, ast.Name) else None
            if isinstance(tv, AV) and tv.flag is not None and any(isinstance(n, ast.Call) and _callname(n).endswith("warn") for b in s.body for n in ast.walk(b)) \
                    and not any(isinstance(n, ast.Raise) for b in s.body for n in ast.walk(b)):
                self.flag_warned.add(tv.flag)       # `values, clipped = self._clip(...)` ... `if clipped: warn`: the warning of that clamp
            n_ret = len(self.returns)
            self.block(s.body, e1)
            if any(isinstance(n, ast.Call) and _callname(n).endswith("clip") for b in s.body for n in ast.walk(b)):
                # `return clamped, True` inside the clamp branch: the second element tells the caller that the clamp was taken
                for st_, r_ in zip([x for x in s.body if isinstance(x, ast.Return)], self.returns[n_ret:]):
                    if isinstance(st_.value, ast.Tuple) and r_.items is not None and len(r_.items) == len(st_.value.elts):
                        for k_, e_ in enumerate(st_.value.elts):
                            if isinstance(e_, ast.Constant) and e_.value is True:
                                r_.items[k_] = r_.items[k_].copy(flag=s)
            self.block(s.orelse, e2)
            has_clip = any(isinstance(n, ast.Call) and _callname(n).endswith("clip") for b in s.body for n in ast.walk(b))
            has_warn = any(isinstance(n, ast.Call) and _callname(n).endswith("warn") for b in s.body for n in ast.walk(b))
            has_raise = any(isinstance(n, ast.Raise) for b in s.body for n in ast.walk(b))
            self.branch_info.append((s, has_clip, has_warn, has_raise))
            self.merge(env, e1, e2)
        elif isinstance(s, ast.For):
            it = self.ev(s.iter, env)
            body = dict(env)
            self.bind_iter(s.target, s.iter, it, body)
            # widen anything assigned in the loop that depends on itself (addr += n)
            for n in ast.walk(ast.Module(body=s.body, type_ignores=[])):
                if isinstance(n, ast.AugAssign) and isinstance(n.target, ast.Name) and n.target.id in body:
                    cur = body[n.target.id]
                    if isinstance(n.op, ast.Add):
                        body[n.target.id] = cur.copy(hi=INF)
                    else:
                        body[n.target.id] = AV(kind=cur.kind)
            self.block(s.body, body)
            body.pop("__dead__", None)
            self.merge(env, env, body)
        elif isinstance(s, ast.While):
            body = dict(env)
            for n in ast.walk(ast.Module(body=s.body, type_ignores=[])):
                if isinstance(n, (ast.Assign, ast.AugAssign)):
                    for t in (n.targets if isinstance(n, ast.Assign) else [n.target]):
                        if isinstance(t, ast.Name):
                            body[t.id] = AV()
            self.block(s.body, body)
            body.pop("__dead__", None)
            self.merge(env, env, body)
        elif isinstance(s, (ast.Return, ast.Raise)):
            if isinstance(s, ast.Return) and s.value is not None:
                self.returns.append(self.ev(s.value, env))
            env["__dead__"] = True
        elif isinstance(s, ast.Try):
            e1 = dict(env)
            self.block(s.body, e1)
            outs = [e1]
            for h in s.handlers:
                eh = dict(env)
                self.block(h.body, eh)
                outs.append(eh)
            live = [o for o in outs if not o.get("__dead__")] or outs
            base = live[0]
            for o in live[1:]:
                self.merge(base, base, o)
            env.clear()
            env.update(base)
        elif isinstance(s, ast.With):
            self.block(s.body, env)
        elif isinstance(s, ast.FunctionDef):
            self.local_funcs[s.name] = s      # a closure: interpreted where it is called, reading the enclosing values
        elif not isinstance(s, (ast.Pass, ast.Import, ast.ImportFrom, ast.Global, ast.Nonlocal, ast.Assert, ast.Delete, ast.Break, ast.Continue, ast.ClassDef, ast.AnnAssign)):
            # a statement form this analysis does not model: whatever it may assign is unknown from here on
            for sub in ast.walk(s):
                if isinstance(sub, ast.Name) and isinstance(sub.ctx, ast.Store):
                    env[sub.id] = AV(opaque=True)
        elif isinstance(s, ast.AnnAssign) and s.value is not None:
            self.bind(s.target, self.ev(s.value, env), env)

    def _none_test(self, test, env):
        """`x is None` / `x is not None` for a local known to hold None (an option left at its None default)"""
        if isinstance(test, ast.Compare) and len(test.ops) == 1 and isinstance(test.ops[0], (ast.Is, ast.IsNot)) and isinstance(test.left, ast.Name) \
                and isinstance(test.comparators[0], ast.Constant) and test.comparators[0].value is None:
            v = env.get(test.left.id)
            if isinstance(v, AV) and v.kind == "none":
                return isinstance(test.ops[0], ast.Is)
        return None

    def merge(self, env, e1, e2):
        d1, d2 = e1.get("__dead__"), e2.get("__dead__")
        if d1 and d2:
            env["__dead__"] = True
            return
        if d1:
            src = dict(e2)
        elif d2:
            src = dict(e1)
        else:
            src = {}
            for k in set(e1) | set(e2):
                if k in e1 and k in e2:
                    src[k] = hull(e1[k], e2[k]) if isinstance(e1[k], AV) and isinstance(e2[k], AV) else e1[k]
                else:
                    src[k] = AV()
        src.pop("__dead__", None)
        env.clear()
        env.update(src)

    def bind(self, t, v, env):
        if isinstance(t, ast.Subscript) and isinstance(t.value, ast.Name) and isinstance(env.get(t.value.id), AV):
            cur = env[t.value.id]
            env[t.value.id] = hull(cur, AV(v.lo, v.hi, cur.kind, v.member, None, "", None, v.opaque)).copy(kind=cur.kind, size=cur.size)
            return
        if isinstance(t, ast.Name):
            for k in [k for k in env if k.startswith("$expr:") and t.id in k]:
                del env[k]
            env[t.id] = v
        elif isinstance(t, (ast.Tuple, ast.List)):
            if v.items is not None and len(v.items) == len(t.elts) and not any(isinstance(e, ast.Starred) for e in t.elts):
                for e, x in zip(t.elts, v.items):
                    self.bind(e, x, env)
                return
            for e in t.elts:
                self.bind(e.value if isinstance(e, ast.Starred) else e, AV(), env)

    def bind_iter(self, target, iter_node, it, env):
        # for a, b in zip(X, Y): element-wise
        if isinstance(iter_node, ast.Call) and _callname(iter_node) == "zip" and isinstance(target, (ast.Tuple, ast.List)) and len(target.elts) == len(iter_node.args):
            for t, a in zip(target.elts, iter_node.args):
                v = self.ev(a, env)
                self.bind(t, self.element(v), env)
            return
        if isinstance(iter_node, ast.Call) and _callname(iter_node) == "range" and isinstance(target, ast.Name) and 1 <= len(iter_node.args) <= 3 and not iter_node.keywords:
            # for d in range(a, N, step): a <= d < N  (positive step); the fact  N - d >= 1  is kept for the expression `N - d`
            ra = [self.ev(a, env) for a in iter_node.args]
            lo = ra[0].lo if len(ra) >= 2 else 0
            stop = ra[1] if len(ra) >= 2 else ra[0]
            stop_node = iter_node.args[1] if len(ra) >= 2 else iter_node.args[0]
            step_ok = len(ra) < 3 or ra[2].lo >= 1
            if step_ok:
                self.bind(target, AV(lo, stop.hi - 1, "scalar"), env)
                env["$expr:" + ast.unparse(ast.BinOp(left=_load(stop_node), op=ast.Sub(), right=ast.Name(id=target.id, ctx=ast.Load())))] = AV(1, INF if math.isinf(stop.hi) else stop.hi - lo, "scalar")
                return
        if it.items is not None and isinstance(target, (ast.Tuple, ast.List)) and it.items and all(x.items is not None and len(x.items) == len(target.elts) for x in it.items):
            # a literal list of tuples
            for k_, t in enumerate(target.elts):
                h = it.items[0].items[k_]
                for x in it.items[1:]:
                    h = hull(h, x.items[k_])
                self.bind(t, h, env)
            return
        el = self.element(it)
        if it.note == "rows" and it.items is not None and isinstance(target, (ast.Tuple, ast.List)) and len(it.items) == len(target.elts):
            for t, x in zip(target.elts, it.items):         # a comprehension whose element is a tuple: every row has this layout
                self.bind(t, x, env)
            return
        self.bind(target, el, env)

    def element(self, v: AV):
        if v.kind in ("array", "list"):
            return AV(v.lo, v.hi, "scalar" if v.esize is None else "array", v.member, v.esize)
        return AV(v.lo, v.hi, "scalar" if v.kind == "scalar" else "unknown", v.member)

    # ------------------------------------------------------------------ refinement
    def refine(self, test, env, pol):
        """narrow `env` under the assumption that `test` is `pol`; returns False when the test compares VALUES in a way this
        analysis does not read (the caller then marks the values involved as not decidable instead of leaving them wide)"""
        test = self._desugar_test(test)
        if isinstance(test, ast.UnaryOp) and isinstance(test.op, ast.Not):
            return self.refine(test.operand, env, not pol)
        if isinstance(test, ast.BoolOp):
            oks = []
            if (isinstance(test.op, ast.Or) and not pol) or (isinstance(test.op, ast.And) and pol):
                for v in test.values:
                    oks.append(self.refine(v, env, pol))
                return all(oks)
            # a disjunction that holds / a conjunction that fails says nothing element-wise: understood iff every part is readable
            return all(self.refine(v, dict(env), pol) for v in test.values)
        # (x < a).any() being False => all x >= a ;  mask.any() / mask.all() with a mask built earlier (m = (x < a) | (x > b))
        if isinstance(test, ast.Call) and isinstance(test.func, ast.Attribute) and test.func.attr in ("any", "all") and not test.args:
            inner = test.func.value
            if test.func.attr == "any":
                return self._refine_mask(inner, env, False) if not pol else self._mask_readable(inner, env)
            return self._refine_mask(inner, env, True) if pol else self._mask_readable(inner, env)
        if isinstance(test, ast.Call) and _callname(test).split(".")[-1] in ("any", "all") and len(test.args) == 1 and not test.keywords \
                and not isinstance(test.args[0], (ast.GeneratorExp, ast.ListComp)):
            inner = test.args[0]                       # np.any(mask) / np.all(mask)
            if _callname(test).split(".")[-1] == "any":
                return self._refine_mask(inner, env, False) if not pol else self._mask_readable(inner, env)
            return self._refine_mask(inner, env, True) if pol else self._mask_readable(inner, env)
        if isinstance(test, ast.Name) and isinstance(env.get(test.id), AV) and env[test.id].note == "int-remainder" and env[test.id].lo >= 0:
            # `r = a % k` (or divmod) ... `if r:` - same as testing the remainder expression directly
            cur = env[test.id]
            env[test.id] = cur.copy(lo=max(cur.lo, 1)) if pol else cur.copy(lo=0, hi=0)
            return True
        if isinstance(test, ast.BinOp) and isinstance(test.op, ast.Mod):
            # `if a % k:` - a non-negative integer remainder that is truthy is >= 1, falsy is 0
            cur = self.ev(test, env)
            if cur.lo >= 0:
                env["$expr:" + ast.unparse(test)] = cur.copy(lo=max(cur.lo, 1)) if pol else cur.copy(lo=0, hi=0)
            return True
        if isinstance(test, ast.Compare):
            if len(test.ops) == 1 and isinstance(test.ops[0], (ast.In, ast.NotIn)) and isinstance(test.left, ast.Name):
                isin = pol if isinstance(test.ops[0], ast.In) else not pol
                tbl = self.ev(test.comparators[0], env)
                if isin and tbl.member is not None and test.left.id in env:
                    env[test.left.id] = AV(min(tbl.member), max(tbl.member), env[test.left.id].kind, frozenset(tbl.member))
                    for k_, src_ in list(env.items()):
                        # `valid = requested` made before the test: the copy holds the same (now known) value
                        if isinstance(k_, str) and k_.startswith("$copy:") and src_ == test.left.id and k_[6:] in env and isinstance(env[k_[6:]], AV):
                            env[k_[6:]] = env[test.left.id]
                return True
            if len(test.ops) == 1 and isinstance(test.ops[0], (ast.Is, ast.IsNot)):
                return True
            if len(test.ops) == 2 and all(isinstance(o, (ast.Lt, ast.LtE)) for o in test.ops) and pol:
                # lo <= x <= hi (holding): both halves
                a = ast.Compare(left=test.left, ops=[test.ops[0]], comparators=[test.comparators[0]])
                b = ast.Compare(left=test.comparators[0], ops=[test.ops[1]], comparators=[test.comparators[1]])
                ra, rb = self._refine_cmp(a, env, True, scalar_only=True), self._refine_cmp(b, env, True, scalar_only=True)
                return ra and rb
            # scalar comparison: only meaningful for scalars (for arrays `if x < a` is an error / ambiguous)
            return self._refine_cmp(test, env, pol, scalar_only=True)
        # tests that do not compare values (type tests, flags, None tests, sizes): nothing to read, nothing missed
        return not _compares_values(test)

    def _mark_unread(self, test, env, depth=0):
        for n in ast.walk(test):
            if isinstance(n, ast.Name) and isinstance(n.ctx, ast.Load):
                if ("$mask:" + n.id) in env and depth < 3:
                    self._mark_unread(env["$mask:" + n.id], env, depth + 1)
                v = env.get(n.id)
                if isinstance(v, AV) and (math.isinf(v.lo) or math.isinf(v.hi)) and v.kind in ("scalar", "array", "unknown", "list"):
                    env[n.id] = v.copy(opaque=True)

    def _mask_ast(self, m, env):
        if isinstance(m, ast.Name) and ("$mask:" + m.id) in env:
            return env["$mask:" + m.id]
        return m

    def _mask_readable(self, m, env):
        m = self._desugar_test(self._mask_ast(m, env))
        if isinstance(m, ast.Call) and _callname(m).split(".")[-1] in ("isnan", "isinf", "isfinite", "isneginf", "isposinf", "iscomplex", "isreal"):
            return True        # a test for NaN / infinity: read, nothing to narrow (intervals speak about the finite values)
        if isinstance(m, ast.Compare):
            return self._refine_cmp(m, dict(env), True)
        if isinstance(m, ast.BinOp) and isinstance(m.op, (ast.BitOr, ast.BitAnd)):
            return self._mask_readable(m.left, env) and self._mask_readable(m.right, env)
        if isinstance(m, ast.UnaryOp) and isinstance(m.op, ast.Invert):
            return self._mask_readable(m.operand, env)
        return False

    def _refine_mask(self, m, env, pol):
        """pol True: every element satisfies the mask; pol False: no element does"""
        m = self._desugar_test(self._mask_ast(m, env))
        if isinstance(m, ast.Call) and _callname(m).split(".")[-1] in ("isnan", "isinf", "isfinite", "isneginf", "isposinf", "iscomplex", "isreal"):
            return True
        if isinstance(m, ast.Compare):
            return self._refine_cmp(m, env, pol)
        if isinstance(m, ast.UnaryOp) and isinstance(m.op, ast.Invert):
            return self._refine_mask(m.operand, env, not pol)
        if isinstance(m, ast.BinOp) and isinstance(m.op, ast.BitOr):
            if not pol:
                ra, rb = self._refine_mask(m.left, env, False), self._refine_mask(m.right, env, False)
                return ra and rb
            return self._mask_readable(m, env)
        if isinstance(m, ast.BinOp) and isinstance(m.op, ast.BitAnd):
            if pol:
                ra, rb = self._refine_mask(m.left, env, True), self._refine_mask(m.right, env, True)
                return ra and rb
            return self._mask_readable(m, env)
        return False

    def _refine_cmp(self, cmp, env, pol, scalar_only=False):
        """-> True when the comparison was read (a name or its size against a constant bound, |x| against a bound)"""
        if len(cmp.ops) != 1:
            return False
        op = cmp.ops[0]
        l, r = cmp.left, cmp.comparators[0]
        name, bound, flipped = None, None, False
        # |x| <= K  (also spelt  not |x| > K):  x in [-K, K]
        for side, other, flip in ((l, r, False), (r, l, True)):
            if isinstance(side, ast.Call) and len(side.args) == 1 and not side.keywords and isinstance(side.args[0], ast.Name) \
                    and ((isinstance(side.func, ast.Name) and side.func.id == "abs") or (isinstance(side.func, ast.Attribute) and side.func.attr in ("abs", "absolute", "fabs"))):
                b = self.const(other, env)
                o = {ast.Lt: "<", ast.LtE: "<=", ast.Gt: ">", ast.GtE: ">="}.get(type(op))
                key = side.args[0].id
                if b is None or o is None or key not in env or not isinstance(env[key], AV):
                    return False
                if flip:
                    o = {"<": ">", "<=": ">=", ">": "<", ">=": "<="}[o]
                if not pol:
                    o = {"<": ">=", "<=": ">", ">": "<=", ">=": "<"}[o]
                cur = env[key]
                if o in ("<", "<=") and b >= 0 and not (scalar_only and cur.kind == "array"):
                    env[key] = cur.copy(lo=max(cur.lo, -b), hi=min(cur.hi, b))
                return True
        if isinstance(l, ast.Name) or (isinstance(l, ast.Attribute) and l.attr == "size" and isinstance(l.value, ast.Name)):
            b = self.const(r, env)
            if b is not None:
                name, bound = l, b
        if name is None and (isinstance(r, ast.Name) or (isinstance(r, ast.Attribute) and r.attr == "size" and isinstance(r.value, ast.Name))):
            b = self.const(l, env)
            if b is not None:
                name, bound, flipped = r, b, True
        if name is None:
            return not _compares_values(cmp)
        ops = {ast.Lt: "<", ast.LtE: "<=", ast.Gt: ">", ast.GtE: ">="}
        o = ops.get(type(op))
        if o is None:
            if isinstance(op, (ast.Eq, ast.NotEq)) and isinstance(name, ast.Name) and isinstance(env.get(name.id), AV) and env[name.id].note == "int-remainder":
                # a non-negative integer remainder compared with 0: `r != 0` holding (or `r == 0` failing) leaves r >= 1, the other way r = 0
                cur = env[name.id]
                nonzero = pol if isinstance(op, ast.NotEq) else not pol
                if bound == 0 and cur.lo >= 0:
                    env[name.id] = cur.copy(lo=max(cur.lo, 1)) if nonzero else cur.copy(lo=0, hi=0)
            return isinstance(op, (ast.Eq, ast.NotEq))      # equality with a constant: read, nothing else to narrow
        if flipped:
            o = {"<": ">", "<=": ">=", ">": "<", ">=": "<="}[o]
        if not pol:
            o = {"<": ">=", "<=": ">", ">": "<=", ">=": "<"}[o]
        is_size = isinstance(name, ast.Attribute)
        key = name.value.id if is_size else name.id
        if key not in env or not isinstance(env[key], AV):
            return True
        cur = env[key]
        if is_size:
            sz = cur.size or AV(0, INF, "scalar")
            sz = self._apply(sz, o, bound, integer=True)
            env[key] = cur.copy(size=sz)
            return True
        if scalar_only and cur.kind == "array":
            return True
        env[key] = self._apply(cur, o, bound)
        return True

    def _apply(self, cur, o, bound, integer=False):
        lo, hi = cur.lo, cur.hi
        if o in (">=", ">"):
            b = bound + (1 if (o == ">" and integer) else 0)
            lo = max(lo, b)
        else:
            b = bound - (1 if (o == "<" and integer) else 0)
            hi = min(hi, b)
        return cur.copy(lo=lo, hi=hi)

    # ------------------------------------------------------------------ expressions
    def const(self, n, env):
        v = self.ev(n, env)
        if isinstance(v, AV) and v.lo == v.hi and v.lo not in (INF, -INF):
            return v.lo
        return None

    def ev(self, n, env) -> AV:
        if n is None:
            return AV()
        if isinstance(n, ast.Constant):
            if isinstance(n.value, bool):
                return AV(int(n.value), int(n.value), "scalar")
            if isinstance(n.value, (int, float)):
                return AV(n.value, n.value, "scalar")
            if isinstance(n.value, str):
                return AV(kind="str", text=n.value)
            if n.value is None:
                return AV(kind="none")
            return AV()
        if isinstance(n, ast.Name):
            if n.id in env and isinstance(env[n.id], AV):
                return env[n.id]
            if n.id in self.local_funcs:
                f_ = AV(kind="func")
                f_.fn = (self.local_funcs[n.id], env, self.local_funcs)
                return f_
            if n.id in self.consts:
                return self._const_av(self.consts[n.id])
            return AV()
        if isinstance(n, ast.Lambda):
            f_ = AV(kind="func")
            f_.fn = (n, env, self.local_funcs)
            return f_
        if isinstance(n, ast.Attribute):
            if isinstance(n.value, ast.Name) and n.value.id in ("self", "cls") and n.attr in self.consts:
                return self._const_av(self.consts[n.attr])
            if n.attr == "size":
                b = self.ev(n.value, env)
                return b.size if b.size is not None else AV(0, INF, "scalar")
            return AV()
        if isinstance(n, ast.UnaryOp) and isinstance(n.op, ast.USub):
            v = self.ev(n.operand, env)
            return AV(-v.hi, -v.lo, v.kind)
        if isinstance(n, ast.BinOp):
            k = "$expr:" + ast.unparse(n)
            if k in env and isinstance(env[k], AV):
                return env[k]
            l_, r_ = self.ev(n.left, env), self.ev(n.right, env)
            if isinstance(n.op, ast.Add) and ((l_.kind == "str" and l_.parts is not None and r_.kind in ("str", "unknown"))
                                              or (r_.kind == "str" and r_.parts is not None and l_.kind in ("str", "unknown"))):
                # f'#{k}{n}' + ''.join(bits): one command text, the pieces in their order
                def pieces(v, node):
                    if v.parts is not None:
                        return list(v.parts)
                    if v.text is not None:
                        return [("text", v.text)]
                    return [("slot", ast.unparse(node), v if v.member is not None else v.copy(opaque=True), "")]
                return AV(kind="str", parts=pieces(l_, n.left) + pieces(r_, n.right))
            return self.arith(n.op, l_, r_)
        if isinstance(n, (ast.List, ast.Tuple)):
            vs = [self.ev(e, env) for e in n.elts]
            if not vs:
                return AV(kind="list", size=AV(0, 0, "scalar"))
            out = vs[0]
            for v in vs[1:]:
                out = hull(out, v)
            es = None
            if all(v.size is not None for v in vs):
                es = vs[0].size
                for v in vs[1:]:
                    es = hull(es, v.size)
            return AV(out.lo, out.hi, "list", out.member, AV(len(vs), len(vs), "scalar"), "", es, items=vs)
        if isinstance(n, ast.Subscript):
            b = self.ev(n.value, env)
            self.ev(n.slice, env)
            if isinstance(n.slice, ast.Slice):
                sl = n.slice
                width = None
                if sl.step is None and sl.upper is not None:
                    if sl.lower is None:
                        width = self.ev(sl.upper, env)                     # x[:K] holds at most K elements
                    elif isinstance(sl.upper, ast.BinOp) and isinstance(sl.upper.op, ast.Add):
                        lo_src = ast.unparse(sl.lower)
                        if ast.unparse(sl.upper.left) == lo_src:
                            width = self.ev(sl.upper.right, env)           # x[a:a+K] holds at most K elements
                        elif ast.unparse(sl.upper.right) == lo_src:
                            width = self.ev(sl.upper.left, env)
                if width is not None and not math.isinf(width.hi) and width.hi >= 0 and width.kind in ("scalar", "unknown"):
                    return b.copy(size=AV(0, width.hi, "scalar"))
                return b.copy(size=None)
            return self.element(b)
        if isinstance(n, ast.JoinedStr):
            return AV(kind="str", parts=self._fstring(n, env, None))
        if isinstance(n, ast.IfExp):
            self.ev(n.test, env)
            if all(isinstance(x, ast.Constant) and isinstance(x.value, str) for x in (n.body, n.orelse)):
                return AV(kind="str", member=frozenset((n.body.value, n.orelse.value)))   # one of two literal texts
            e1, e2 = dict(env), dict(env)
            self.refine(n.test, e1, True)
            self.refine(n.test, e2, False)
            return hull(self.ev(n.body, e1), self.ev(n.orelse, e2))
        if isinstance(n, ast.Compare):
            self.ev(n.left, env)
            for c in n.comparators:
                self.ev(c, env)
            return AV(0, 1, "unknown")
        if isinstance(n, ast.BoolOp):
            for v in n.values:
                self.ev(v, env)
            return AV()
        if isinstance(n, (ast.ListComp, ast.GeneratorExp)):
            sub = dict(env)
            for g in n.generators:
                it = self.ev(g.iter, sub)
                self.bind_iter(g.target, g.iter, it, sub)
            e = self.ev(n.elt, sub)
            if isinstance(n.elt, ast.Tuple) and e.items is not None:
                return AV(e.lo, e.hi, "list", e.member, note="rows", items=e.items)      # a list of (a, b, ...) rows
            return AV(e.lo, e.hi, "list", e.member)
        if isinstance(n, ast.Call):
            return self.call(n, env)
        return AV()

    def _const_av(self, c):
        if isinstance(c, (int, float)):
            return AV(c, c, "scalar")
        if isinstance(c, (list, tuple)) and c and all(isinstance(x, (int, float)) for x in c):
            return AV(min(c), max(c), "list", frozenset(c), AV(len(c), len(c), "scalar"))
        return AV()

    def arith(self, op, a: AV, b: AV):
        r = self._arith(op, a, b)
        if a.opaque or b.opaque:
            r = r.copy(opaque=True)
        return r

    def _arith(self, op, a: AV, b: AV):
        kind = "array" if "array" in (a.kind, b.kind) else ("scalar" if a.kind == b.kind == "scalar" else "unknown")
        try:
            if isinstance(op, ast.Add):
                return AV(a.lo + b.lo, a.hi + b.hi, kind)
            if isinstance(op, ast.Sub):
                return AV(a.lo - b.hi, a.hi - b.lo, kind)
            if isinstance(op, ast.Mult):
                ps = [x * y for x in (a.lo, a.hi) for y in (b.lo, b.hi) if not (math.isinf(x) and y == 0) and not (math.isinf(y) and x == 0)]
                return AV(min(ps), max(ps), kind) if ps else AV(kind=kind)
            if isinstance(op, ast.Pow) and a.lo == a.hi and b.lo == b.hi:
                return AV(a.lo ** b.lo, a.lo ** b.lo, kind)
            if isinstance(op, ast.FloorDiv) and b.lo == b.hi and b.lo > 0:
                return AV(math.floor(a.lo / b.lo) if not math.isinf(a.lo) else a.lo, math.floor(a.hi / b.lo) if not math.isinf(a.hi) else a.hi, kind)
            if isinstance(op, ast.Mod) and b.lo == b.hi and b.lo > 0:
                return AV(0, b.lo - 1, kind, note="int-remainder")
            if isinstance(op, ast.Div) and b.lo == b.hi and b.lo > 0:
                return AV(a.lo / b.lo, a.hi / b.lo, kind)
        except Exception:
            pass
        return AV(kind=kind)

    def call(self, n, env):
        name = _callname(n)
        args = n.args
        base = n.func.value if isinstance(n.func, ast.Attribute) else None
        if base is not None and isinstance(base, ast.Name) and base.id in ("self",) and n.func.attr in self.query_names:
            if args and isinstance(args[0], ast.JoinedStr):
                self._fstring(args[0], env, n)
            elif args and isinstance(args[0], ast.Name) and isinstance(env.get("$str:" + args[0].id), list):
                self._emit(env["$str:" + args[0].id], n)
            elif args:
                v = self.ev(args[0], env)
                if v.parts is not None:
                    self._emit(v.parts, n)          # a command built elsewhere (helper return, template.format(...)) and sent here
                elif v.text is not None:
                    self._emit([("text", v.text)], n)
                else:
                    self.sites.append(Site(n, self.fname, [("text", ast.unparse(args[0]))], ""))
            return AV(kind="str")
        if base is not None and isinstance(base, ast.Name) and base.id == "self" and n.func.attr in self.summaries:
            for a in args:
                self.ev(a, env)
            return self.summaries[n.func.attr]
        last = name.split(".")[-1]
        callee = None
        if base is not None and isinstance(base, ast.Name) and base.id in ("self", "cls") and n.func.attr in self.functions and n.func.attr not in self.query_names:
            callee = self.functions[n.func.attr]
        elif isinstance(n.func, ast.Name) and n.func.id in self.functions:
            callee = self.functions[n.func.id]
        closure = False
        cenv, cfuncs = env, self.local_funcs
        if callee is None and isinstance(n.func, ast.Name) and n.func.id in self.local_funcs and n.func.id not in env:
            callee, closure = self.local_funcs[n.func.id], True
        if callee is None and isinstance(n.func, ast.Name) and isinstance(env.get(n.func.id), AV) and env[n.func.id].fn is not None:
            # a callable handed in by the caller (command builder): interpreted in the environment it was written in
            callee, cenv, cfuncs = env[n.func.id].fn
            closure = True
        if any(isinstance(a, ast.Starred) for a in args) and last == "clip":
            # np.clip(x, *limits) with limits a tuple display of known length
            flat = []
            for a in args:
                sv = self.ev(a.value, env) if isinstance(a, ast.Starred) else None
                if sv is not None and sv.items is not None:
                    for k_, it_ in enumerate(sv.items):
                        nm = f"$star:{id(a)}:{k_}"
                        env[nm] = it_
                        flat.append(ast.Name(id=nm, ctx=ast.Load()))
                else:
                    flat.append(a)
            args = flat
        if callee is not None and self.depth < 4 and not any(k.arg is None for k in n.keywords) and callee.args.vararg is None and callee.args.kwarg is None:
            # helper of the same module (or a closure of this function): interpreted with the caller's argument values
            sub = IntervalInterp(self.consts, self.summaries, self.query_names, self.functions, self.depth + 1)
            sub.operator_names = getattr(self, "operator_names", ())
            params = [a.arg for a in callee.args.posonlyargs + callee.args.args if a.arg not in ("self", "cls")]
            senv = dict(cenv) if closure else {}
            senv.pop("__dead__", None)
            for p_ in params + [a.arg for a in callee.args.kwonlyargs]:
                senv[p_] = AV()
            pos_defaults = callee.args.defaults
            for p_, d in zip(params[len(params) - len(pos_defaults):] if pos_defaults else [], pos_defaults):
                senv[p_] = self.ev(d, {})
            for a_, d in zip(callee.args.kwonlyargs, callee.args.kw_defaults):
                if d is not None:
                    senv[a_.arg] = self.ev(d, {})
            actual = []
            for a in args:
                if isinstance(a, ast.Starred):
                    sv = self.ev(a.value, env)
                    if sv.items is None:
                        actual = None
                        break
                    actual.extend(sv.items)
                else:
                    actual.append(self.ev(a, env))
            if actual is not None:
                for p_, v_ in zip(params, actual):
                    senv[p_] = v_
                for k in n.keywords:
                    if k.arg in senv:
                        senv[k.arg] = self.ev(k.value, env)
            sub.fname = getattr(callee, 'name', self.fname)
            sub.local_funcs = dict(cfuncs) if closure else {}
            sub.flag_warned = self.flag_warned
            if isinstance(callee, ast.Lambda):
                out = sub.ev(callee.body, senv)
                self.sites.extend(sub.sites)
                self.fmt_issues.extend(sub.fmt_issues)
                self.branch_info.extend(sub.branch_info)
                return out
            sub.block(callee.body, senv)
            # commands sent by the helper are sent with the caller's values
            self.sites.extend(sub.sites)
            self.fmt_issues.extend(sub.fmt_issues)
            self.branch_info.extend(sub.branch_info)
            if sub.returns:
                out = sub.returns[0]
                for r in sub.returns[1:]:
                    out = hull(out, r)
                return out
            return AV()
        if name == "map" and len(args) == 2 and not n.keywords and not isinstance(args[1], ast.Starred):
            # map(f, xs) = [f(x) for x in xs]
            sub_ = dict(env)
            self.bind_iter(ast.Name(id="$map", ctx=ast.Store()), args[1], self.ev(args[1], sub_), sub_)
            e_ = self.ev(ast.copy_location(ast.Call(func=args[0], args=[ast.Name(id="$map", ctx=ast.Load())], keywords=[]), n), sub_)
            if e_.items is not None:
                return AV(e_.lo, e_.hi, "list", e_.member, note="rows", items=e_.items)
            return AV(e_.lo, e_.hi, "list", e_.member)
        if last == "format" and base is not None and not n.keywords:
            b = self.ev(base, env)
            if b.kind == "str" and b.text is not None:
                parts = self._format_parts(b.text, args, env, n)
                if parts is not None:
                    return AV(kind="str", parts=parts)
        if last == "clip":
            if base is not None and not name.startswith(("np.", "numpy.")):
                x = self.ev(base, env)
                lo, hi = (self.ev(a, env) for a in args[:2]) if len(args) >= 2 else (AV(), AV())
            else:
                x = self.ev(args[0], env) if args else AV()
                lo, hi = (self.ev(a, env) for a in args[1:3]) if len(args) >= 3 else (AV(), AV())
            kind = x.kind if x.kind in ("array", "scalar") else ("array" if base is not None and not name.startswith(("np.", "numpy.")) else "scalar")
            # clip(x, lo, hi) = min(max(x, lo), hi): when the upper limit can lie below the lower one it wins
            return AV(min(max(x.lo, lo.lo), hi.lo), min(max(x.hi, lo.hi), hi.hi), kind, None, x.size)
        if last in ("array", "asarray"):
            v = self.ev(args[0], env) if args else AV()
            return AV(v.lo, v.hi, "array", v.member, v.size)
        if last == "tile":
            v = self.ev(args[0], env) if args else AV()
            return AV(v.lo, v.hi, "array", v.member)
        if last == "arange":
            vs = [self.ev(a, env) for a in args]
            if len(vs) == 1:
                return AV(0, vs[0].hi - 1, "array")
            if len(vs) >= 2:
                return AV(vs[0].lo, vs[1].hi - 1, "array")
        if last == "concatenate" and args and isinstance(args[0], (ast.Tuple, ast.List)):
            vs = [self.ev(e, env) for e in args[0].elts]
            out = vs[0]
            for v in vs[1:]:
                out = hull(out, v)
            return AV(out.lo, out.hi, "array")
        if last == "split" and len(args) == 2:
            # np.split(x, np.arange(k, x.size, k)): pieces of 1..k elements
            x = self.ev(args[0], env)
            idx = args[1]
            if isinstance(idx, ast.Call) and _callname(idx).endswith("arange") and len(idx.args) == 3:
                a0, a1, a2 = idx.args
                k0, k2 = self.const(a0, env), self.const(a2, env)
                if k0 is not None and k0 == k2 and ast.unparse(a1) == ast.unparse(args[0]) + ".size":
                    return AV(x.lo, x.hi, "list", None, None, "chunks", AV(1, k0, "scalar"))
            return AV(x.lo, x.hi, "list", None, None, "chunks", AV(0, INF, "scalar"))
        if last == "nearest" and len(args) == 2:
            t = self.ev(args[0], env)
            if t.member is not None:
                return AV(min(t.member), max(t.member), "scalar", frozenset(t.member))
        if last in ("int", "float", "round", "rint", "around", "trunc", "fix"):
            v = self.ev(args[0], env) if args else AV()
            return AV(math.floor(v.lo) if not math.isinf(v.lo) else v.lo, math.ceil(v.hi) if not math.isinf(v.hi) else v.hi, "scalar", v.member)
        if last == "len" and len(args) == 1:
            v = self.ev(args[0], env)
            if isinstance(args[0], ast.Call) and _callname(args[0]) == "str":
                inner = self.ev(args[0].args[0], env)
                if inner.lo >= 0 and not math.isinf(inner.hi):
                    return AV(len(str(int(max(inner.lo, 0)))), len(str(int(inner.hi))), "scalar")
            return v.size if v.size is not None else AV(0, INF, "scalar")
        if last == "astype" and base is not None:
            v = self.ev(base, env)
            tname = ast.unparse(args[0]) if args else ""
            if any(k in tname for k in ("float", "complex", "double")):
                return v
            if tname.split(".")[-1] in ("str", "str_", "object"):
                return v
            # an integer target - or one not known here (x.astype(y.dtype)) - truncates toward zero: 0.3 becomes 0
            tr = lambda z: z if math.isinf(z) else float(math.trunc(z))
            return v.copy(lo=min(tr(v.lo), v.lo), hi=max(tr(v.hi), v.hi)) if not any(k in tname for k in ("int", "bool")) else v.copy(lo=tr(v.lo), hi=tr(v.hi))
        if last in ("copy", "ravel", "flatten"):
            return self.ev(base, env) if base is not None else AV()
        if last in ("sort", "sorted", "unique", "flip", "squeeze", "atleast_1d") and args and (base is None or name.startswith(("np.", "numpy."))):
            v = self.ev(args[0], env)                     # same values, another order
            return AV(v.lo, v.hi, "array" if v.kind in ("list", "array") else v.kind, v.member, v.size)
        if last in ("str2array",):
            return AV(0, 1, "array")
        if last in ("min", "max") and len(args) >= 2 and base is None:
            vs = [self.ev(a, env) for a in args]
            if last == "min":
                return AV(min(v.lo for v in vs), min(v.hi for v in vs), "scalar")
            return AV(max(v.lo for v in vs), max(v.hi for v in vs), "scalar")
        if last == "full" and len(args) >= 2:
            v = self.ev(args[1], env)
            return AV(v.lo, v.hi, "array", v.member)
        if last in ("zeros", "ones", "zeros_like", "ones_like"):
            c = 0 if last.startswith("zeros") else 1
            return AV(c, c, "array")
        if last in ("ceil", "floor"):
            v = self.ev(args[0], env) if args else AV()
            return AV(math.floor(v.lo) if not math.isinf(v.lo) else v.lo, math.ceil(v.hi) if not math.isinf(v.hi) else v.hi, "scalar", None, None, "", None, v.opaque)
        for a in args:
            self.ev(a, env)
        for k in n.keywords:
            self.ev(k.value, env)
        if base is not None:
            self.ev(base, env)
        return AV(opaque=True)

    def _fstring(self, js, env, query_node):
        parts = []
        for v in js.values:
            if isinstance(v, ast.Constant):
                parts.append(("text", str(v.value)))
            elif isinstance(v, ast.FormattedValue):
                val = self.ev(v.value, env)
                if val.kind == "str" and val.parts is not None:
                    # a number rendered first and interpolated as text: f'{x / 1e-12:.1f}e-12' is x rounded on the 0.1e-12 grid
                    sc = _scaled_number(val.parts)
                    if sc is None and v.format_spec is None and v.conversion in (-1, 115):
                        parts.extend(val.parts)          # a piece of the command built in a local f-string (header = f'#{k}{n}') and put in as it is
                        continue
                    val = sc if sc is not None else AV(kind="str", opaque=True)
                elif val.kind == "str" and val.member is None and val.text is None:
                    val = val.copy(opaque=True)
                spec = ""
                if v.format_spec is not None:
                    spec = "".join(str(x.value) for x in v.format_spec.values if isinstance(x, ast.Constant))
                if spec and spec[-1] in "feEgGd%" and val.kind == "array":
                    self.fmt_issues.append((v, ast.unparse(v.value), spec, js))
                if val.kind == "str" and val.member and all(isinstance(m, str) for m in val.member) and not spec:
                    parts.append(("alts", sorted(val.member)))
                else:
                    parts.append(("slot", ast.unparse(v.value), val, spec))
        if query_node is not None:
            self._emit(parts, query_node)
        return parts

    def _format_parts(self, template, args, env, node):
        """'<template>'.format(a, b) as command parts (auto-numbered / indexed fields with optional format spec)"""
        import string
        parts, auto = [], 0
        try:
            parsed = list(string.Formatter().parse(template))
        except ValueError:
            return None
        for lit, name, spec, conv in parsed:
            if lit:
                parts.append(("text", lit))
            if name is None:
                continue
            if conv is not None or (spec and "{" in spec):
                return None
            if name == "":
                i, auto = auto, auto + 1
            elif name.isdigit():
                i = int(name)
            else:
                return None
            if i >= len(args) or isinstance(args[i], ast.Starred):
                return None
            val = self.ev(args[i], env)
            spec = spec or ""
            if spec and spec[-1] in "feEgGd%" and val.kind == "array":
                self.fmt_issues.append((node, ast.unparse(args[i]), spec, node))
            if val.kind == "str" and val.member and all(isinstance(m, str) for m in val.member) and not spec:
                parts.append(("alts", sorted(val.member)))
            else:
                parts.append(("slot", ast.unparse(args[i]), val, spec))
        return parts

    def _desugar_test(self, test):
        """any(p(x) for x in (a, b)) -> p(a) or p(b);  operator.lt(a, b) -> a < b   (exact rewrites of a guard expression)"""
        if isinstance(test, ast.Call) and isinstance(test.func, ast.Name) and test.func.id in ("any", "all") and len(test.args) == 1 and not test.keywords \
                and isinstance(test.args[0], (ast.GeneratorExp, ast.ListComp)) and len(test.args[0].generators) == 1:
            g = test.args[0].generators[0]
            if not g.ifs and isinstance(g.iter, (ast.Tuple, ast.List)) and 1 <= len(g.iter.elts) <= 8:
                terms = []
                for row in g.iter.elts:
                    sub = {}
                    if isinstance(g.target, ast.Name):
                        sub[g.target.id] = row
                    elif isinstance(g.target, (ast.Tuple, ast.List)) and isinstance(row, (ast.Tuple, ast.List)) and len(row.elts) == len(g.target.elts) \
                            and all(isinstance(t_, ast.Name) for t_ in g.target.elts):
                        sub = {t_.id: r_ for t_, r_ in zip(g.target.elts, row.elts)}
                    else:
                        return test
                    terms.append(self._desugar_test(_subst_names(test.args[0].elt, sub)))
                new = ast.BoolOp(op=ast.Or() if test.func.id == "any" else ast.And(), values=terms) if len(terms) > 1 else terms[0]
                return ast.copy_location(new, test)
        # a predicate helper - a private function / method whose body is `return <test>` - stands for its test with the arguments put in:
        # self._any_outside(x, lo, hi)  ->  (x < lo).any() or (x > hi).any()
        if isinstance(test, ast.Call) and not test.keywords and not any(isinstance(a_, ast.Starred) for a_ in test.args):
            hname = None
            if isinstance(test.func, ast.Attribute) and isinstance(test.func.value, ast.Name) and test.func.value.id in ("self", "cls"):
                hname = test.func.attr
            elif isinstance(test.func, ast.Name):
                hname = test.func.id
            callee = self.functions.get(hname) if hname and hname not in self.query_names else None
            if callee is not None and callee.args.vararg is None and callee.args.kwarg is None and getattr(self, "_desugar_depth", 0) < 3:
                body = [s_ for s_ in callee.body if not (isinstance(s_, ast.Expr) and isinstance(s_.value, ast.Constant))]
                params = [a_.arg for a_ in callee.args.posonlyargs + callee.args.args if a_.arg not in ("self", "cls")]
                if len(body) == 1 and isinstance(body[0], ast.Return) and body[0].value is not None and len(params) == len(test.args) \
                        and isinstance(body[0].value, (ast.BoolOp, ast.Compare, ast.UnaryOp, ast.Call)):
                    self._desugar_depth = getattr(self, "_desugar_depth", 0) + 1
                    try:
                        return ast.copy_location(self._desugar_test(_subst_names(body[0].value, dict(zip(params, test.args)))), test)
                    finally:
                        self._desugar_depth -= 1
        if isinstance(test, ast.Call) and isinstance(test.func, ast.Attribute) and test.func.attr in ("any", "all") and not test.args:
            inner = self._desugar_test(test.func.value)
            if inner is not test.func.value:
                return ast.copy_location(ast.Call(func=ast.Attribute(value=inner, attr=test.func.attr, ctx=ast.Load()), args=[], keywords=[]), test)
        if isinstance(test, ast.Call) and isinstance(test.func, ast.Attribute) and isinstance(test.func.value, ast.Name) \
                and test.func.value.id in getattr(self, "operator_names", ()) and len(test.args) == 2 and not test.keywords:
            op = {"lt": ast.Lt, "le": ast.LtE, "gt": ast.Gt, "ge": ast.GtE, "eq": ast.Eq, "ne": ast.NotEq}.get(test.func.attr)
            if op is not None:
                return ast.copy_location(ast.Compare(left=test.args[0], ops=[op()], comparators=[test.args[1]]), test)
        return test

    def _emit(self, parts, query_node):
        """one site per combination of the literal alternatives interpolated into the command text"""
        combos = [[]]
        for p in parts:
            if p[0] == "alts":
                combos = [c + [("text", alt)] for c in combos for alt in p[1]]
            else:
                combos = [c + [p] for c in combos]
        for c in combos[:16]:
            merged = []
            for p in c:
                if p[0] == "text" and merged and merged[-1][0] == "text":
                    merged[-1] = ("text", merged[-1][1] + p[1])
                else:
                    merged.append(p)
            self.sites.append(Site(query_node, self.fname, merged, ""))


def _scaled_number(parts):
    """[slot(x, '.kf'), text('e<n>')] -> the interval of x * 10**n (rounding on a grid that contains the limits is ignored)"""
    import re as _re
    if len(parts) == 2 and parts[0][0] == "slot" and parts[1][0] == "text":
        m = _re.fullmatch(r"[eE]([+-]?\d+)", parts[1][1])
        av = parts[0][2]
        if m and isinstance(av, AV) and av.kind != "str":
            k = 10.0 ** int(m.group(1))
            return AV(av.lo * k, av.hi * k, av.kind if av.kind in ("scalar", "array") else "scalar", None, None, "", None, av.opaque)
    if len(parts) == 1 and parts[0][0] == "slot" and isinstance(parts[0][2], AV) and parts[0][2].kind != "str":
        return parts[0][2]
    return None


def _is_mask_expr(n):
    if isinstance(n, ast.Compare):
        return any(isinstance(o, (ast.Lt, ast.LtE, ast.Gt, ast.GtE, ast.Eq, ast.NotEq)) for o in n.ops)
    if isinstance(n, ast.BinOp) and isinstance(n.op, (ast.BitOr, ast.BitAnd)):
        return _is_mask_expr(n.left) and _is_mask_expr(n.right)
    if isinstance(n, ast.UnaryOp) and isinstance(n.op, ast.Invert):
        return _is_mask_expr(n.operand)
    return False


def _compares_values(test):
    """does the test look at the VALUE of a numeric quantity (orderings, any()/all(), isnan ...) as opposed to its type, presence or size?"""
    for n in ast.walk(test):
        if isinstance(n, ast.Compare) and any(isinstance(o, (ast.Lt, ast.LtE, ast.Gt, ast.GtE)) for o in n.ops):
            sides = [n.left] + list(n.comparators)
            if not all(_is_size_like(x) or isinstance(x, ast.Constant) for x in sides):
                return True
        if isinstance(n, ast.Call) and isinstance(n.func, ast.Attribute) and n.func.attr in ("any", "all") and not n.args:
            return True
    return False


def _is_size_like(x):
    if isinstance(x, ast.Call) and isinstance(x.func, ast.Name) and x.func.id == "len":
        return True
    if isinstance(x, ast.Attribute) and x.attr in ("size", "ndim", "shape"):
        return True
    return False


def _subst_names(node, sub):
    """copy of the expression with the given names replaced by expressions"""
    class R(ast.NodeTransformer):
        def visit_Name(self, n_):
            if isinstance(n_.ctx, ast.Load) and n_.id in sub:
                return _load(sub[n_.id])
            return n_
    new = R().visit(_load(node))
    return ast.fix_missing_locations(new)


def _callname(n):
    try:
        return ast.unparse(n.func)
    except Exception:
        return ""


def _load(t):
    n = ast.parse(ast.unparse(t), mode="eval").body   # Load-context copy (a deepcopy would follow the _parent links)
    for x in ast.walk(n):
        ast.copy_location(x, t)
    return n
