"""Karr's affine-equality domain over a CFG (exact joins, finite height)."""
from __future__ import annotations

import ast
from fractions import Fraction

F0, F1 = Fraction(0), Fraction(1)


def rref(rows, ncols):
    rows = [list(r) for r in rows if any(x != 0 for x in r)]
    piv_row = 0
    pivots = []
    for col in range(ncols - 1):  # last column is the constant
        sel = None
        for r in range(piv_row, len(rows)):
            if rows[r][col] != 0:
                sel = r
                break
        if sel is None:
            continue
        rows[piv_row], rows[sel] = rows[sel], rows[piv_row]
        pv = rows[piv_row][col]
        rows[piv_row] = [x / pv for x in rows[piv_row]]
        for r in range(len(rows)):
            if r != piv_row and rows[r][col] != 0:
                f = rows[r][col]
                rows[r] = [a - f * b for a, b in zip(rows[r], rows[piv_row])]
        pivots.append(col)
        piv_row += 1
        if piv_row == len(rows):
            break
    rows = [r for r in rows if any(x != 0 for x in r)]
    # inconsistent: 0 = c
    for r in rows:
        if all(x == 0 for x in r[:-1]) and r[-1] != 0:
            return None
    return rows


class Aff:
    """affine subspace of Q^n given by equalities  sum a_i x_i + c = 0  (rows in RREF); None rows = bottom"""

    def __init__(self, n, rows=()):
        self.n = n
        self.rows = rref(rows, n + 1) if rows is not None else None

    @staticmethod
    def bottom(n):
        a = Aff(n)
        a.rows = None
        return a

    def is_bottom(self):
        return self.rows is None

    def copy(self):
        a = Aff(self.n)
        a.rows = None if self.rows is None else [list(r) for r in self.rows]
        return a

    def __eq__(self, o):
        return self.rows == o.rows

    def assume(self, coeffs, const):
        if self.rows is None:
            return self
        a = Aff(self.n)
        a.rows = rref(self.rows + [list(coeffs) + [const]], self.n + 1)
        return a

    def entails(self, coeffs, const):
        if self.rows is None:
            return True
        r = rref(self.rows + [list(coeffs) + [const]], self.n + 1)
        return r is not None and len(r) == len(self.rows)

    def havoc(self, j):
        if self.rows is None:
            return self
        # eliminate column j: use a row with non-zero coeff in j to cancel it from the others, then drop it
        rows = [list(r) for r in self.rows]
        sel = next((r for r in rows if r[j] != 0), None)
        if sel is None:
            return self.copy()
        out = []
        for r in rows:
            if r is sel:
                continue
            if r[j] != 0:
                f = r[j] / sel[j]
                r = [a - f * b for a, b in zip(r, sel)]
            out.append(r)
        a = Aff(self.n)
        a.rows = rref(out, self.n + 1)
        return a

    def assign(self, j, coeffs, const):
        """x_j := sum coeffs_i x_i + const"""
        if self.rows is None:
            return self
        n = self.n
        # extended space with x' as column n (before the constant)
        ext = [r[:n] + [F0] + [r[n]] for r in self.rows]
        ext.append(list(-c for c in coeffs) + [F1] + [-const])   # x' - e = 0
        tmp = Aff(n + 1)
        tmp.rows = rref(ext, n + 2)
        tmp = tmp.havoc(j)
        if tmp.rows is None:
            return Aff.bottom(n)
        rows = []
        for r in tmp.rows:
            rr = list(r[:n]) + [r[n + 1]]
            rr[j] = r[n]
            rows.append(rr)
        return Aff(n, rows)

    # generator representation for the join
    def _gens(self):
        n = self.n
        rows = self.rows
        piv = {}
        for i, r in enumerate(rows):
            for c in range(n):
                if r[c] != 0:
                    piv[c] = i
                    break
        free = [c for c in range(n) if c not in piv]
        p = [F0] * n
        for c, i in piv.items():
            p[c] = -rows[i][n]
        dirs = []
        for f in free:
            v = [F0] * n
            v[f] = F1
            for c, i in piv.items():
                v[c] = -rows[i][f]
            dirs.append(v)
        return p, dirs

    def join(self, o):
        if self.rows is None:
            return o.copy()
        if o.rows is None:
            return self.copy()
        n = self.n
        p1, d1 = self._gens()
        p2, d2 = o._gens()
        dirs = d1 + d2 + [[a - b for a, b in zip(p2, p1)]]
        # equalities: all (a, c) with a.v = 0 for every direction and a.p1 + c = 0
        # nullspace of the direction matrix
        D = rref([v + [F0] for v in dirs], n + 1) or []
        piv = {}
        for i, r in enumerate(D):
            for c in range(n):
                if r[c] != 0:
                    piv[c] = i
                    break
        free = [c for c in range(n) if c not in piv]
        eqs = []
        for f in free:
            a = [F0] * n
            a[f] = F1
            for c, i in piv.items():
                a[c] = -D[i][f]
            # a is orthogonal to all directions?  nullspace vector of D: D a = 0
            const = -sum(x * y for x, y in zip(a, p1))
            eqs.append(a + [const])
        return Aff(n, eqs)

    def describe(self, names):
        if self.rows is None:
            return "unreachable"
        out = []
        for r in self.rows:
            terms = []
            for c, nm in zip(r[:-1], names):
                if c != 0:
                    terms.append(f"{'' if c == 1 else ('-' if c == -1 else str(c) + '*')}{nm}")
            s = " + ".join(terms).replace("+ -", "- ")
            out.append(f"{s} + {r[-1]} = 0" if r[-1] != 0 else f"{s} = 0")
        return "; ".join(out) if out else "(no relation)"


def affine_of(node, names):
    """(coeffs, const) of an affine expression over `names`, or None"""
    n = len(names)
    if isinstance(node, ast.Constant) and isinstance(node.value, (int, float)) and not isinstance(node.value, bool):
        return [F0] * n, Fraction(repr(node.value)) if isinstance(node.value, float) else Fraction(node.value)
    if isinstance(node, ast.Name):
        if node.id in names:
            c = [F0] * n
            c[names.index(node.id)] = F1
            return c, F0
        return None
    if isinstance(node, ast.UnaryOp) and isinstance(node.op, (ast.USub, ast.UAdd)):
        a = affine_of(node.operand, names)
        if a is None:
            return None
        if isinstance(node.op, ast.UAdd):
            return a
        return [-x for x in a[0]], -a[1]
    if isinstance(node, ast.BinOp):
        a, b = affine_of(node.left, names), affine_of(node.right, names)
        if isinstance(node.op, (ast.Add, ast.Sub)):
            if a is None or b is None:
                return None
            s = 1 if isinstance(node.op, ast.Add) else -1
            return [x + s * y for x, y in zip(a[0], b[0])], a[1] + s * b[1]
        if isinstance(node.op, ast.Mult):
            if a is not None and all(x == 0 for x in a[0]) and b is not None:
                return [a[1] * y for y in b[0]], a[1] * b[1]
            if b is not None and all(x == 0 for x in b[0]) and a is not None:
                return [b[1] * y for y in a[0]], b[1] * a[1]
            return None
        if isinstance(node.op, ast.Div):
            if a is not None and b is not None and all(x == 0 for x in b[0]) and b[1] != 0:
                return [y / b[1] for y in a[0]], a[1] / b[1]
            return None
    return None


def analyse(cfg, names, ghost_sites, init=None):
    """Forward Karr analysis.  names: program variables tracked, plus ghost 'z' (must be in names).
    ghost_sites: {cfg node id: step variable name}  -> at that node  z := z + step  (applied after
    the node's own assignment effect).  Returns {node id: Aff at node entry}."""
    n = len(names)
    zi = names.index("z")
    state = {cfg.entry.id: init if init is not None else Aff(n).assign(zi, [F0] * n, F0)}
    work = [cfg.entry]
    iters = 0
    while work:
        iters += 1
        if iters > 20000:
            raise RuntimeError("karr: no fixpoint")
        node = work.pop()
        st = state[node.id]
        for succ, lab in node.succ:
            out = transfer(node, lab, st, names, ghost_sites)
            old = state.get(succ.id)
            new = out if old is None else old.join(out)
            if old is None or new != old:
                state[succ.id] = new
                work.append(succ)
    return state


def _targets(t):
    if isinstance(t, ast.Name):
        return [t.id]
    if isinstance(t, (ast.Tuple, ast.List)):
        out = []
        for e in t.elts:
            out += _targets(e)
        return out
    return []


def transfer(node, lab, st, names, ghost_sites):
    if st.is_bottom():
        return st
    a = node.ast
    out = st
    if node.kind == "stmt" and a is not None:
        if isinstance(a, ast.Assign):
            for t in a.targets:
                if isinstance(t, ast.Name) and t.id in names:
                    out = _assign_expr(out, names.index(t.id), a.value, names)
                else:
                    for nm in _targets(t):
                        if nm in names:
                            out = out.havoc(names.index(nm))
        elif isinstance(a, ast.AugAssign) and isinstance(a.target, ast.Name) and a.target.id in names:
            j = names.index(a.target.id)
            expr = ast.BinOp(left=ast.Name(id=a.target.id, ctx=ast.Load()), op=a.op, right=a.value)
            out = _assign_expr(out, j, expr, names)
        elif isinstance(a, ast.AnnAssign) and isinstance(a.target, ast.Name) and a.target.id in names and a.value is not None:
            out = _assign_expr(out, names.index(a.target.id), a.value, names)
        elif isinstance(a, ast.With):
            pass
        if node.id in ghost_sites:
            step = ghost_sites[node.id]
            zi = names.index("z")
            c = [F0] * len(names)
            c[zi] = F1
            if step in names:
                c[names.index(step)] += F1
                out = out.assign(zi, c, F0)
            else:
                out = out.havoc(zi)
    elif node.kind == "for":
        for nm in _targets(a.target):
            if nm in names:
                out = out.havoc(names.index(nm))
    elif node.kind == "cond" and a is not None and lab in (True, False):
        out = _assume(out, a, lab, names)
    return out


def _assign_expr(st, j, value, names):
    if isinstance(value, ast.IfExp):
        a = _assign_expr(_assume(st, value.test, True, names), j, value.body, names)
        b = _assign_expr(_assume(st, value.test, False, names), j, value.orelse, names)
        return a.join(b)
    af = affine_of(value, names)
    if af is None:
        return st.havoc(j)
    return st.assign(j, af[0], af[1])


def _assume(st, test, pol, names):
    if isinstance(test, ast.UnaryOp) and isinstance(test.op, ast.Not):
        return _assume(st, test.operand, not pol, names)
    if isinstance(test, ast.BoolOp):
        if (isinstance(test.op, ast.And) and pol) or (isinstance(test.op, ast.Or) and not pol):
            for v in test.values:
                st = _assume(st, v, pol, names)
        return st
    if isinstance(test, ast.Compare) and len(test.ops) == 1:
        op = test.ops[0]
        eq = (isinstance(op, ast.Eq) and pol) or (isinstance(op, ast.NotEq) and not pol)
        if eq:
            a, b = affine_of(test.left, names), affine_of(test.comparators[0], names)
            if a is not None and b is not None:
                return st.assume([x - y for x, y in zip(a[0], b[0])], a[1] - b[1])
    return st
