"""Syntax lowering applied to every module right after parsing: newer statement forms are rewritten into the older ones all the
analyses are written for.  Each rewrite is the language's own definition of the construct, so it is an identity on behaviour.

  L1  match S: case P1 [if G1]: B1 ... case _: Bn    ->   if T(P1) [and G1]: B1  elif ...  else: Bn
      for patterns that do not bind or destructure: literals / dotted names (==), None/True/False (is), alternatives (|),
      class patterns without sub-patterns (isinstance), the wildcard `_`, and a final bare capture `case x:` (x = S).
      A subject that is not a plain name is evaluated once into a fresh temporary.  A subject written as a tuple display
      `match (a, b):` with sequence patterns of literals / wildcards / captures `case (True, _):` is matched element by element
      (the length test is static).  A `match` with any other pattern is left untouched (the analyses then report the function as
      not analysable rather than guess).

  L2  if <test containing (x := e) as the first thing it evaluates>: ...     ->   x = e;  if <test with x>: ...
      (the walrus is reached from the root of the test through left operands / first arguments only, and every callee name before
      it is a plain dotted name not rooted at x), so the hoisted assignment runs exactly when and where the walrus did.

New nodes take the position of the node they replace, so reports still point at the original line."""
from __future__ import annotations

import ast

_BUILTIN_CLASSES = {"str", "int", "float", "bool", "complex", "list", "tuple", "dict", "set", "bytes"}


def _loc(new, old):
    for n in ast.walk(new):
        for a in ("lineno", "col_offset", "end_lineno", "end_col_offset"):
            if getattr(n, a, None) is None and hasattr(old, a):
                setattr(n, a, getattr(old, a))
    return new


def _load(name):
    return ast.Name(id=name, ctx=ast.Load())


def _pattern_test(p, subj):
    """expression equivalent to `subject matches p` for non-binding patterns; True for the wildcard; None if unsupported"""
    if isinstance(p, ast.MatchValue):
        return ast.Compare(left=_load(subj), ops=[ast.Eq()], comparators=[p.value])
    if isinstance(p, ast.MatchSingleton):
        return ast.Compare(left=_load(subj), ops=[ast.Is()], comparators=[ast.Constant(value=p.value)])
    if isinstance(p, ast.MatchOr):
        parts = [_pattern_test(q, subj) for q in p.patterns]
        if any(t is None or t is True for t in parts):
            return None
        return ast.BoolOp(op=ast.Or(), values=parts)
    if isinstance(p, ast.MatchAs) and p.pattern is None and p.name is None:
        return True
    if isinstance(p, ast.MatchClass) and not p.patterns and not p.kwd_patterns:
        return ast.Call(func=_load("isinstance"), args=[_load(subj), p.cls], keywords=[])
    return None


def _lower_tuple_match(s: ast.Match, counter):
    """match (e1, .., en): case (p1, .., pn) [if g]: ...   with element patterns that are literals, wildcards or captures"""
    elts = s.subject.elts
    if any(isinstance(e, ast.Starred) for e in elts):
        return None
    pre, names = [], []
    for e in elts:
        if isinstance(e, ast.Name):
            names.append(e.id)
        else:
            counter[0] += 1
            nm = f"_match_subject_{counter[0]}"
            pre.append(ast.Assign(targets=[ast.Name(id=nm, ctx=ast.Store())], value=e))
            names.append(nm)
    arms = []
    for i, c in enumerate(s.cases):
        p = c.pattern
        body = list(c.body)
        if isinstance(p, ast.MatchAs) and p.pattern is None and p.name is None:
            t = True
        elif isinstance(p, ast.MatchSequence):
            if any(isinstance(q, ast.MatchStar) for q in p.patterns):
                return None
            if len(p.patterns) != len(names):
                continue                                  # a tuple of another length never matches
            tests, binds = [], []
            for q, nm in zip(p.patterns, names):
                if isinstance(q, ast.MatchAs) and q.pattern is None and q.name is not None:
                    binds.append(ast.Assign(targets=[ast.Name(id=q.name, ctx=ast.Store())], value=_load(nm)))
                    continue
                if isinstance(q, ast.MatchSequence):
                    sq = _sequence_test(q, nm)               # an element that is itself a fixed-length sequence: case 2, (1,):
                    if sq is None:
                        return None
                    tests.append(sq[0])
                    binds.extend(sq[1])
                    continue
                tq = _pattern_test(q, nm)
                if tq is None:
                    return None
                if tq is not True:
                    tests.append(tq)
            if binds and c.guard is not None:
                return None                               # the guard may read the captured names
            body = binds + body
            t = True if not tests else (tests[0] if len(tests) == 1 else ast.BoolOp(op=ast.And(), values=tests))
        else:
            return None
        if c.guard is not None:
            t = c.guard if t is True else ast.BoolOp(op=ast.And(), values=[t, c.guard])
        arms.append((t, body))
    tail = []
    for t, body in reversed(arms):
        tail = body if t is True else [ast.If(test=t, body=body, orelse=tail)]
    return [_loc(n, s) for n in pre + (tail or [ast.Pass()])]


def _sequence_test(p: ast.MatchSequence, subj):
    """(test, bindings) for a fixed-length sequence pattern against an arbitrary subject:
    __is_sequence__(S) and len(S) == k and S[0] matches p0 and ...   (__is_sequence__: a list/tuple-like that is not a string - the
    language's definition; the analyses decide it for tuples, lists and array shapes and leave it undecided otherwise)"""
    if any(isinstance(q, ast.MatchStar) for q in p.patterns):
        return None
    tests = [ast.Call(func=_load("__is_sequence__"), args=[_load(subj)], keywords=[]),
             ast.Compare(left=ast.Call(func=_load("len"), args=[_load(subj)], keywords=[]), ops=[ast.Eq()], comparators=[ast.Constant(value=len(p.patterns))])]
    binds = []
    for i, q in enumerate(p.patterns):
        item = ast.Subscript(value=_load(subj), slice=ast.Constant(value=i), ctx=ast.Load())
        if isinstance(q, ast.MatchAs) and q.pattern is None:
            if q.name is not None:
                binds.append(ast.Assign(targets=[ast.Name(id=q.name, ctx=ast.Store())], value=item))
            continue
        if isinstance(q, ast.MatchValue):
            tests.append(ast.Compare(left=item, ops=[ast.Eq()], comparators=[q.value]))
        elif isinstance(q, ast.MatchSingleton):
            tests.append(ast.Compare(left=item, ops=[ast.Is()], comparators=[ast.Constant(value=q.value)]))
        elif isinstance(q, ast.MatchOr) and all(isinstance(r, ast.MatchValue) for r in q.patterns):
            tests.append(ast.BoolOp(op=ast.Or(), values=[ast.Compare(left=item, ops=[ast.Eq()], comparators=[r.value]) for r in q.patterns]))
        else:
            return None
    return ast.BoolOp(op=ast.And(), values=tests), binds


def _lower_match(s: ast.Match, counter):
    pre = []
    if isinstance(s.subject, ast.Tuple) and any(isinstance(c.pattern, ast.MatchSequence) for c in s.cases):
        return _lower_tuple_match(s, counter)
    if isinstance(s.subject, ast.Name):
        subj = s.subject.id
    else:
        counter[0] += 1
        subj = f"_match_subject_{counter[0]}"
        pre.append(ast.Assign(targets=[ast.Name(id=subj, ctx=ast.Store())], value=s.subject))
    arms = []
    for i, c in enumerate(s.cases):
        p = c.pattern
        body = list(c.body)
        if isinstance(p, ast.MatchAs) and p.pattern is None and p.name is not None:
            # bare capture: irrefutable, only legal as the last case; binds the subject
            if i != len(s.cases) - 1 or c.guard is not None:
                return None
            body = [ast.Assign(targets=[ast.Name(id=p.name, ctx=ast.Store())], value=_load(subj))] + body
            t = True
        elif isinstance(p, ast.MatchSequence):
            st_ = _sequence_test(p, subj)
            if st_ is None or (st_[1] and c.guard is not None):
                return None
            t, body = st_[0], st_[1] + body
        else:
            t = _pattern_test(p, subj)
        if t is None:
            return None
        if c.guard is not None:
            t = c.guard if t is True else ast.BoolOp(op=ast.And(), values=[t, c.guard])
        arms.append((t, body))
    # build the chain from the end
    tail = []
    for t, body in reversed(arms):
        if t is True:
            tail = body                      # irrefutable: everything after it is unreachable (Python rejects that anyway)
        else:
            tail = [ast.If(test=t, body=body, orelse=tail)]
    out = pre + (tail or [ast.Pass()])
    return [_loc(n, s) for n in out]


def _pure_chain(n, forbidden):
    while isinstance(n, ast.Attribute):
        n = n.value
    return isinstance(n, ast.Name) and n.id != forbidden


def _leading_walrus(test):
    """(parent, field, index, NamedExpr) if the first effectful thing the test evaluates is a walrus with a plain-name target"""
    parent, fld, idx, cur = None, None, None, test
    chain = []
    while True:
        if isinstance(cur, ast.NamedExpr):
            if not isinstance(cur.target, ast.Name):
                return None
            for fn in chain:
                if not _pure_chain(fn, cur.target.id):
                    return None
            return parent, fld, idx, cur
        if isinstance(cur, ast.Compare):
            parent, fld, idx, cur = cur, "left", None, cur.left
        elif isinstance(cur, ast.BoolOp):
            parent, fld, idx, cur = cur, "values", 0, cur.values[0]
        elif isinstance(cur, ast.UnaryOp):
            parent, fld, idx, cur = cur, "operand", None, cur.operand
        elif isinstance(cur, ast.BinOp):
            parent, fld, idx, cur = cur, "left", None, cur.left
        elif isinstance(cur, ast.Call) and cur.args and not isinstance(cur.args[0], ast.Starred):
            chain.append(cur.func)
            parent, fld, idx, cur = cur, "args", 0, cur.args[0]
        elif isinstance(cur, ast.Subscript):
            parent, fld, idx, cur = cur, "value", None, cur.value
        elif isinstance(cur, ast.Attribute):
            parent, fld, idx, cur = cur, "value", None, cur.value
        else:
            return None


def _hoist_walrus(s: ast.If):
    found = _leading_walrus(s.test)
    if found is None:
        return None
    parent, fld, idx, w = found
    name = ast.Name(id=w.target.id, ctx=ast.Load())
    ast.copy_location(name, w)
    if parent is None:
        s.test = name
    elif idx is None:
        setattr(parent, fld, name)
    else:
        getattr(parent, fld)[idx] = name
    asg = ast.Assign(targets=[ast.Name(id=w.target.id, ctx=ast.Store())], value=w.value)
    return [_loc(asg, s), s]


class _Lower(ast.NodeTransformer):
    def __init__(self):
        self.counter = [0]
        self.count = 0

    def _block(self, stmts):
        out = []
        for s in stmts:
            s = self.visit(s)
            if isinstance(s, ast.Match):
                new = _lower_match(s, self.counter)
                if new is not None:
                    self.count += 1
                    out.extend(self._block(new) if any(isinstance(x, ast.If) for x in new) else new)
                    continue
            if isinstance(s, ast.If):
                new = _hoist_walrus(s)
                while new is not None:
                    self.count += 1
                    out.append(new[0])
                    new = _hoist_walrus(s)
            out.append(s)
        return out

    def generic_visit(self, node):
        for fld in ("body", "orelse", "finalbody"):
            b = getattr(node, fld, None)
            if isinstance(b, list) and b and isinstance(b[0], ast.stmt):
                setattr(node, fld, self._block(b))
        if isinstance(node, ast.Try):
            for h in node.handlers:
                h.body = self._block(h.body)
        if isinstance(node, ast.Match):
            for c in node.cases:
                c.body = self._block(c.body)
        return node


def lower_module(tree: ast.Module) -> int:
    """rewrite in place; returns the number of constructs lowered"""
    if not any(isinstance(n, (ast.Match, ast.NamedExpr)) for n in ast.walk(tree)):
        return 0
    lw = _Lower()
    lw.visit(tree)
    ast.fix_missing_locations(tree)
    return lw.count
