"""Behaviour-preserving AST normalisation used before the syntax-directed analyses (interval analysis of lab.py).

Each rewrite replaces one spelling of a construct by the canonical spelling the analyses are written for; every rewrite is an
identity on behaviour under its stated side condition, and anything that does not meet the condition is left untouched.

  N1  '<template>'.format(a, b)                  ->  f'<template with {a} {b}>'      (auto/indexed fields, optional format spec)
  N2  keyword spelling of leading parameters     ->  positional                      (np.clip, ndarray.clip, np.tile, nearest, np.linspace)
  N3  k = 0 ... while k < len(X): e = X[k]; B; k += 1  ->  for e in X: B             (k not used in B, no break/continue)
  N4  a, b = (x, y)                              ->  a = x; b = y                    (names not read by the right-hand side)
  N5  not (lo <= x <= hi)                        ->  x < lo or x > hi                (x a plain name)

New nodes take the source position of the node they replace, so reports still point at the original line.
"""
from __future__ import annotations

import ast
import string

_KW = {  # callee last component -> ordered parameter names after the receiver/first positional handled below
    "clip": {"np": ("a", "a_min", "a_max"), "meth": ("min", "max")},
    "tile": {"np": ("A", "reps")},
    "nearest": {"fn": ("x", "a")},
    "linspace": {"np": ("start", "stop", "num")},
}


def _loc(new, old):
    for n in ast.walk(new):
        if not hasattr(n, "lineno") or getattr(n, "lineno", None) is None:
            ast.copy_location(n, old)
        for a in ("lineno", "col_offset", "end_lineno", "end_col_offset"):
            if getattr(n, a, None) is None and hasattr(old, a):
                setattr(n, a, getattr(old, a))
    return new


def _format_to_joined(call: ast.Call):
    """N1"""
    f = call.func
    if not (isinstance(f, ast.Attribute) and f.attr == "format" and isinstance(f.value, ast.Constant) and isinstance(f.value.value, str)):
        return None
    if any(isinstance(a, ast.Starred) for a in call.args) or any(k.arg is None for k in call.keywords):
        return None
    kws = {k.arg: k.value for k in call.keywords}
    auto = [0]

    def field(name):
        if name == "":
            i = auto[0]
            auto[0] += 1
            return call.args[i] if i < len(call.args) else None
        if name.isdigit():
            return call.args[int(name)] if int(name) < len(call.args) else None
        return kws.get(name)

    def pieces(tmpl, nested):
        out = []
        try:
            parsed = list(string.Formatter().parse(tmpl))
        except ValueError:
            return None
        for lit, name, spec, conv in parsed:
            if lit:
                out.append(ast.Constant(value=lit))
            if name is None:
                continue
            if conv is not None:
                return None
            v = field(name)
            if v is None:
                return None
            fs = None
            if spec:
                if nested:
                    return None
                sub = pieces(spec, True)
                if sub is None:
                    return None
                fs = ast.JoinedStr(values=sub)
            out.append(ast.FormattedValue(value=v, conversion=-1, format_spec=fs))
        return out
    ps = pieces(f.value.value, False)
    if ps is None:
        return None
    # merge adjacent literal pieces (ast.unparse and the analyses expect that shape)
    merged = []
    for p in ps:
        if isinstance(p, ast.Constant) and merged and isinstance(merged[-1], ast.Constant):
            merged[-1] = ast.Constant(value=merged[-1].value + p.value)
        else:
            merged.append(p)
    return _loc(ast.JoinedStr(values=merged), call)


def _positional(call: ast.Call):
    """N2"""
    if not call.keywords or any(k.arg is None for k in call.keywords):
        return None
    f = call.func
    last = f.attr if isinstance(f, ast.Attribute) else (f.id if isinstance(f, ast.Name) else None)
    spec = _KW.get(last)
    if spec is None:
        return None
    if isinstance(f, ast.Attribute) and isinstance(f.value, ast.Name) and f.value.id in ("np", "numpy"):
        params = spec.get("np")
    elif isinstance(f, ast.Attribute):
        params = spec.get("meth")
    else:
        params = spec.get("fn")
    if params is None:
        return None
    args = list(call.args)
    kws = {k.arg: k.value for k in call.keywords}
    rest = dict(kws)
    while len(args) < len(params) and params[len(args)] in rest:
        args.append(rest.pop(params[len(args)]))
    if len(args) == len(call.args):
        return None
    new = ast.Call(func=call.func, args=args, keywords=[k for k in call.keywords if k.arg in rest])
    return _loc(new, call)


class _Exprs(ast.NodeTransformer):
    def visit_Call(self, node):
        self.generic_visit(node)
        j = _format_to_joined(node)
        if j is not None:
            return j
        p = _positional(node)
        return p if p is not None else node

    def visit_UnaryOp(self, node):
        self.generic_visit(node)
        # N5
        if isinstance(node.op, ast.Not) and isinstance(node.operand, ast.Compare) and len(node.operand.ops) == 2:
            c = node.operand
            lo, x, hi = c.left, c.comparators[0], c.comparators[1]
            if isinstance(x, ast.Name) and all(isinstance(o, (ast.LtE, ast.Lt)) for o in c.ops):
                inv = {ast.LtE: ast.Lt, ast.Lt: ast.LtE}
                a = ast.Compare(left=ast.Name(id=x.id, ctx=ast.Load()), ops=[inv[type(c.ops[0])]()], comparators=[lo])
                b = ast.Compare(left=ast.Name(id=x.id, ctx=ast.Load()), ops=[{ast.LtE: ast.Gt, ast.Lt: ast.GtE}[type(c.ops[1])]()], comparators=[hi])
                return _loc(ast.BoolOp(op=ast.Or(), values=[a, b]), node)
        return node


def _names(node, ctx=None):
    return {n.id for n in ast.walk(node) if isinstance(n, ast.Name) and (ctx is None or isinstance(n.ctx, ctx))}


def _counter_while(stmts):
    """N3 over one statement list (recursively over nested blocks)"""
    out = []
    for s in stmts:
        for fld in ("body", "orelse", "finalbody"):
            b = getattr(s, fld, None)
            if isinstance(b, list) and b and isinstance(b[0], ast.stmt):
                setattr(s, fld, _counter_while(b))
        if isinstance(s, ast.Try):
            for h in s.handlers:
                h.body = _counter_while(h.body)
        new = _try_counter(s, out)
        out.append(new if new is not None else s)
    return out


def _try_counter(s, before):
    if not (isinstance(s, ast.While) and not s.orelse and isinstance(s.test, ast.Compare) and len(s.test.ops) == 1 and isinstance(s.test.ops[0], ast.Lt)
            and isinstance(s.test.left, ast.Name) and len(s.body) >= 2):
        return None
    k = s.test.left.id
    bound = s.test.comparators[0]
    seq = None
    if isinstance(bound, ast.Call) and isinstance(bound.func, ast.Name) and bound.func.id == "len" and len(bound.args) == 1 and isinstance(bound.args[0], ast.Name):
        seq = bound.args[0].id
    elif isinstance(bound, ast.Attribute) and bound.attr == "size" and isinstance(bound.value, ast.Name):
        seq = bound.value.id
    if seq is None:
        return None
    first, last = s.body[0], s.body[-1]
    if not (isinstance(first, ast.Assign) and len(first.targets) == 1 and isinstance(first.targets[0], ast.Name) and isinstance(first.value, ast.Subscript)
            and isinstance(first.value.value, ast.Name) and first.value.value.id == seq and isinstance(first.value.slice, ast.Name) and first.value.slice.id == k):
        return None
    if not (isinstance(last, ast.AugAssign) and isinstance(last.target, ast.Name) and last.target.id == k and isinstance(last.op, ast.Add)
            and isinstance(last.value, ast.Constant) and last.value.value == 1):
        return None
    mid = s.body[1:-1]
    for st in mid:
        for n in ast.walk(st):
            if isinstance(n, (ast.Break, ast.Continue)):
                return None
            if isinstance(n, ast.Name) and n.id in (k,):
                return None
            if isinstance(n, ast.Name) and n.id == seq and isinstance(n.ctx, ast.Store):
                return None
    # the counter must start at 0: the closest preceding assignment to k in the same block is `k = 0`
    init = None
    for p in reversed(before):
        if isinstance(p, ast.Assign) and len(p.targets) == 1 and isinstance(p.targets[0], ast.Name) and p.targets[0].id == k:
            init = p
            break
        if k in _names(p, ast.Store):
            return None
    if not (init is not None and isinstance(init.value, ast.Constant) and init.value.value == 0 and not isinstance(init.value.value, bool)):
        return None
    new = ast.For(target=ast.Name(id=first.targets[0].id, ctx=ast.Store()), iter=ast.Name(id=seq, ctx=ast.Load()), body=mid or [ast.Pass()], orelse=[])
    return _loc(new, s)


def _split_tuple_assign(stmts):
    """N4"""
    out = []
    for s in stmts:
        for fld in ("body", "orelse", "finalbody"):
            b = getattr(s, fld, None)
            if isinstance(b, list) and b and isinstance(b[0], ast.stmt):
                setattr(s, fld, _split_tuple_assign(b))
        if isinstance(s, ast.Assign) and len(s.targets) == 1 and isinstance(s.targets[0], ast.Tuple) and isinstance(s.value, ast.Tuple) \
                and len(s.targets[0].elts) == len(s.value.elts) and all(isinstance(t, ast.Name) for t in s.targets[0].elts) \
                and not ({t.id for t in s.targets[0].elts} & _names(s.value)):
            for t, v in zip(s.targets[0].elts, s.value.elts):
                out.append(_loc(ast.Assign(targets=[ast.Name(id=t.id, ctx=ast.Store())], value=v), s))
            continue
        out.append(s)
    return out


def normalize_function(fnode: ast.FunctionDef):
    """rewrite the function body in place; returns the number of rewrites (0 = untouched)"""
    if isinstance(fnode, ast.Lambda):
        before = ast.dump(fnode)
        fnode.body = _Exprs().visit(fnode.body)
        if ast.dump(fnode) != before:
            ast.fix_missing_locations(fnode)
            for n in ast.walk(fnode):
                for ch in ast.iter_child_nodes(n):
                    ch._parent = n  # type: ignore[attr-defined]
            return 1
        return 0
    before = ast.dump(fnode)
    for i, st in enumerate(list(fnode.body)):
        fnode.body[i] = _Exprs().visit(st)
    fnode.body = _split_tuple_assign(fnode.body)
    fnode.body = _counter_while(fnode.body)
    changed = ast.dump(fnode) != before
    if changed:
        ast.fix_missing_locations(fnode)
        for n in ast.walk(fnode):
            for ch in ast.iter_child_nodes(n):
                ch._parent = n  # type: ignore[attr-defined]
    return changed
