"""Apply a unified diff to in-memory sources (pure Python: no `patch`/`git` needed, nothing written to disk).

Used for the corpus of behaviour-preserving refactors (neutral/*.diff) and the seeded breaking changes (seeded/*/patch.diff):
both are replayed against the package snapshot they were made for (see CORPUS_BASE below); a diff that does not apply is reported as
`None` (skipped), never guessed."""
from __future__ import annotations

import os
import re

from .srcmodel import PKG

_HUNK = re.compile(r"^@@ -(\d+)(?:,(\d+))? \+(\d+)(?:,(\d+))? @@")


def parse(diff_text):
    """-> {path: [(old_start, [(tag, line)])]} with tag in ' ', '-', '+'"""
    files, cur, hunk = {}, None, None
    for raw in diff_text.splitlines():
        if raw.startswith("diff --git"):
            cur, hunk = None, None
            continue
        if raw.startswith("+++ "):
            path = raw[4:].split("\t")[0].strip()
            if path.startswith("b/"):
                path = path[2:]
            if "/" + PKG + "/" in "/" + path:
                path = PKG + "/" + ("/" + path).split("/" + PKG + "/", 1)[1]     # diff -ru base/opticomlib new/opticomlib
            cur = files.setdefault(path, [])
            hunk = None
            continue
        if raw.startswith("--- ") or raw.startswith("index ") or raw.startswith("new file") or raw.startswith("deleted file") or raw.startswith("similarity"):
            continue
        m = _HUNK.match(raw)
        if m and cur is not None:
            hunk = (int(m.group(1)), [])
            cur.append(hunk)
            continue
        if hunk is not None and raw[:1] in (" ", "-", "+"):
            hunk[1].append((raw[0], raw[1:]))
        elif hunk is not None and raw == "":
            hunk[1].append((" ", ""))
        elif raw.startswith("\\"):
            continue
    return files


def apply_to_text(text, hunks):
    lines = text.split("\n")
    out, pos = [], 0
    for start, body in hunks:
        old = [l for t, l in body if t in " -"]
        new = [l for t, l in body if t in " +"]
        # trailing blank context produced by the "" rule may overshoot the file end
        while old and old[-1] == "" and new and new[-1] == "" and len(old) > 1 and start - 1 + len(old) > len(lines):
            old.pop()
            new.pop()
        want = start - 1
        found = None
        for delta in sorted(range(-200, 201), key=abs):
            i = want + delta
            if i < pos or i + len(old) > len(lines):
                continue
            if [x.rstrip() for x in lines[i:i + len(old)]] == [x.rstrip() for x in old]:
                found = i
                break
        if found is None:
            return None
        out.extend(lines[pos:found])
        out.extend(new)
        pos = found + len(old)
    out.extend(lines[pos:])
    return "\n".join(out)


def patched_sources(diff_path, root="/repo", base=None):
    """{module name: new source} for the package modules the diff touches, or None if it does not apply to the current tree.
    `base`: sources already patched by another diff (a seeded change made on top of a refactored tree)"""
    with open(diff_path, encoding="utf-8") as fh:
        files = parse(fh.read())
    out = dict(base or {})
    touched = False
    for path, hunks in files.items():
        if not (path.startswith(PKG + "/") and path.endswith(".py")):
            continue
        mod = os.path.basename(path)[:-3]
        if mod in out:
            text = out[mod]
        else:
            full = os.path.join(root, path)
            if not os.path.exists(full):
                return None
            with open(full, encoding="utf-8") as fh:
                text = fh.read()
        new = apply_to_text(text, hunks)
        if new is None:
            return None
        if new != text:
            out[mod] = new
            touched = True
    return out if (touched or base) and out else None


# The stored corpora (neutral/, feature/, seeded/) were made against - or rebased onto - one snapshot of the package, kept under
# /verif/bases/<commit>/.  They are replayed against THAT snapshot, not against /repo, so that a later repair in /repo does not
# invalidate them; what a check reports on the bare snapshot (defects repaired since) is subtracted from what it reports on
# snapshot + diff: a stored diff is judged by what it ADDS.
CORPUS_COMMIT = "e42fd5a"
_BASES = os.path.join(os.path.dirname(os.path.dirname(os.path.abspath(__file__))), "bases")
CORPUS_BASE = os.path.join(_BASES, CORPUS_COMMIT)


def snapshot_of(path):
    """the snapshot a stored diff / seeded change was made for: `snapshot` in the seed's meta.json (or in <diff>.json next to a diff
    file) when that snapshot is kept under bases/, the first corpus snapshot otherwise"""
    import json
    meta = os.path.join(path, "meta.json") if os.path.isdir(path) else path + ".json"
    try:
        snap = json.load(open(meta)).get("snapshot")
    except Exception:
        snap = None
    return snap if snap and os.path.isdir(os.path.join(_BASES, snap)) else CORPUS_COMMIT


def base_sources(snapshot=None):
    """{module: source} of the whole package at a corpus snapshot"""
    d = os.path.join(_BASES, snapshot or CORPUS_COMMIT, PKG)
    return {f[:-3]: open(os.path.join(d, f), encoding="utf-8").read() for f in sorted(os.listdir(d)) if f.endswith(".py")}


def stored_sources(path):
    """sources for a stored diff (file) or a stored seeded change (directory): its corpus snapshot with the diff applied; None if it
    does not apply"""
    snap = snapshot_of(path)
    root = os.path.join(_BASES, snap)
    src = seeded_sources(path, root) if os.path.isdir(path) else patched_sources(path, root)
    if src is None:
        return None
    full = base_sources(snap)
    full.update(src)
    return full


_BASELINE = {}


def baseline(prop, tier="quick", snapshot=None):
    """what the check of `prop` reports on a bare corpus snapshot: (exact keys, (rule, function, diagnosis) triples)"""
    snapshot = snapshot or CORPUS_COMMIT
    if (prop, snapshot) not in _BASELINE:
        from .__main__ import analyse
        from .core import HOLDS
        try:
            _mod, ctx = analyse(prop, "/repo", tier, sources=base_sources(snapshot))
            bad = [r for r in ctx.results if r.status != HOLDS]
        except Exception:
            bad = []
        _BASELINE[(prop, snapshot)] = ({r.key() for r in bad}, {(r.rule, r.func, r.msg[:50]) for r in bad} | {(r.rule, None, r.construct[:80]) for r in bad})
    return _BASELINE[(prop, snapshot)]


def added(prop, results, path=None):
    """the results a stored diff adds to what its bare snapshot already gives"""
    exact, loose = baseline(prop, snapshot=snapshot_of(path) if path else None)
    # the same clause on the same function with the same diagnosis (the construct quoted may be spelt differently after a refactor)
    # ... or the same clause with the same diagnosis in a function the diff renamed or split off
    return [r for r in results if r.key() not in exact and (r.rule, r.func, r.msg[:50]) not in loose and (r.rule, None, r.construct[:80]) not in loose]


def seeded_sources(seed_dir, root="/repo"):
    """sources for a stored seeded change: its patch, applied on top of its recorded base diff if it has one"""
    import json
    base = None
    try:
        meta = json.load(open(os.path.join(seed_dir, "meta.json")))
    except Exception:
        meta = {}
    if meta.get("base_diff"):
        verif = os.path.dirname(os.path.dirname(os.path.abspath(__file__)))
        base = patched_sources(os.path.join(verif, meta["base_diff"]), root)
        if base is None:
            return None
    return patched_sources(os.path.join(seed_dir, "patch.diff"), root, base)
