"""C01 - signal containers: shape/noise contract, operators return fresh objects, operands untouched."""
from __future__ import annotations

import ast
import copy
import itertools

from ..absint import Interp, ObjV, State
from ..effects import Effects, SAMPLE_FIELDS
from ..forms import Const, Form, SliceV, TupleV, mk_fn
from ..rules import S, body_nodes, find_raise_guards
from ..srcmodel import src_of

EXPLANATION = (
    "Ownership/effect summaries (fixpoint over the call graph, flow-sensitive alias classes fresh / view-of-argument) and value-form "
    "abstract interpretation of typing.electrical_signal / optical_signal, each method analysed for both dynamic receiver classes. "
    "C01.1: both constructors store only freshly allocated arrays (np.array / astype / str2array results), and every operator, slice, "
    "copy and transform returns an object whose signal/noise alias no operand. C01.2: no method writes an operand's arrays or sample "
    "fields. C01.3: results are constructed by the receiver's dynamic class, and a rebuilt optical object is given no n_pol other than the receiver's. C01.4: both constructors are interpreted for every layout "
    "class of the input (ndim 0/1/2, first-axis length 1/2, n_pol None/1/2, noise given or not; shapes equal or not): mismatching shapes "
    "never construct (ValueError), the array stored for `noise` is the one stored for `signal` with signal replaced by noise, and the optical constructor stores one axis for one polarisation and two for two. "
    "C01.5/6: in each of the four (self.noise, other.noise) None-cases the linear form of result.signal+result.noise equals the "
    "sum/difference of the operands' total fields and noise is present iff an operand has it; a raw (scalar/array) operand enters the "
    "arithmetic unaltered (no cast to the receiver's dtype). C01.7: decided on six length classes (lengths are only compared with each "
    "other and with 1): differing lengths with other.len != 1 raise ValueError, the others construct. C01.8: slicing applies one index "
    "to signal and noise (last axis, full first axis for two polarisations); copy(n) is self[:n] with n defaulting to len(); len() is "
    "shape[1] or size per ndim class. "
    "Not decided: dtype promotion results, numpy broadcasting, bit-for-bit values.")
EXPLANATION += (" Added after the audit wave: C01.6 in the branch where only the other operand carries noise, the noise handed to the constructor takes the result's shape (it mentions the receiver's arrays or was broadcast to a shape that does), because the length guard admits a one-sample operand; C01.8 an index that is a numpy integer (an Integral that is not an int) takes the integer branch of optical_signal.__getitem__; C01.7 accepts either outcome for a one-sample RECEIVER against a longer operand (the statement does not settle it).")
EXPLANATION += (" Second audit wave: C01.6 the shape clause also covers __mul__/__rmul__; C01.4 for a text or array input without dtype one alternative of the stored signal is an astype to a numeric type (0/1 text and booleans must not be stored as bool arrays: numpy's bool + is OR).")
EXPLANATION += (' Wave 14: C01.9 / C01.10 are the transform table of C02 (C02.1 / C02.2) reported under this property: the domain transforms return fft / ifft of signal and noise along the last axis with no length argument (a padded transform is longer than the operand).')
TRUSTED = ["numpy.array copies by default; basic slicing returns views; arithmetic allocates", "utils.str2array returns a fresh array", "CPython ast"]

OPS = ["__add__", "__radd__", "__sub__", "__rsub__", "__mul__", "__rmul__"]
CLASSES = ["electrical_signal", "optical_signal"]
FRESH_METHODS = OPS + ["__getitem__", "__call__", "copy"]


def rule_ownership(ctx, eff: Effects):
    pkg = ctx.pkg
    for cls in CLASSES:
        init = pkg.find_method("typing", cls, "__init__")
        s = eff.sum[init.qualname]
        bad = sorted(s.stored)
        if bad:
            # locate the aliasing construct
            node = _alias_site(init) or init.node
            ctx.violation("C01.1", init, node, f"{cls}.__init__ stores {', '.join(p + path for p, path in bad)} without copying",
                          f"the constructor may keep a reference to the caller's array ({', '.join(p for p, _ in bad)}): objects built from an ndarray share memory with it")
        else:
            ctx.holds("C01.1", init, init.node, f"{cls}.__init__ stored arrays", "signal and noise are fresh copies (np.array / astype / str2array)")
        for meth in FRESH_METHODS:
            m = pkg.find_method("typing", cls, meth)
            if m is None:
                ctx.unknown("C01.1", None, None, f"{cls}.{meth}", "method not found")
                continue
            if m.cls != cls and cls == "optical_signal":
                pass  # inherited: the same summary applies with the subclass constructor (also analysed)
            sm = eff.sum[m.qualname]
            roots = [(p, path) for (p, path) in sm.ret if not path.endswith((".size", ".shape", ".ndim", ".dtype", ".execution_time", ".n_pol"))]
            eff._ann = eff._annotations(m)
            roots = [(p, path) for (p, path) in roots if not (path == "" and eff._is_scalar_param(m, p))]      # option strings / flags / numbers are not buffers
            if roots:
                ctx.violation("C01.1", m, m.node, f"{cls}.{meth} result may alias {sorted(set(p + path for p, path in roots))}",
                              "the returned object shares memory with an operand (or is the operand itself)")
            else:
                ctx.holds("C01.1", m, m.node, f"{cls}.{meth} result", "fresh object: fields alias no operand")
            muts = {k: n for k, n in sm.mutates.items()}
            fw = {k: n for k, n in sm.attr_writes.items() if k[2] in SAMPLE_FIELDS and not (k[0] == "self" and m.name == "__init__")}
            if muts or fw:
                k, n = next(iter({**muts, **fw}.items()))
                ctx.violation("C01.2", m, n, f"{cls}.{meth}: {src_of(n)[:160]}", f"writes into operand data {k[0]}{k[1]} in place: the operand is not left unchanged")
            else:
                ctx.holds("C01.2", m, m.node, f"{cls}.{meth} operands", "no in-place write to self/other data")


def _alias_site(init):
    for n in ast.walk(init.node):
        if isinstance(n, ast.Call) and src_of(n.func).split(".")[-1] in ("asarray", "asanyarray", "squeeze", "ascontiguousarray", "atleast_1d", "atleast_2d"):
            return n
        if isinstance(n, ast.keyword) and n.arg == "copy" and isinstance(n.value, ast.Constant) and n.value.value is False:
            return n._parent if hasattr(n, "_parent") else None
    return None


def total(obj: ObjV):
    s = obj.fields.get("signal")
    n = obj.fields.get("noise")
    if isinstance(n, Const) and n.v is None:
        return s, False
    if isinstance(s, Form) and isinstance(n, Form):
        return s + n, True
    return None, None


def _mentions_self(v):
    return "self." in repr(v)


def rule_operators(ctx):
    pkg = ctx.pkg
    for cls in CLASSES:
        for meth in OPS:
            m = pkg.find_method("typing", cls, meth)
            for sn, on in itertools.product(("none", "notnone"), repeat=2):
                case = f"{cls}.{meth} [self.noise {sn}, other.noise {on}]"
                it = Interp(pkg, self_class=cls, param_classes={"other": cls}, assumptions={"self.noise": sn, "other.noise": on})
                outs = it.run(m)
                rets = [o for o in outs if o.kind == "return"]
                if len(rets) != 1 or not isinstance(rets[0].value, ObjV):
                    ctx.unknown("C01.5", m, m.node, case, f"{len(rets)} return paths (branch table not exhaustive or not decided by None-ness)")
                    continue
                out, node = rets[0].value, rets[0].node
                ctx.check("C01.3", out.cls == cls, m, node, f"{case} result class = {out.cls}", "receiver's dynamic class", f"result is a {out.cls}, not the receiver's class {cls}")
                if cls == "optical_signal" and "n_pol" in out.fields:
                    npv = out.fields["n_pol"]
                    npa = npv.single_atom() if isinstance(npv, Form) else None
                    ok_np = (isinstance(npv, Form) and (npv == S("self.n_pol") or npv == S("other.n_pol") or (npa is not None and npa[0] == "fn" and npa[1] == "n_pol_of") or npv.rational() in (1, 2))) \
                        or (isinstance(npv, Const) and npv.v is None)
                    ctx.check("C01.3", ok_np, m, node, f"{case} result n_pol = {npv!r}"[:200], "the operands' polarisation layout (given or derived from the array)",
                              f"the result's polarisation count is {npv!r}: not the operand's layout nor derived from the array (an argument landed in the n_pol slot of the constructor), so slicing the result misreads its layout"[:400])
                if meth in ("__mul__", "__rmul__"):
                    if sn == "none" and on == "notnone" and isinstance(out.fields.get("noise"), Form):
                        nz = out.fields.get("noise")
                        shaped = _mentions_self(nz) or any(v == nz and _mentions_self(shp) for v, shp in it.broadcasts)
                        ctx.check("C01.6", shaped, m, node, f"{case}: noise of the result takes the result's shape", "noise mentions the receiver's arrays or is broadcast to a shape that does",
                                  f"the result's noise is {nz!r} as it stands in the other operand: a one-sample operand with noise (accepted by the length guard) gives a signal of "
                                  "the receiver's length with a one-sample noise, which the constructor rejects with ValueError instead of broadcasting"[:500])
                    sig = out.fields.get("signal")
                    ctx.check("C01.5", isinstance(sig, Form) and sig == S("self.signal") * S("other.signal"), m, node, f"{case} signal = {sig!r}", "product of the signals", "signal part is not self.signal*other.signal")
                    continue
                tot, has_noise = total(out)
                st = S("self.signal") + (S("self.noise") if sn == "notnone" else 0)
                ot = S("other.signal") + (S("other.noise") if on == "notnone" else 0)
                want = {"__add__": st + ot, "__radd__": st + ot, "__sub__": st - ot, "__rsub__": ot - st}[meth]
                if tot is None:
                    ctx.unknown("C01.5", m, node, case, "result fields are not arithmetic forms")
                    continue
                ctx.check("C01.5", tot == want, m, node, f"{case}: signal+noise = {tot!r}", f"equals {want!r}",
                          f"total field of the result is {tot!r}, expected {want!r}")
                if sn == "none" and on == "notnone" and has_noise:
                    # the other operand may be one sample long (the guard accepts it): the noise handed to the constructor must take the
                    # result's shape, i.e. its value mentions the receiver's arrays or was broadcast to a shape that does
                    nz = out.fields.get("noise")
                    shaped = _mentions_self(nz) or any(v == nz and _mentions_self(shp) for v, shp in it.broadcasts)
                    ctx.check("C01.6", shaped, m, node, f"{case}: noise of the result takes the result's shape", "noise mentions the receiver's arrays or is broadcast to a shape that does",
                              f"the result's noise is {nz!r} as it stands in the other operand: a one-sample operand with noise (accepted by the length guard) gives a signal of "
                              "the receiver's length with a one-sample noise, which the constructor rejects with ValueError instead of broadcasting"[:500])
                ctx.check("C01.6", has_noise == (sn == "notnone" or on == "notnone"), m, node, f"{case}: result has noise = {has_noise}", "noise iff an operand has noise",
                          "result carries noise although no operand does" if has_noise else "an operand's noise component is dropped")
            # scalar operand: wrapped by the constructor, same class
            it = Interp(pkg, self_class=cls, assumptions={"self.noise": "none", "other": ("notinst", "electrical_signal", "optical_signal")})
            outs = it.run(m)
            rets = [o for o in outs if o.kind == "return"]
            ok = len(rets) == 1 and isinstance(rets[0].value, ObjV) and rets[0].value.cls == cls
            ctx.check("C01.3", ok, m, rets[0].node if rets else m.node, f"{cls}.{meth} [raw operand] result class", "raw operand wrapped by the receiver's class", "a raw (scalar/array) operand does not yield an object of the receiver's class")
            if ok:
                # the raw operand enters the arithmetic with its own value (no cast to the receiver's element type)
                sig = rets[0].value.fields.get("signal")
                a_, b_ = S("self.signal"), S("other")
                want = {"__add__": a_ + b_, "__radd__": a_ + b_, "__sub__": a_ - b_, "__rsub__": b_ - a_, "__mul__": a_ * b_, "__rmul__": a_ * b_}[meth]
                ctx.check("C01.5", isinstance(sig, Form) and sig == want, m, rets[0].node, f"{cls}.{meth} [raw operand]: signal = {sig!r}"[:300], f"equals {want!r}",
                          f"with a raw (scalar/array) operand the result's signal is {sig!r}, expected {want!r}: the operand is altered (e.g. cast to the signal's dtype, which truncates a float or drops an imaginary part) before the arithmetic"[:500])
    # __call__, copy, __getitem__ class preservation
    for cls in CLASSES:
        cases = [("__call__", {"domain": d, "shift": sh, "self.noise": nz}) for d in ("w", "t") for sh in (True, False) for nz in ("none", "notnone")]
        cases += [(mm, {"n": None, "self.noise": nz, "self.n_pol": npol} if mm == "copy" else {"self.noise": nz, "self.n_pol": npol})
                  for mm in ("copy", "__getitem__") for nz in ("none", "notnone") for npol in (1, 2)]
        for meth, ass in cases:
            m = pkg.find_method("typing", cls, meth)
            it = Interp(pkg, self_class=cls, assumptions=ass)
            outs = it.run(m)
            rets = [o for o in outs if o.kind == "return"]
            ok = len(rets) >= 1 and all(isinstance(r.value, ObjV) and r.value.cls == cls for r in rets)
            ctx.check("C01.3", ok, m, rets[0].node if rets else m.node, f"{cls}.{meth} result class [{', '.join(f'{k}={v}' for k, v in sorted(ass.items()))}]", "receiver's dynamic class", f"{meth} does not return an object of the receiver's class {cls}")


def rule_length_guard(ctx):
    """decided on length classes: the operands' lengths are touched only through ==/!= comparisons with each other and with 1,
    so the five orderings (equal, other == 1, self == 1, both different and > 1 either way) cover every pair of lengths"""
    pkg = ctx.pkg
    a, b = mk_fn("siglen", [S("self.signal")]), mk_fn("siglen", [S("other.signal")])
    for cls in CLASSES:
        for meth in ["__add__", "__sub__", "__rsub__", "__mul__"] + (["__gt__", "__lt__"] if cls == "electrical_signal" else []):
            m = pkg.find_method("typing", cls, meth)
            probs, where = [], m.node
            for la, lb in ((5, 3), (3, 5), (1, 5), (5, 5), (5, 1), (1, 1)):
                it = Interp(pkg, self_class=cls, param_classes={"other": cls}, assumptions={"self.noise": "none", "other.noise": "none"},
                            valuation=[(a, la), (b, lb)])
                outs = it.run(m)
                rets = [o for o in outs if o.kind == "return"]
                must_raise = la != lb and lb != 1
                if must_raise and la == 1:
                    # "length-1 operands broadcast" read for the receiver too: a one-sample receiver may be rejected (as today) or
                    # broadcast - the statement does not settle which, so neither outcome is reported; any other exception is
                    if not rets and (not outs or outs[-1].exc != "ValueError"):
                        probs.append(f"lengths {la} and {lb} raise {outs[-1].exc if outs else None}, documented ValueError")
                        where = outs[-1].node if outs else m.node
                    continue
                if must_raise:
                    if rets:
                        probs.append(f"lengths {la} and {lb} are not rejected")
                        where = rets[0].node
                    elif not outs or outs[-1].exc != "ValueError":
                        probs.append(f"lengths {la} and {lb} raise {outs[-1].exc if outs else None}, documented ValueError")
                        where = outs[-1].node if outs else m.node
                elif not rets:
                    probs.append(f"lengths {la} and {lb} (compatible) are rejected")
                    where = outs[-1].node if outs else m.node
            if probs:
                ctx.violation("C01.7", m, where, f"{cls}.{meth}: length guard", "no `self.len() != other.len() and other.len() != 1 -> ValueError` behaviour: " + "; ".join(probs[:3]))
            else:
                ctx.holds("C01.7", m, m.node, f"{cls}.{meth}: length guard", "lengths differ and other.len != 1 -> ValueError; equal lengths or a one-sample operand accepted (6 length classes)")


def _find_if(fi, src):
    for n in ast.walk(fi.node):
        if isinstance(n, ast.If) and src_of(n.test) == src:
            return n
    return None


def _rename(node, a, b):
    n = copy.deepcopy(node)
    for x in ast.walk(n):
        if isinstance(x, ast.Name) and x.id == a:
            x.id = b
    return n


def _mirror(v):
    """the value with every occurrence of the local `signal` replaced by `noise`"""
    from ..absint import VecV
    from ..forms import subst_value

    def fn(a):
        if a[0] == "sym" and (a[1] == "signal" or a[1].startswith("signal.")):
            return Form.sym("noise" + a[1][6:])
        return None
    if isinstance(v, VecV):
        return VecV([_mirror(i) for i in v.items])
    if isinstance(v, TupleV):
        return TupleV([_mirror(i) for i in v.items], v.kind)
    return subst_value(v, fn)


def _stored_layout(it, cls):
    """(signal, noise) values the constructor ends up storing on the analysed path"""
    if cls == "optical_signal":
        recs = [r for r in it.calls if r.callee and r.callee.endswith("_SuperV>.__init__") and r.depth == 0]
        if len(recs) != 1:
            return None
        r = recs[0]
        names = ["signal", "noise", "dtype"]
        vals = dict(zip(names, r.args))
        vals.update({k: v for k, v in r.kwargs.items() if k in names})
        return vals.get("signal"), vals.get("noise", Const(None)), r.node
    sig = [x for x in it.store_log if x[5] == 0 and x[2][0] == "attr" and x[2][2] == "signal"]
    noi = [x for x in it.store_log if x[5] == 0 and x[2][0] == "attr" and x[2][2] == "noise"]
    if len(sig) != 1 or len(noi) != 1:
        return None
    return sig[0][3], noi[0][3], sig[0][1]


def rule_numeric_storage(ctx, rule="C01.4", classes=None):
    """a signal container holds numbers: 0/1 text (str2array reads it as a bool bit pattern) and boolean arrays are promoted to a
    numeric dtype before they are stored - numpy's bool arithmetic is logical (+ is OR, - raises), so the sum / difference laws
    of the statement fail on such operands. Decided on the value stored for `signal` when no dtype is given: one alternative of
    it must be an astype to a numeric type object."""
    from ..absint import ClassRef
    pkg = ctx.pkg
    numeric = lambda c: isinstance(c, ClassRef) and c.name.split(".")[-1] not in ("bool", "bool_", "str", "object") and not c.name.startswith("?")

    def promoted(v, depth=0):
        if not isinstance(v, Form) or depth > 12:
            return False
        for a in v.atoms():
            if a[0] == "fn" and a[1] == "astype" and len(a[2]) == 2 and numeric(a[2][1]):
                return True
        return False
    for cls in (classes or CLASSES):
        m = pkg.find_method("typing", cls, "__init__")
        for kind in ("text", "array"):
            it = Interp(pkg, self_class=cls, assumptions={"signal": ("inst", "str") if kind == "text" else ("notinst", "str"), "noise": None, "dtype": None, "signal.ndim": 1})
            it.keep_astype = True
            it.run(m)
            r = _stored_layout(it, cls)
            case = f"{cls}(signal given as {kind}, no dtype): boolean data stored as numbers"
            if r is None or not isinstance(r[0], Form):
                ctx.unknown(rule, m, m.node, case, "stored signal not identified")
                continue
            if kind == "array":
                # both components given as boolean data: np.result_type(bool, bool) is bool, so neither promotes the other - each needs
                # its own way to a numeric type (a bool noise next to an int signal adds as a logical OR in x + y and raises in x - y)
                it2 = Interp(pkg, self_class=cls, assumptions={"signal": ("notinst", "str"), "noise": ("notinst", "str"), "dtype": None, "signal.ndim": 1, "noise.ndim": 1})
                it2.keep_astype = True
                it2.run(m)
                r2 = _stored_layout(it2, cls)
                case2 = f"{cls}(signal and noise given, no dtype): boolean data stored as numbers in both components"
                if r2 is None or not isinstance(r2[0], Form) or not isinstance(r2[1], Form):
                    ctx.unknown(rule, m, m.node, case2, "stored arrays not identified")
                else:
                    lacking = [nm for nm, v_ in (("signal", r2[0]), ("noise", r2[1])) if not promoted(v_)]
                    ctx.check(rule, not lacking, m, r2[2], case2, "an astype to a numeric type on the way to each stored array",
                              f"the array stored for `{lacking[0] if lacking else ''}` reaches the object without a cast to a numeric type when both components are boolean (0/1 text, lists of bools): "
                              "result_type(bool, bool) is bool, the component stays a bool array and x + y combines it as a logical OR (total field 3 where the operands' sum to 4), x - y raises TypeError")
            ctx.check(rule, promoted(r[0]), m, r[2], case, "an astype to a numeric type on the path to the stored array",
                      f"the array stored for `signal` is {short(r[0], 140)}: " + ("0/1 text parsed by str2array is a bool array" if kind == "text" else "a list or array of booleans stays bool") +
                      " and is stored as it is - '1 1 0' + '1 0 1' is then the logical OR, '-' raises TypeError and signal+noise never reaches 2")


def short(v, n):
    r = repr(v)
    return r if len(r) <= n else r[:n] + "..."


def rule_ctor_symmetry(ctx):
    """the constructors are interpreted for every layout class of the input (ndim, first-axis length, n_pol, noise given or not);
    shapes are touched only through ==/!= and the comparisons of ndim/shape[0] with 0, 1, 2, so the classes are exhaustive"""
    pkg = ctx.pkg
    shape0 = Form.atom(("idx", S("signal.shape"), Form.num(0)))
    for cls in CLASSES:
        init = pkg.find_method("typing", cls, "__init__")
        base = {"noise": ["notnone", ("notinst", "str", "electrical_signal", "optical_signal", "binary_sequence", "bytes")], "signal": ["notnone", ("notinst", "str", "electrical_signal", "optical_signal", "binary_sequence", "bytes")], "dtype": None}   # np.array(signal) is never None
        # shape-equality guard: mismatching shapes never construct an object
        for ndim in (0, 1, 2):
            ass = dict(base)
            ass["signal.ndim"] = ndim
            for sa, sb in ((7, 9), (7, 7)):
                it = Interp(pkg, self_class=cls, assumptions=ass, valuation=[(S("signal.shape"), sa), (S("noise.shape"), sb), (S("signal.size"), 6), (shape0, 2)])
                outs = it.run(init)
                rets = [o for o in outs if o.kind == "return"]
                if sa != sb:
                    ok = not rets and bool(outs) and outs[-1].exc == "ValueError"
                    ctx.check("C01.4", ok, init, (rets[0].node if rets else (outs[-1].node if outs else init.node)), f"{cls}.__init__: signal/noise shape guard [ndim={ndim}]", "shape mismatch -> ValueError",
                              "signal and noise of different shapes are accepted" if rets else f"shape mismatch raises {outs[-1].exc if outs else None}, documented ValueError")
                elif not (cls == "electrical_signal" and ndim == 2):
                    ctx.check("C01.4", bool(rets), init, outs[-1].node if outs else init.node, f"{cls}.__init__: equal shapes accepted [ndim={ndim}]", "constructs", "signal and noise of equal shapes are rejected")
        # layout normalisation applied identically to signal and noise
        cases = []
        if cls == "electrical_signal":
            cases = [({"signal.ndim": 0}, []), ({"signal.ndim": 1}, [])]
        else:
            for npol in (None, 1, 2):
                cases.append(({"signal.ndim": 0, "n_pol": npol}, []))
                cases.append(({"signal.ndim": 1, "n_pol": npol}, []))
                for rows in (1, 2):
                    cases.append(({"signal.ndim": 2, "n_pol": npol}, [(shape0, rows)]))
        for extra, val in cases:
            for noise in ("notnone", "none"):
                ass = dict(base)
                ass.update(extra)
                ass["noise"] = ["notnone", ("notinst", "str", "electrical_signal", "optical_signal", "binary_sequence", "bytes")] if noise == "notnone" else None
                nd = extra["signal.ndim"]
                more = []
                if noise == "notnone":
                    ass["noise.ndim"] = nd          # past the shape guard the noise has the signal's shape, hence its number of axes
                if nd >= 1:
                    # a row of the array has one axis less (a helper may ask the row for its ndim)
                    from ..forms import mk_attr, mk_idx
                    more = [(mk_attr(mk_idx(S(nm), Form.num(0)), "ndim"), nd - 1) for nm in ("signal", "noise")]
                it = Interp(pkg, self_class=cls, assumptions=ass, valuation=val + [(S("signal.size"), 6)] + more)
                outs = it.run(init)
                rets = [o for o in outs if o.kind == "return"]
                case = f"{cls}.__init__ layout [" + ", ".join(f"{k}={v}" for k, v in sorted(extra.items(), key=str)) + (f", shape[0]={val[0][1]}" if val else "") + f", noise {noise}]"
                if not rets:
                    # rejected layouts (e.g. 2 rows with n_pol=1 is a slice, never an error; electrical 2-D is an error) carry no obligation
                    continue
                lay = _stored_layout(it, cls) if len(rets) == 1 else None
                if lay is None:
                    ctx.unknown("C01.4", init, init.node, case, "stored signal/noise not identified on this path")
                    continue
                sig, noi, node = lay
                if cls == "optical_signal":
                    # the stored array has one axis for one polarisation and two for two: (N,) or (2, N) - also for scalar input
                    want_rank = extra.get("n_pol") if extra.get("n_pol") is not None else (2 if extra["signal.ndim"] == 2 else 1)
                    got_rank = _rank(sig, extra["signal.ndim"])
                    if got_rank is not None:
                        ctx.check("C01.4", got_rank == want_rank, init, node, f"{case}: stored signal {sig!r} has {got_rank} axis/axes"[:300], f"{want_rank} (one per polarisation layout)",
                                  f"the constructor stores an array with {got_rank} axis/axes for a {want_rank}-polarisation object: len(), slicing and arithmetic then read the polarisation axis as the sample axis")
                if noise == "none":
                    ctx.check("C01.4", isinstance(noi, Const) and noi.v is None, init, node, case, "noise stays None", f"noise becomes {noi!r} although none was given")
                else:
                    want = _mirror(sig)
                    ctx.check("C01.4", vkey_eq(noi, want), init, node, f"{case}: signal -> {sig!r}"[:300], "noise reshaped identically",
                              f"signal is laid out as {sig!r} but noise as {noi!r} (expected {want!r}): signal and noise end up with different shapes"[:400])


def _rank(v, ndim):
    """number of axes of a stored layout built from the local `signal` (which has `ndim` axes); None when not determined"""
    from ..absint import VecV
    from ..forms import SliceV
    if isinstance(v, VecV) or isinstance(v, TupleV):
        rs = [_rank(i, ndim) for i in v.items]
        return None if not rs or any(r is None or r != rs[0] for r in rs) else 1 + rs[0]
    if isinstance(v, Const):
        return 0 if isinstance(v.v, (int, float, complex)) and not isinstance(v.v, bool) else None
    if not isinstance(v, Form):
        return None
    if v.const_value() is not None:
        return 0
    a = v.single_atom()
    if a is None:
        return None
    if a[0] == "sym":
        return ndim if a[1] in ("signal", "noise") else None
    if a[0] == "fn" and a[1] in ("array", "asarray", "astype", "copy", "real", "conj") and a[2]:
        return _rank(a[2][0], ndim)
    if a[0] == "idx":
        base = _rank(a[1], ndim)
        if base is None:
            return None
        idxs = a[2].items if isinstance(a[2], TupleV) else [a[2]]
        r = base
        for i in idxs:
            if isinstance(i, Const) and i.v is None:
                r += 1
            elif isinstance(i, SliceV):
                pass
            elif isinstance(i, Form) and i.rational() is not None:
                r -= 1
            else:
                return None
        return r if r >= 0 else None
    return None


def vkey_eq(a, b):
    from ..forms import vkey
    try:
        return vkey(a) == vkey(b)
    except Exception:
        return a == b


def _blocks(n):
    for fld in ("body", "orelse"):
        b = getattr(n, fld, None)
        if isinstance(b, list) and b and isinstance(b[0], ast.stmt):
            yield b


def rule_slicing(ctx):
    pkg = ctx.pkg
    # electrical_signal.__getitem__ and optical n_pol == 1
    for cls, npol in (("electrical_signal", None), ("optical_signal", 1), ("optical_signal", 2)):
        m = pkg.find_method("typing", cls, "__getitem__")
        for noise in ("none", "notnone"):
            for kind in ("slice", "int", "numpy int"):
                ass = {"self.noise": noise}
                if npol is not None:
                    ass["self.n_pol"] = npol
                pname = m.params[1]
                ass[pname] = ("inst", "int") if kind == "int" else ("inst", "numpy.integer") if kind == "numpy int" else ("inst", "slice")
                it = Interp(pkg, self_class=cls, assumptions=ass)
                outs = it.run(m)
                rets = [o for o in outs if o.kind == "return"]
                case = f"{cls}.__getitem__ [n_pol={npol} noise={noise} index={kind}]"
                if len(rets) != 1 or not isinstance(rets[0].value, ObjV):
                    ctx.unknown("C01.8", m, m.node, case, f"{len(rets)} return paths")
                    continue
                o = rets[0].value
                sig, nz = o.fields.get("signal"), o.fields.get("noise")
                sa = sig.single_atom() if isinstance(sig, Form) else None
                if not (sa and sa[0] == "idx" and sa[1] == S("self.signal")):
                    ctx.violation("C01.8", m, rets[0].node, f"{case} signal = {sig!r}", "result signal is not an indexing of self.signal")
                    continue
                idx = sa[2]
                idx_ok = True
                why = ""
                if npol == 2:
                    items = idx.items if isinstance(idx, TupleV) else None
                    full = items and isinstance(items[0], SliceV) and all(isinstance(x, Const) and x.v is None for x in (items[0].lo, items[0].hi, items[0].step))
                    if not (items and full and items[1] == S(pname)):
                        idx_ok, why = False, f"two-polarisation index {idx!r} is not [:, {pname}]: it must select samples on the last axis in both rows"
                    elif kind in ("int", "numpy int") and not (len(items) == 3):
                        idx_ok, why = False, "an integer index must keep the sample axis (np.newaxis) for two polarisations" + (
                            ": a numpy integer (np.int64(k), the result of np.argmax) is not a python int - x[np.int64(k)] hands the two polarisation samples "
                            "to the constructor as one row, the result is a ONE-polarisation signal of two time samples" if kind == "numpy int" else "")
                else:
                    if not (isinstance(idx, Form) and idx == S(pname)):
                        idx_ok, why = False, f"index {idx!r} is not the requested `{pname}`"
                if noise == "notnone":
                    na = nz.single_atom() if isinstance(nz, Form) else None
                    if not (na and na[0] == "idx" and na[1] == S("self.noise") and na[2] == idx):
                        idx_ok, why = False, f"noise is indexed differently from the signal ({nz!r}): the selected samples of signal and noise differ"
                else:
                    if not (isinstance(nz, Const) and nz.v is None):
                        idx_ok, why = False, "a noise component appears for a noise-free object"
                ctx.check("C01.8", idx_ok, m, rets[0].node, case, "same index on signal and noise, last axis", why)
    # copy(n) is self[:n], n defaulting to the full length
    FULL = SliceV(Const(None), Const(None), Const(None))
    for cls, npol in (("electrical_signal", None), ("optical_signal", 1), ("optical_signal", 2)):
        m = pkg.find_method("typing", cls, "copy")
        for nkind in ("none", "given"):
            ass = {"self.noise": "notnone", "n": None if nkind == "none" else "notnone"}
            if npol is not None:
                ass["self.n_pol"] = npol
            it = Interp(pkg, self_class=cls, assumptions=ass)
            rets = [o for o in it.run(m) if o.kind == "return"]
            case = f"{cls}.copy(n) [n_pol={npol}, n {nkind}]"
            stop = mk_fn("siglen", [S("self.signal")]) if nkind == "none" else S("n")
            sl = SliceV(Const(None), stop, Const(None))
            sl0 = SliceV(Form.num(0), stop, Const(None))
            wants = [TupleV([FULL, x]) for x in (sl, sl0)] if npol == 2 else [sl, sl0]
            ok = len(rets) == 1 and isinstance(rets[0].value, ObjV) and rets[0].value.cls == cls
            if ok:
                o = rets[0].value
                ok = any(vkey_eq(o.fields.get("signal"), Form.atom(("idx", S("self.signal"), w))) and vkey_eq(o.fields.get("noise"), Form.atom(("idx", S("self.noise"), w))) for w in wants)
            ctx.check("C01.8", ok, m, rets[0].node if rets else m.node, case, "self[:n] with n defaulting to len()", "copy(n) is not self[:n] with n defaulting to the full length")
    m = pkg.find_method("typing", "electrical_signal", "len")
    for nd in (0, 1, 2):
        rets = [o for o in Interp(pkg, self_class="electrical_signal", assumptions={"self.signal.ndim": nd}).run(m) if o.kind == "return"]
        want = Form.atom(("idx", S("self.signal.shape"), Form.num(1))) if nd == 2 else S("self.signal.size")
        alt = Form.atom(("idx", S("self.signal.shape"), Form.num(-1))) if nd >= 1 else want
        ok = len(rets) == 1 and isinstance(rets[0].value, Form) and rets[0].value in (want, alt)
        ctx.check("C01.8", ok, m, rets[0].node if rets else m.node, f"electrical_signal.len() [ndim={nd}]", "shape[1] for two-dimensional data, size otherwise", "len() is not samples-per-polarisation (shape[1] if ndim>1 else size)")


def run(ctx):
    eff = Effects(ctx.pkg)
    rule_ownership(ctx, eff)
    rule_operators(ctx)
    rule_length_guard(ctx)
    rule_ctor_symmetry(ctx)
    rule_numeric_storage(ctx)
    rule_slicing(ctx)
    # C01.9 / C01.10: the domain transforms return an object "of the expected length" whose signal and noise are transformed alike -
    # the transform table of C02 (C02.1 / C02.2), reported here too: a padded or truncated transform (fft(x, n=...)) changes the length
    from ..rules import run_relabelled
    from .c02 import rule_call_table
    run_relabelled(ctx, rule_call_table, {"C02.1": "C01.9", "C02.2": "C01.10"})
    ctx.require_min("C01.1", 20)
    ctx.require_min("C01.2", 18)
    ctx.require_min("C01.3", 50)
    ctx.require_min("C01.5", 48)
    ctx.require_min("C01.6", 32)
    ctx.require_min("C01.7", 10)
    ctx.require_min("C01.4", 7)
    ctx.require_min("C01.8", 14)
