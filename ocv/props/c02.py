"""C02 - time/frequency transforms are inverse pairs on the fs grid (typing.py, and every spectrum product in the package)."""
from __future__ import annotations

import ast
import itertools

from ..absint import Interp, ObjV, State
from ..effects import Effects
from ..forms import Const, Form, SliceV, TupleV, fpow, mk_fn
from ..rules import PI, S
from ..srcmodel import src_of
from . import c14

EXPLANATION = (
    "C02.1/2: for both signal classes and every (domain in w/f/t) x (shift) x (noise present/absent) combination the value forms of the "
    "result of __call__ are [fftshift](fft(x, last axis)) for w/f and [ifftshift](ifft(x, last axis)) for t, applied identically to signal "
    "and noise. C02.3: shift-state typestate over value forms (time | freq-natural | freq-centred): "
    "fft/fftfreq/x('w') are natural, fftshift(natural)/w(shift=True) centred, ifftshift(centred) natural; element-wise products and sums "
    "need equal tags, ifft needs a natural operand, and what DM/LPF/FBG return under retH is centred - checked at every ifft call and "
    "retH return of DM, FIBER, FBG, LPF. C02.4: w() = 2*pi*fftfreq(len)*gv.fs read at call time, fftshift-ed on request. C02.5: no "
    "definition-time capture of gv (shared with C14.2). C02.6: power(by) = mean(|by|^2, axis=-1); abs('all') = |signal+noise|, 'signal' "
    "and 'noise' select one component. Trusted: numpy FFT conventions (fft/ifft and fftshift/ifftshift are inverse pairs for all lengths). "
    "Not decided: round-trip rounding error, Parseval numerically.")
TRUSTED = ["numpy.fft: ifft(fft(x)) = x, ifftshift(fftshift(x)) = x for every length, fftfreq ordering = fft ordering", "CPython ast"]

NAT, CEN, TIME, SCAL = "freq-natural", "freq-centred", "time", "scalar"


def strip_axis(v, one_dim=True):
    """fft-family atoms: drop axis=-1 (numpy's default for fft/ifft).  fftshift/ifftshift default to ALL axes, so their
    `axes=-1` is dropped only for one-dimensional data (`one_dim`); for two-polarisation arrays a shift without axes=-1 would
    also swap the polarisation rows and is a different operation."""
    if not isinstance(v, Form):
        return v

    def fn(a):
        if a[0] == "fn" and a[1] in ("fft", "ifft", "fftshift", "ifftshift"):
            shiftfn = a[1] in ("fftshift", "ifftshift")
            kw = [(k, x) for k, x in a[3] if not (k in ("axis", "axes") and isinstance(x, Form) and x == Form.num(-1) and (one_dim or not shiftfn))]
            args = [strip_axis(x, one_dim) for x in a[2]]
            if len(args) == 2 and shiftfn and isinstance(args[1], Form) and args[1] == Form.num(-1):
                args = args[:1]
                if not one_dim:
                    kw = kw + [("axes", Form.num(-1))]
            return Form.atom(("fn", a[1], tuple(args), tuple(sorted(kw, key=lambda kv: kv[0]))))
        return None
    return v.subst(fn)


def rule_call_table(ctx):
    pkg = ctx.pkg
    for cls in ("electrical_signal", "optical_signal"):
        m = pkg.find_method("typing", cls, "__call__")
        for dom, shift, noise in itertools.product(("w", "f", "t"), (True, False), ("none", "notnone")):
            case = f"{cls}('{dom}', shift={shift}) [noise {noise}]"
            it = Interp(pkg, self_class=cls, assumptions={"domain": dom, "shift": shift, "self.noise": noise})
            outs = it.run(m)
            rets = [o for o in outs if o.kind == "return"]
            # a return path that hands back something kept on the object (a memo of an earlier transform) instead of a transform of the
            # current samples: the samples are plain arrays the caller (and the library's devices) may edit in place
            stale = []
            for r_ in rets:
                v_ = r_.value
                if isinstance(v_, Form) and not isinstance(v_, ObjV):
                    held = [a for a in v_.atoms() if (a[0] == "sym" and a[1].startswith("self.") and a[1].split(".")[1] not in ("signal", "noise"))
                            or (a[0] == "fn" and a[1] == "getattr" and a[2] and isinstance(a[2][0], Form) and a[2][0].sym_name() == "self")]
                    if held:
                        stale.append(r_)
            if stale:
                ctx.violation("C02.1", m, stale[0].node, f"{case}: returns a result stored on the object", "this return path does not transform the current samples: after an in-place edit of "
                              "x.signal / x.noise (same array objects) x('w') and x('t') return the transform of the old data - no longer inverse pairs, Parseval fails")
                rets = [r_ for r_ in rets if r_ not in stale]
            if len(rets) != 1 or not isinstance(rets[0].value, ObjV):
                ctx.unknown("C02.1", m, m.node, case, f"{len(rets)} return paths")
                continue
            o, node = rets[0].value, rets[0].node
            tr = "fft" if dom in ("w", "f") else "ifft"
            sh = "fftshift" if dom in ("w", "f") else "ifftshift"

            one_dim = cls == "electrical_signal"

            def want(x):
                v = mk_fn(tr, [x])
                return mk_fn(sh, [v], [] if one_dim else [("axes", Form.num(-1))]) if shift else v
            sig = strip_axis(o.fields.get("signal"), one_dim)
            ws = want(S("self.signal"))
            if isinstance(sig, Form) and sig == ws:
                ctx.holds("C02.1", m, node, f"{case}: signal -> {sig!r}", "documented transform / reordering on the last axis")
            else:
                ctx.violation("C02.1", m, node, f"{case}: signal -> {sig!r}", f"expected {ws!r} along the last axis: x('w') and x('t') are no longer inverse transforms / the shift is not the matching numpy reordering")
            nz = o.fields.get("noise")
            if noise == "none":
                ctx.check("C02.2", isinstance(nz, Const) and nz.v is None, m, node, f"{case}: noise -> {nz!r}", "no noise invented", "a noise component appears for a noise-free object")
            else:
                nzs = strip_axis(nz, one_dim)
                wn = want(S("self.noise"))
                ctx.check("C02.2", isinstance(nzs, Form) and nzs == wn, m, node, f"{case}: noise -> {nzs!r}", "transformed exactly like the signal",
                          f"noise is not transformed like the signal (expected {wn!r})")
        it = Interp(pkg, self_class=cls, assumptions={"domain": "x", "shift": False, "self.noise": "none"})
        outs = it.run(m)
        pass  # (clause removed: the property statement has no error clause - 'any other domain raises ValueError' was read off the docstring)


# ----------------------------------------------------------------------------- typestate
class Clash(Exception):
    pass


def tag_of(v, scalars):
    """shift-state tag of a value form; raises Clash(msg) on an inconsistent combination"""
    if isinstance(v, (Const, SliceV)):
        return SCAL
    if isinstance(v, TupleV):
        tags = {tag_of(i, scalars) for i in v.items} - {SCAL}
        known = tags - {None}
        if len(known) > 1:
            raise Clash(f"tuple mixes {sorted(known)}")
        if None in tags:
            return None
        return tags.pop() if tags else SCAL
    if isinstance(v, ObjV):
        return tag_of(v.fields.get("signal"), scalars)
    if not isinstance(v, Form):
        return None
    tags = set()
    for m, c in v.terms.items():
        mt = set()
        for a, e in m:
            t = atom_tag(a, scalars)
            if t not in (SCAL, None):
                mt.add(t)
            elif t is None:
                mt.add(None)
        if len(mt - {None}) > 1:
            raise Clash(f"element-wise product of a {sorted(x for x in mt if x)[0]} array with a {sorted(x for x in mt if x)[1]} array")
        if mt:
            tags |= mt
    real = tags - {None}
    if len(real) > 1:
        raise Clash(f"element-wise sum of {sorted(real)} arrays")
    if real:
        return next(iter(real))
    return None if None in tags else SCAL


ELEMENTWISE = {"exp", "exp10", "cos", "sin", "abs", "conj", "real", "imag", "log", "log10", "sqrt", "pow", "neg", "angle", "unwrap", "zeros_like", "ones_like"}


def atom_tag(a, scalars):
    k = a[0]
    if k in ("c", "num"):
        return SCAL
    if k == "sym":
        n = a[1]
        if n in scalars or n.startswith("gv."):
            return SCAL
        if n.endswith(".signal") or n.endswith(".noise"):
            return TIME
        return None
    if k == "grp":
        return tag_of(a[1], scalars)
    if k == "loop" or k == "opaque":
        return None
    if k == "phi":
        tags = {tag_of(x, scalars) for x in a[2]} - {SCAL, None}
        if len(tags) > 1:
            raise Clash(f"value is {sorted(tags)} depending on the path")
        return tags.pop() if tags else None
    if k == "attr":
        return tag_of(a[1], scalars)
    if k == "idx":
        idx = a[2]
        ba = a[1].single_atom() if isinstance(a[1], Form) else None
        if ba and ba[0] == "fn" and ba[1] in ("scipy.signal.sosfreqz", "scipy.signal.freqz"):
            return tag_of(a[1], scalars)      # (w, h) pair: both members live on the frequency grid
        if isinstance(idx, SliceV) or (isinstance(idx, TupleV) and any(isinstance(i, SliceV) for i in idx.items)):
            # sol.y[:, -1] keeps the frequency axis (first index a full slice)
            return tag_of(a[1], scalars)
        return SCAL
    if k == "meth":
        return tag_of(a[1], scalars)
    if k == "fn":
        name, args = a[1], a[2]
        if name == "fftfreq":
            return NAT
        if name == "fft":
            return NAT
        if name == "ifft":
            t = tag_of(args[0], scalars) if args else None
            if t == CEN:
                raise Clash("ifft applied to a centred (fftshift-ed) spectrum: the result is modulated by (-1)^n / circularly displaced")
            return TIME
        if name == "fftshift":
            t = tag_of(args[0], scalars) if args else None
            if t == CEN:
                raise Clash("fftshift applied to an already centred array")
            return CEN if t in (NAT, None) else t
        if name == "ifftshift":
            t = tag_of(args[0], scalars) if args else None
            if t == NAT:
                raise Clash("ifftshift applied to a natural-order array")
            return NAT if t in (CEN, None) else t
        if name == "scipy.signal.sosfreqz":
            return NAT
        if name == "scipy.integrate.solve_ivp":
            kw = dict(a[3])
            tags = set()
            for key in ("args", "y0"):
                if key in kw:
                    t = tag_of(kw[key], scalars)
                    if t not in (SCAL, None, TIME):
                        tags.add(t)
            if len(tags) > 1:
                raise Clash("ODE coefficients mix natural and centred frequency grids")
            return tags.pop() if tags else None
        if name in ELEMENTWISE or name in ("setitem",):
            ts = {tag_of(x, scalars) for x in args if isinstance(x, (Form, TupleV, ObjV))} - {SCAL, None}
            if len(ts) > 1:
                raise Clash(f"{name}() combines {sorted(ts)}")
            return ts.pop() if ts else SCAL
        if name in ("siglen", "len", "size", "max", "min", "mean", "sum", "argmin", "argmax", "int"):
            return SCAL
        if name in ("tau_g", "dispersion", "diff"):
            return tag_of(args[0], scalars) if args else None
        return None
    return None


def rule_typestate(ctx):
    pkg = ctx.pkg
    targets = [
        ("devices.DM", {"input": "optical_signal"}, [{"retH": False, "input.noise": "none"}, {"retH": True, "input.noise": "none"}], {"D"}),
        ("devices.FIBER", {"input": "optical_signal"}, [{"show_progress": False, "input.noise": "none"}], {"length", "alpha", "beta_2", "beta_3", "gamma", "phi_max"}),
        ("devices.LPF", {"input": "electrical_signal"}, [{"retH": True, "input.noise": "none", "fs": None}], {"BW", "n", "fs"}),
        ("devices.FBG", {"input": "optical_signal"}, [{"retH": True, "input.noise": "none", "fc": "notnone", "vdneff": "notnone", "dneff": "none", "kL": "notnone", "apodization": "uniform", "print_params": False, "filtfilt": True},
                                                       {"retH": False, "input.noise": "none", "fc": "notnone", "vdneff": "notnone", "dneff": "none", "kL": "notnone", "apodization": "uniform", "print_params": False, "filtfilt": False}],
         {"neff", "v", "landa_D", "fc", "kL", "L", "N", "dneff", "vdneff", "F"}),
    ]
    for q, pc, cases, scalars in targets:
        fi = pkg.func(q)
        for ass in cases:
            ass = dict(ass)
            for k in ("fc", "vdneff", "kL"):
                if ass.get(k) == "notnone":
                    ass[k] = ("truth", True)
            for k in ("dneff",):
                if ass.get(k) == "none":
                    ass[k] = ("truth", False)
            it = Interp(pkg, assumptions=ass, param_classes=pc, no_inline=("tau_g", "dispersion", "rcos", "si", "db"))
            outs = it.run(fi)
            label = f"{q} [{'retH' if ass.get('retH') else 'plain'}{'/filtfilt' if ass.get('filtfilt') else ''}]"
            # every ifft argument is natural-order and internally consistent
            n_ifft = 0
            for r in it.calls:
                if r.callee == "numpy.fft.ifft" and r.args:
                    n_ifft += 1
                    try:
                        t = tag_of(r.args[0], scalars)
                        if t == CEN:
                            raise Clash("ifft applied to a centred spectrum")
                        ctx.holds("C02.3", r.fi, r.node, f"{label}: operand of {src_of(r.node)[:80]}", f"consistent, tag {t or 'undetermined'}")
                    except Clash as ex:
                        ctx.violation("C02.3", r.fi, r.node, f"{label}: operand of {src_of(r.node)[:120]}", f"shift-state clash: {ex}")
            rets = [o for o in outs if o.kind == "return"]
            for o in rets:
                v = o.value
                if ass.get("retH"):
                    if isinstance(v, TupleV) and len(v.items) == 2:
                        try:
                            t = tag_of(v.items[1], scalars)
                            if t == CEN:
                                ctx.holds("C02.3", fi, o.node, f"{label}: returned H", "centred (fftshift-ed) like DM/LPF/FBG siblings")
                            elif t is None:
                                ctx.unknown("C02.3", fi, o.node, f"{label}: returned H", "shift state of the returned response not determined")
                            else:
                                ctx.violation("C02.3", fi, o.node, f"{label}: returned H is {t}", "the three devices with retH return a centred response; this one is in natural FFT order")
                        except Clash as ex:
                            ctx.violation("C02.3", fi, o.node, f"{label}: returned H", f"shift-state clash: {ex}")
                    else:
                        ctx.unknown("C02.3", fi, o.node, f"{label}: retH return", "not a (signal, H) pair")
                elif isinstance(v, ObjV):
                    try:
                        t = tag_of(v.fields.get("signal"), scalars)
                        ctx.check("C02.3", t in (TIME, None), fi, o.node, f"{label}: output field domain = {t}", "time domain", "the device returns a frequency-domain array as its field")
                    except Clash as ex:
                        ctx.violation("C02.3", fi, o.node, f"{label}: output field", f"shift-state clash: {ex}")


def rule_axis_and_power(ctx):
    pkg = ctx.pkg
    for cls in ("electrical_signal", "optical_signal"):
        m = pkg.find_method("typing", cls, "w")
        base = 2 * PI * mk_fn("fftfreq", [mk_fn("siglen", [S("self.signal")])]) * S("gv.fs")
        for shift in (False, True):
            it = Interp(pkg, self_class=cls, assumptions={"shift": shift})
            outs = it.run(m)
            rets = [o for o in outs if o.kind == "return"]
            want = mk_fn("fftshift", [base]) if shift else base
            got = strip_axis(rets[0].value) if len(rets) == 1 else None
            ctx.check("C02.4", got is not None and got == want, m, rets[0].node if rets else m.node, f"{cls}.w(shift={shift}) = {got!r}", "2*pi*fftfreq(len)*gv.fs" + (", fftshift-ed" if shift else ""),
                      f"frequency axis differs from {want!r}")
        p = pkg.find_method("typing", cls, "power")
        for by in ("all", "signal", "noise"):
            it = Interp(pkg, self_class=cls, assumptions={"by": by, "self.noise": "notnone"})
            outs = it.run(p)
            rets = [o for o in outs if o.kind == "return"]
            comp = {"all": S("self.signal") + S("self.noise"), "signal": S("self.signal"), "noise": S("self.noise")}[by]
            want = mk_fn("mean", [fpow(mk_fn("abs", [comp]), 2)], [("axis", Form.num(-1))])
            got = rets[0].value if len(rets) == 1 else None
            ctx.check("C02.6", got is not None and got == want, p, rets[0].node if rets else p.node, f"{cls}.power('{by}') = {got!r}", "mean(|.|^2) per polarisation (last axis)",
                      f"power differs from {want!r}")
        it = Interp(pkg, self_class=cls, assumptions={"by": "all", "self.noise": "none"})
        outs = it.run(p)
        rets = [o for o in outs if o.kind == "return"]
        want = mk_fn("mean", [fpow(mk_fn("abs", [S("self.signal")]), 2)], [("axis", Form.num(-1))])
        ctx.check("C02.6", len(rets) == 1 and rets[0].value == want, p, p.node, f"{cls}.power('all') without noise", "mean(|signal|^2)", "power of a noise-free object is not mean(|signal|^2)")


def run(ctx):
    rule_call_table(ctx)
    rule_typestate(ctx)
    rule_axis_and_power(ctx)
    eff = Effects(ctx.pkg)
    n0 = len(ctx.results)
    c14.rule_late_binding(ctx, eff)
    for r in ctx.results[n0:]:
        r.rule = "C02.5"
    ctx.counts["C02.5"] = ctx.counts.pop("C14.2", 0)
    # C02.7: power(), abs('all') and the transforms form signal + noise: with both stored as bool arrays that `+` is a logical OR
    # (a sample where both are 1 counts as 1, not 2), power() is no longer the mean of |signal+noise|^2 and Parseval fails between
    # the library's own objects.  The storage clause of C01 (C01.4), reported here for the constructors C02's methods rely on
    from .c01 import rule_numeric_storage
    rule_numeric_storage(ctx, "C02.7")
    ctx.require_min("C02.1", 24)
    ctx.require_min("C02.2", 24)
    ctx.require_min("C02.3", 8)
    ctx.require_min("C02.4", 4)
    ctx.require_min("C02.6", 8)
