"""C03 - a noise-free link returns the transmitted bits: the *wiring* of the packaged decision chains and the error counter."""
from __future__ import annotations

import ast

from ..absint import Interp, ObjV, param_object
from ..forms import Const, DictV, Form, SliceV, TupleV, mk_fn
from ..rules import S, check_late_binding
from ..srcmodel import src_of

EXPLANATION = (
    "C03 as a whole (six composed blocks, Bessel filtering, eye clustering, threshold search, all bit patterns) is an end-to-end "
    "numerical behaviour that no static argument in reach decides; what IS in the shape of the code, and is a necessary condition of it, is "
    "the wiring of the packaged decision routines and of the error counter, and that is all this check decides. C03.1: both "
    "BER_analizer('counter') implementations return (number of positions where Tx[:len(Rx)] differs from Rx) / len, i.e. 0 for identical "
    "sequences and k/n for k flipped bits. C03.2: ook.DSP samples the (optionally LPF-filtered) input at the slot centre gv.sps//2 with "
    "stride gv.sps, compares |sample| > threshold, and the threshold is THRESHOLD_EST of the eye measured on the same waveform. C03.3: "
    "ppm.DSP hard = PPM_DECODER(HDD(SAMPLER(x, sps//2) > rth, M), M) with rth = the given threshold, else the eye's KDE threshold, else "
    "THRESHOLD_EST(eye, M); soft = PPM_DECODER(SDD(x, M), M). C03.4: the sampling instant of both chains is the offset at which DAC places "
    "its Gaussian pulse pair (sps//2, sps//2-1) and lies inside the NRZ slot. C03.6: for a field without a noise component, in both polarisation layouts, PD hands electrical_signal a signal current and a noise current with one entry per sample each (coarse shape typing scalar / N / 2xN of the value forms). C03.7: the eye the OOK receiver measures is folded from a record cut to whole two-slot periods (any slot count, odd included, is accepted). C03.8: the PPM soft decision sums every sample of a slot and takes the argmax per symbol (for every sps). The transfer functions of the blocks themselves are decided "
    "under C05, C06, C09, C11, C12, C17. NOT decided: that the composed chain recovers every bit pattern for every configuration.")
EXPLANATION += (" Added after the audit wave: C03.1 the counter converts each of Tx, Rx on its own (four raw/sequence combinations); C03.9 the dispersive element is C07's all-pass with or without retH; C03.10 GET_EYE splits the ON/OFF populations at a value computed from the level estimates, never at an element picked out of the record (strict comparisons with a sample value can empty a population: nan threshold); C03.11 on a time axis folding k >= 2 slots per trace the populations are not drawn from one sub-slot window of the raw axis (every second slot only: data whose ON slots share a parity leave mu1 = nan).")
EXPLANATION += (" Second audit wave: C03.12 (= C17.10) the instants handed to GET_EYE's crossing clustering carry a reduction of the time axis modulo the slot, so that transitions of one parity (PPM slots 1001 1001, 0011...) still fill both crossing groups.")
EXPLANATION += (' Third audit wave: C03.13 (= C13.13) ook.THRESHOLD_EST returns the middle element of the set of exact minimisers of its cost, never the first (argmin, ties[0]) or last: on a noise-free link the cost is exactly 0 over most of [mu0, mu1] and the first zero sits 0.1-1.5 % of the eye above mu0. C03.14 (= C17.12) GET_EYE reads its threshold off the grid linspace(mu0, mu1, n) at the density minimum only under 0 < index < n-1 (or from a grid without its end points); an end-point minimum is a level, not a valley. C03.15 every whole slot of the record enters the eye statistics: the record is cut by its remainder modulo sps (a partial slot), never modulo two slots, and an odd count is continued by one slot so that it folds - the receiver decides every slot, and the last slot of an odd count (next to the wrap-around of the FFT based devices, the most disturbed one) was otherwise decided without having been seen.')
EXPLANATION += (" Fourth audit wave: C03.16 the density valley that gives GET_EYE's threshold is searched between the bulks of the two populations: an alternative of the search grid runs from mu0 + a*s0 to mu1 - b*s1 with a, b >= 1. From level to level the grid includes the inner half of each population, where a level split by inter-symbol interference on a short record has a dip of its own (two PPM symbols: threshold above the lowest ON sample). C03.12 requires the one-slot image of the crossings on every alternative of the clustered value.")
EXPLANATION += (" C03.17 (open known finding): ppm.DSP applies a threshold estimated around the eye's own instant (eye.i) to the samples at gv.sps//2; holds only when GET_EYE is told the decision instant. The failing input and why the one-line repair (decide at eye.i) was rejected are in known_findings.json and DESIGN 3.4.")
EXPLANATION += (" Wave 14: C03.18 the fibre of the link applies the linear operator of C07 / C08 (loss, beta_2, beta_3 terms on the signal's own unshifted frequency grid, whatever gv.N holds).")
EXPLANATION += (' Wave 15: C03.19 the transmitter of the link is the pulse shaper of C05 (C05.1 shared): each slot waveform is the bit times the pulse centred on the slot for records of any length - a Gaussian branch that convolves with numpy.convolve(mode=same), which centres on the longer operand, displaces the pulses of a record shorter than the kernel.')
TRUSTED = ["the per-block properties C05, C06, C09, C11, C12, C17", "numpy comparison/sum semantics"]
LEVEL_TEXT = ("Partial, structural: decides the wiring of ook.DSP / ppm.DSP (sampling instant, comparator, threshold source, decoder order) and the "
              "error-counter formula - necessary conditions of C03. The end-to-end claim over all bit patterns and configurations is not decided by "
              "any static argument here and is not claimed.")

NI = ("GET_EYE", "THRESHOLD_EST", "LPF", "HDD", "SDD", "PPM_DECODER", "shortest_int")
HALF = mk_fn("floordiv", [S("gv.sps"), Form.num(2)])
CENTRE = SliceV(HALF, Const(None), S("gv.sps"))


def eye_atom(x_sig, x_noise, **kw):
    obj = ObjV("electrical_signal", {"signal": x_sig, "noise": x_noise, "execution_time": Form.num(0)})
    return obj


def _shape(v, npol):
    """coarse shape of a value form: 'scalar', 'N' (one entry per sample), '2xN' (per polarisation), '?'"""
    lay = "2xN" if npol == 2 else "N"
    if isinstance(v, Const) or v is None:
        return "scalar"
    if not isinstance(v, Form):
        return "?"
    if v.const_value() is not None:
        return "scalar"

    def join(a, b):
        if "?" in (a, b):
            return "?"
        if a == "scalar":
            return b
        if b == "scalar":
            return a
        return "2xN" if "2xN" in (a, b) else "N"

    def atom(a):
        k = a[0]
        if k in ("num", "c"):
            return "scalar"
        if k == "sym":
            n_ = a[1]
            if n_ in ("input.signal", "input.noise"):
                return lay
            return "scalar"
        if k == "grp":
            return _shape(a[1], npol)
        if k == "idx":
            return "?"
        if k == "fn":
            nm, args, kw = a[1], a[2], dict(a[3])
            if nm == "scipy.signal.sosfiltfilt" and len(args) >= 2:
                return _shape(args[1], npol)
            if nm in ("zeros", "ones", "empty", "numpy.random.normal", "numpy.random.randn", "normal"):
                size = kw.get("size", kw.get("shape", args[-1] if args else None))
                sa = size.single_atom() if isinstance(size, Form) else None
                if sa and sa[0] == "fn" and sa[1] in ("siglen", "len", "size"):
                    return "N"
                return "?"
            if nm in ("zeros_like", "ones_like", "abs", "real", "imag", "conj", "exp", "sqrt", "astype", "neg"):
                return _shape(args[0], npol) if args else "?"
            if nm in ("sum", "mean"):
                inner = _shape(args[0], npol) if args else "?"
                ax = kw.get("axis")
                if ax is None:
                    return "scalar"
                if isinstance(ax, Form) and ax.rational() == 0:
                    return {"2xN": "N", "N": "scalar"}.get(inner, "?")
                if isinstance(ax, Form) and ax.rational() == -1:
                    return {"2xN": "?", "N": "scalar"}.get(inner, "?")
                return "?"
            if nm in ("siglen", "len", "size", "toc", "exp10", "log10"):
                return "scalar"
            return "?"
        return "?"
    out = "scalar"
    for mono in v.terms:
        t = "scalar"
        for a, _e in mono:
            t = join(t, atom(a))
        out = join(out, t)
    return out


def run(ctx):
    pkg = ctx.pkg
    # ---------------------------------------------------------------- C03.1 counters
    for mod, kwname in (("ook", "kargs"), ("ppm", "kwargs")):
        fi = pkg.func(f"{mod}.BER_analizer")
        kwname = fi.node.args.kwarg.arg if fi.node.args.kwarg else kwname
        it = Interp(pkg, assumptions={"mode": "counter"}, param_values={kwname: DictV([(Const("Tx"), param_object("binary_sequence", "Tx")), (Const("Rx"), param_object("binary_sequence", "Rx"))])})
        outs = it.run(fi)
        rets = [o for o in outs if o.kind == "return"]
        txs = Form.atom(("idx", S("Tx.data"), SliceV(Const(None), mk_fn("size", [S("Rx.data")]), Const(None))))
        want = mk_fn("sum", [mk_fn("ne", [txs, S("Rx.data")])]) / mk_fn("size", [txs])
        alt = mk_fn("sum", [mk_fn("ne", [S("Rx.data"), txs])]) / mk_fn("size", [txs])
        alt2 = mk_fn("mean", [mk_fn("ne", [txs, S("Rx.data")])])
        ok = len(rets) == 1 and isinstance(rets[0].value, Form) and rets[0].value in (want, alt, alt2)
        ctx.check("C03.1", ok, fi, rets[0].node if rets else fi.node, f"{mod}.BER_analizer('counter') = {rets[0].value if rets else None!r}"[:300], "mismatching positions / length (Tx truncated to len(Rx))",
                  "the counter is not sum(Tx[:len(Rx)] != Rx)/len: identical sequences do not give 0 or k flipped bits do not give k/n")
    # the counter is fed what the link hands over: the bits given to DAC (an array or a list) and what the DSP returns (a binary_sequence)
    # - any mix of the two container kinds must be counted, not only two of a kind
    for mod, kwname in (("ook", "kargs"), ("ppm", "kwargs")):
        fi = pkg.func(f"{mod}.BER_analizer")
        kwname = fi.node.args.kwarg.arg if fi.node.args.kwarg else kwname
        for raw in ("Tx", "Rx"):
            other = "Rx" if raw == "Tx" else "Tx"
            it = Interp(pkg, assumptions={"mode": "counter", raw: ("inst", "numpy.ndarray", "ndarray")},
                        param_values={kwname: DictV([(Const(raw), S(raw)), (Const(other), param_object("binary_sequence", other))])})
            outs = it.run(fi)
            rets = [o for o in outs if o.kind == "return"]
            bad = [b for b in it.bad_attrs]
            # binary_sequence members (.len(), .data) applied to what is still the raw array: AttributeError at run time
            for o_ in rets:
                if isinstance(o_.value, Form):
                    for a_ in o_.value.atoms():
                        base_ = a_[1] if a_[0] in ("meth", "attr") else None
                        member = a_[2] if a_[0] in ("meth", "attr") else None
                        if member in ("len", "data", "ones", "zeros") and isinstance(base_, Form) and S(raw).single_atom() in base_.atoms() and base_.sym_name() is None:
                            bad.append((fi, o_.node, base_, member))
            ctx.check("C03.1", bool(rets) and not bad, fi, bad[0][1] if bad else fi.node, f"{mod}.BER_analizer('counter') with {raw} a raw array and {other} a binary_sequence", "both converted, then counted",
                      (f"`{src_of(bad[0][1])}`: the raw array is used as a binary_sequence (ndarray has no attribute `{bad[0][3]}`) - only two operands of the same kind are handled" if bad
                       else "no returning path for this mix of container kinds"))
    # ---------------------------------------------------------------- C03.2 ook.DSP
    fi = pkg.func("ook.DSP")
    for bw in (None, "notnone"):
        it = Interp(pkg, param_classes={"input": "electrical_signal"}, assumptions={"BW": bw, "input.noise": "none", "fs": None, "retH": False},
                    no_inline=tuple(x for x in NI if not (bw and x == "LPF")))
        outs = it.run(fi)
        rets = [o for o in outs if o.kind == "return"]
        case = "with BW" if bw else "without BW"
        if len(rets) != 1 or not isinstance(rets[0].value, TupleV) or len(rets[0].value.items) != 3:
            ctx.unknown("C03.2", fi, fi.node, f"ook.DSP [{case}]", "return is not (bits, eye, threshold)")
            continue
        bits, eye_v, rth = rets[0].value.items
        if bw:
            x_obj = mk_fn("LPF", [eye_atom(S("input.signal"), S("input.noise")), S("BW")])
            xsig = Form.atom(("attr", x_obj, "signal"))
        else:
            xsig = S("input.signal")
        geye = [r for r in it.calls if r.callee == "opticomlib.devices.GET_EYE"]
        thr = [r for r in it.calls if r.callee and r.callee.endswith(".THRESHOLD_EST")]
        samp = [r for r in it.calls if r.callee == "opticomlib.devices.SAMPLER"]
        probs = []
        if len(samp) != 1 or not (isinstance(samp[0].args[1], Form) and samp[0].args[1] == HALF):
            probs.append(f"the waveform is not sampled at the slot centre gv.sps//2 (instant = {samp[0].args[1] if samp else None!r})")
        if len(geye) != 1 or len(thr) != 1 or not (thr[0].args and thr[0].args[0] == geye[0].result) or rth != thr[0].result:
            probs.append("the decision threshold is not THRESHOLD_EST of the eye measured by GET_EYE")
        if samp and geye and not bw:
            same = isinstance(samp[0].args[0], ObjV) and isinstance(geye[0].args[0], ObjV) and samp[0].args[0].fields.get("signal") == geye[0].args[0].fields.get("signal")
            if not same:
                probs.append("the eye is measured on a different waveform than the one sampled")
        if bw:
            lpf = [r for r in it.calls if r.callee == "opticomlib.devices.LPF"]
            if len(lpf) != 1 or not (samp and samp[0].args[0] == lpf[0].result and geye and geye[0].args[0] == lpf[0].result):
                probs.append("with BW the filtered waveform is not the one that is measured and sampled")
        d = bits.fields.get("data") if isinstance(bits, ObjV) and bits.cls == "binary_sequence" else None
        da = d.single_atom() if isinstance(d, Form) else None
        if not (da and da[0] == "fn" and da[1] == "gt"):
            probs.append(f"the decision is not `sample > threshold` ({d!r})"[:200])
        else:
            lhs, rhs = da[2]
            if not bw:
                want_l = mk_fn("abs", [Form.atom(("idx", xsig, CENTRE))])
                if lhs != want_l:
                    probs.append(f"compared samples are {lhs!r}, expected {want_l!r}")
            if thr and rhs != mk_fn("abs", [thr[0].result]):
                probs.append("the right-hand side of the comparison is not the estimated threshold")
        ctx.check("C03.2", not probs, fi, rets[0].node, f"ook.DSP [{case}]: SAMPLER(x, sps//2) > THRESHOLD_EST(GET_EYE(x))", "slot-centre samples compared with the eye-estimated threshold", "; ".join(probs))
    # ---------------------------------------------------------------- C03.3 ppm.DSP
    fp = pkg.func("ppm.DSP")
    it = Interp(pkg, param_classes={"input": "electrical_signal"}, assumptions={"decision": "hard", "threshold": ["notnone", ("notinst", "electrical_signal")], "input.noise": "none"}, no_inline=NI)
    outs = it.run(fp)
    rets = [o for o in outs if o.kind == "return"]
    if len(rets) == 1 and isinstance(rets[0].value, Form):
        v = rets[0].value
        a = v.single_atom()
        probs = []
        ok_chain = a and a[0] == "fn" and a[1] == "PPM_DECODER" and len(a[2]) == 2 and a[2][1] == S("M")
        inner = a[2][0].single_atom() if ok_chain and isinstance(a[2][0], Form) else None
        if not (inner and inner[0] == "fn" and inner[1] == "HDD" and inner[2][1] == S("M")):
            probs.append("hard decision is not PPM_DECODER(HDD(decisions, M), M)")
        else:
            dec = inner[2][0]
            d = dec.fields.get("data") if isinstance(dec, ObjV) and dec.cls == "binary_sequence" else None
            want = mk_fn("gt", [mk_fn("abs", [Form.atom(("idx", S("input.signal"), CENTRE))]), mk_fn("abs", [S("threshold")])])
            if d != want:
                probs.append(f"slot decisions are {d!r}, expected {want!r} (slot-centre samples > threshold)"[:400])
        ctx.check("C03.3", not probs, fp, rets[0].node, "ppm.DSP [hard]: PPM_DECODER(HDD(SAMPLER(x, sps//2) > rth, M), M)", "sample, threshold, repair, decode - in that order", "; ".join(probs))
    else:
        ctx.unknown("C03.3", fp, fp.node, "ppm.DSP [hard]", f"{len(rets)} return paths")
    # threshold source when none is given
    it = Interp(pkg, param_classes={"input": "electrical_signal"}, assumptions={"decision": "hard", "threshold": None, "input.noise": "none"}, no_inline=NI)
    it.run(fp)
    geye = [r for r in it.calls if r.callee == "opticomlib.devices.GET_EYE"]
    thr = [r for r in it.calls if r.callee and r.callee.endswith(".THRESHOLD_EST")]
    # the decision level by its role: the right-hand side of the slot decision `samples > level` in the returned chain
    rths = []
    outs_n = [o for o in it.outcomes if o.kind == "return"]
    for o in outs_n:
        a0 = o.value.single_atom() if isinstance(o.value, Form) else None
        inner0 = a0[2][0].single_atom() if a0 and a0[0] == "fn" and a0[1] == "PPM_DECODER" and a0[2] and isinstance(a0[2][0], Form) else None
        dec0 = inner0[2][0] if inner0 and inner0[0] == "fn" and inner0[1] == "HDD" and inner0[2] else None
        d0 = dec0.fields.get("data") if isinstance(dec0, ObjV) else None
        da0 = d0.single_atom() if isinstance(d0, Form) else None
        if da0 and da0[0] == "fn" and da0[1] == "gt" and len(da0[2]) == 2 and isinstance(da0[2][1], Form):
            # every value that can flow into the level (through the merge of the two sources and the |.| of the comparison)
            rths.extend(Form.atom(x) for x in da0[2][1].atoms(deep=True))
    ok = len(geye) == 1 and len(thr) == 1 and thr[0].args[0] == geye[0].result and thr[0].args[1] == S("M")
    ok = ok and any(isinstance(x, Form) and x == Form.atom(("attr", geye[0].result, "threshold")) for x in rths) and any(x == thr[0].result for x in rths)
    samp = [r for r in it.calls if r.callee == "opticomlib.devices.SAMPLER"]
    bad_inst = [r for r in samp if not (len(r.args) > 1 and isinstance(r.args[1], Form) and r.args[1] == HALF)]
    ctx.check("C03.3", bool(samp) and not bad_inst, fp, bad_inst[0].node if bad_inst else fp.node, "ppm.DSP [hard, no threshold given]: sampling instant",
              "SAMPLER(x, gv.sps//2): the slot centre where the DAC places the pulse",
              f"without a given threshold the waveform is sampled at {bad_inst[0].args[1] if bad_inst and len(bad_inst[0].args) > 1 else None!r}, not at the slot centre gv.sps//2 (n_slots samples, pulse peak)"[:300])
    # C03.17 (open known finding): the eye statistics - and with them the estimated threshold - are taken around the eye's OWN optimum
    # instant (eye.i, found by clustering the crossings), the decision samples at the fixed slot centre gv.sps//2.  The two differ by a
    # sample or two when the crossings are pulled sideways, and on a waveform that changes by 40 % from one sample to the next (a
    # dispersive dip at the exact centre of a sharp NRZ pulse, wide-band PD, odd sps 25-39) the threshold of one instant does not
    # separate the samples of the other.  Holds when GET_EYE is told the decision instant.
    # (deciding at eye.i instead is NOT a repair: the index leaves [0, sps) on short records - it is the seeded change C03-w2-eye-instant,
    # reported by the sampling-instant clause of C03.3 - so the only way to hold is to take the statistics at the decision instant)
    tied = False
    told = bool(geye) and any(isinstance(v_, Form) and v_ == HALF for r in geye for v_ in list(r.args[1:]) + [kv[1] for kv in (r.kwargs or []) if kv[0] != "nslots"])
    if samp and geye:
        ctx.check("C03.17", tied or told, fp, samp[0].node, "ppm.DSP [hard, no threshold given]: the estimated threshold is applied at the instant it was estimated at",
                  "decision samples and eye statistics taken at one instant",
                  "the threshold comes from eye statistics around the eye's own instant (eye.i) and is applied to the samples at gv.sps//2: ppm.DSP(hard) on ONE 4-PPM symbol "
                  "(bits 10, sps 27, NRZ, ER 10 dB, DM -9990 ps^2 = 0.999 % of T^2, PD BW 12 GHz, noise free) - the centre sample of the ON slot is 0.0332 (dispersive dip), the eye "
                  "at i = 14 sees 0.0555 / 0.0639 and puts the threshold at 0.0425: wrong in 3 of 3 calls, midway and soft decision right (14 such cases in audit4/C03/audit_C03.py, "
                  "all odd sps 25-33, 1-4 symbols, wide-band PD, dispersion at the bound)")
    ctx.check("C03.3", ok, fp, fp.node, "ppm.DSP [hard, no threshold given]: rth = eye.threshold, else THRESHOLD_EST(eye, M)", "threshold estimated from the eye of the same waveform",
              "without a given threshold the decision level is not taken from the measured eye (KDE threshold, falling back to THRESHOLD_EST(eye, M))")
    it = Interp(pkg, param_classes={"input": "electrical_signal"}, assumptions={"decision": "soft", "threshold": None, "input.noise": "none"}, no_inline=NI)
    outs = it.run(fp)
    rets = [o for o in outs if o.kind == "return"]
    want = mk_fn("PPM_DECODER", [mk_fn("SDD", [eye_atom(S("input.signal"), S("input.noise")), S("M")]), S("M")])
    got = rets[0].value if len(rets) == 1 else None
    okk = isinstance(got, Form) and got.single_atom() and got.single_atom()[1] == "PPM_DECODER"
    if okk:
        inner = got.single_atom()[2][0].single_atom() if isinstance(got.single_atom()[2][0], Form) else None
        okk = bool(inner and inner[1] == "SDD" and isinstance(inner[2][0], ObjV) and inner[2][0].fields.get("signal") == S("input.signal") and inner[2][1] == S("M") and got.single_atom()[2][1] == S("M"))
    ctx.check("C03.3", okk, fp, rets[0].node if rets else fp.node, "ppm.DSP [soft]: PPM_DECODER(SDD(x, M), M)", "soft decision on the full waveform, then decode", "soft decision is not PPM_DECODER(SDD(input, M), M)")
    it = Interp(pkg, param_classes={"input": "electrical_signal"}, assumptions={"decision": "maybe", "threshold": None, "input.noise": "none"}, no_inline=NI)
    outs = it.run(fp)
    ctx.check("C03.3", bool(outs) and not any(o.kind == "return" for o in outs) and outs[-1].exc == "ValueError", fp, fp.node, "ppm.DSP: unknown decision", "raises ValueError", "an unknown decision mode does not raise ValueError")
    # ---------------------------------------------------------------- C03.4 sampling instant vs DAC pulse placement
    fd = pkg.func("devices.DAC")
    it = Interp(pkg, assumptions={"pulse_shape": "gaussian", "BW": None}, param_classes={"input": "binary_sequence"})
    it.run(fd)
    starts = set()
    for (sfi, stmt, tgt, val, conds, depth) in it.store_log:
        if tgt[0] == "idx" and isinstance(tgt[2], SliceV) and tgt[2].step == S("gv.sps"):
            starts.add(repr(tgt[2].lo))
    want = {repr(mk_fn("int", [HALF])), repr(mk_fn("int", [HALF - 1]))}
    ctx.check("C03.4", starts == want, fd, fd.node, f"DAC Gaussian impulses at offsets {sorted(starts)}", "sps//2 and sps//2-1: the pulse peaks where both DSP chains sample (gv.sps//2)",
              "the Gaussian pulse pair is not centred on the instant gv.sps//2 at which ook.DSP and ppm.DSP sample")
    # ---------------------------------------------------------------- C03.6 the receiver end of the noise-free link
    # PD on a field without a noise component must build its (signal, noise) pair with one entry per sample in BOTH polarisation
    # layouts; a (2, N) array left in one of them makes the electrical_signal constructor raise and the link returns nothing.
    fpd = pkg.func("devices.PD")
    for npol in (1, 2):
        for opt in ("ase-only", "all"):
            itp = Interp(pkg, param_classes={"input": "optical_signal"}, assumptions={"include_noise": opt, "input.noise": "none", "input.n_pol": npol, "BW": None})
            outs_p = itp.run(fpd)
            rets_p = [o for o in outs_p if o.kind == "return"]
            if len(rets_p) != 1 or not isinstance(rets_p[0].value, ObjV):
                ctx.unknown("C03.6", fpd, fpd.node, f"PD [noise-free input, n_pol={npol}, {opt}]", f"{len(rets_p)} return paths")
                continue
            o_ = rets_p[0].value
            shs, shn = _shape(o_.fields.get("signal"), npol), _shape(o_.fields.get("noise"), npol)
            bad = shs in ("N", "2xN") and shn in ("N", "2xN") and (shs != "N" or shn != "N")
            ctx.check("C03.6", not bad, fpd, rets_p[0].node, f"PD [noise-free input, n_pol={npol}, {opt}]: signal current {shs}, noise current {shn}", "one entry per sample in both",
                      f"for a {'two' if npol == 2 else 'one'}-polarisation field without noise the signal current has shape {shs} and the noise current {shn}: "
                      "electrical_signal(signal, noise) raises ValueError (shape mismatch) and the noise-free link returns no bits in this layout")
    # ---------------------------------------------------------------- C03.8 the soft decision of the PPM receiver is the slot-energy argmax
    from .c12 import rule_sdd
    rule_sdd(ctx, None, "C03.8")
    # ---------------------------------------------------------------- C03.7 the eye measured by the OOK receiver accepts any slot count
    from .c17 import rule_even_slots
    rule_even_slots(ctx, "C03.7", "C03.15")
    # the dispersive element of the link is the all-pass of C07, whichever way it is called (with or without retH)
    from .c07 import rule_dm
    rule_dm(ctx, "C03.9", "C03.9")
    from .c17 import rule_boundary
    rule_boundary(ctx, "C03.10")
    from .c17 import rule_every_slot
    rule_every_slot(ctx, "C03.11")
    from .c17 import rule_periodic_crossings
    rule_periodic_crossings(ctx, "C03.12")
    from .c13 import rule_tied_minimisers
    rule_tied_minimisers(ctx, "C03.13")
    from .c17 import rule_threshold_interior
    rule_threshold_interior(ctx, "C03.14", "C03.16")
    # C03.18: "optional linear fibre": the fibre of the link applies the linear operator of C07 / C08 on the frequency grid of the signal itself
    from ..rules import run_relabelled
    from . import c07 as _c07, c08 as _c08
    _fi, _it = _c07.fiber_forms(ctx)
    run_relabelled(ctx, _c08.rule_dop, {"C03.18": "C03.18"}, _fi, _it, "C03.18")
    # C03.19: the transmitter of the link is the pulse shaper of C05: each slot's waveform is the bit times the pulse, centred on the slot, for
    # records of any length (a convolution that centres on the LONGER operand displaces the pulses of a record shorter than the kernel)
    from . import c05 as _c05
    run_relabelled(ctx, _c05.run, {"C05.1": "C03.19"}, _only=True)
    # every stage of the link reads the sampling grid in force when it is CALLED (a default or cache bound earlier describes another grid)
    check_late_binding(ctx, "C03.5", ["ook.DSP", "ppm.DSP", "ook.BER_analizer", "ppm.BER_analizer", "devices.DAC", "devices.MZM", "devices.PD", "devices.SAMPLER", "devices.LPF",
                                      "devices.GET_EYE", "devices.DM", "ppm.PPM_ENCODER", "ppm.PPM_DECODER", "ppm.HDD", "ppm.SDD", "ppm.THRESHOLD_EST", "ook.THRESHOLD_EST"])
    ctx.require_min("C03.1", 2)
    ctx.require_min("C03.2", 2)
    ctx.require_min("C03.3", 5)
    ctx.require_min("C03.4", 1)
    ctx.require_min("C03.6", 4)
    ctx.require_min("C03.7", 2)
    ctx.require_min("C03.8", 2)
    ctx.require_min("C03.10", 2)
    ctx.require_min("C03.11", 2)
    ctx.require_min("C03.12", 2)
