"""C04 - PRBS: maximal-length sequence of the ITU polynomial, resumable (devices.PRBS)."""
from __future__ import annotations

import ast

from ..absint import Interp, ObjV, State
from ..forms import Const, DictV, Form, TupleV, mk_fn
from ..rules import S, body_nodes, find_raise_guards, names_in, in_loop
from ..srcmodel import src_of

LEVEL = "proof"
TECHNIQUE = "static analysis: abstract interpretation of the LFSR loop in a GF(2)-linear domain + finite-field algebra (primitivity of the tap polynomial)"
EXPLANATION = (
    "devices.PRBS, for each of the seven table keys. C04.1: the tap table literal equals the documented ITU-T O.150 polynomials and its key "
    "set is the set the order guard accepts. C04.2: GF(2) polynomial arithmetic (square-and-multiply modulo f, trial-division "
    "factorisation of 2^n-1) proves x^n+x^t+1 primitive: x^(2^n-1)=1 and x^((2^n-1)/p)!=1 for every prime p | 2^n-1, hence one cycle "
    "through all 2^n-1 non-zero states (period 2^n-1, 2^(n-1) ones) - this replaces enumerating up to 2^31-1 states by algebra on the "
    "code's own constants. C04.3: the loop body, interpreted in the GF(2)-linear domain (bit vectors of linear forms over the register "
    "bits; &const, >>const, <<const, ^, | on disjoint supports), yields the transition matrix T and output functional o; obligations "
    "independent of register layout: (a) o*T^n = o + o*T^(n-t) (every output satisfies a[m]=a[m-n]^a[m-t]); (b) T invertible and "
    "o*T^-j = e_j for j<n (seed bit j is the output j steps before the first); (c) the register stays within n bits. C04.4: the value "
    "returned under return_seed is the loop-carried register at loop exit, the loop starts from seed mod 2^n, which is the identity on "
    "every reachable state. C04.5: zero seed -> 1 with UserWarning; len non-int -> TypeError, len<=0 -> ValueError, unsupported order -> "
    "ValueError, all before the loop.")
TRUSTED = ["Python integer arithmetic", "ocv GF(2) routines (ocv/props/c04.py)", "numpy uint8 store of `lfsr & 1`", "value-form interpreter's constant folding of shifts/masks"]
DOCUMENTED = {7: 6, 9: 5, 11: 9, 15: 14, 20: 3, 23: 18, 31: 28}


# ----------------------------------------------------------------------------- GF(2) polynomials as Python ints
def pmulmod(a, b, f, n):
    r = 0
    while b:
        if b & 1:
            r ^= a
        b >>= 1
        a <<= 1
        if a >> n & 1:
            a ^= f
    return r


def ppowmod(base, e, f, n):
    r = 1
    while e:
        if e & 1:
            r = pmulmod(r, base, f, n)
        base = pmulmod(base, base, f, n)
        e >>= 1
    return r


def prime_factors(m):
    out = []
    d = 2
    while d * d <= m:
        if m % d == 0:
            out.append(d)
            while m % d == 0:
                m //= d
        d += 1 if d == 2 else 2
    if m > 1:
        out.append(m)
    return out


def is_primitive(n, t):
    f = (1 << n) | (1 << t) | 1
    order = (1 << n) - 1
    if ppowmod(2, order, f, n) != 1:
        return False, "x^(2^n-1) != 1 (mod f): f is reducible or x has a different order"
    for p in prime_factors(order):
        if ppowmod(2, order // p, f, n) == 1:
            return False, f"x^((2^n-1)/{p}) = 1 (mod f): the period divides (2^n-1)/{p}"
    return True, f"{len(prime_factors(order))} prime factors of 2^{n}-1 checked"


# ----------------------------------------------------------------------------- GF(2)-linear bit-vector domain
class NotLinear(Exception):
    pass


def bits_of(v, n, state_atom, width):
    """vector (list, LSB first) of GF(2)-affine forms: int mask over state bits, bit `n` of the mask = constant 1"""
    if not isinstance(v, Form):
        raise NotLinear(f"non-integer value {v!r}")
    q = v.rational()
    if q is not None:
        if q.denominator != 1 or q < 0:
            raise NotLinear(f"non-natural constant {q}")
        k = int(q)
        return [((k >> i) & 1) << n for i in range(width)]
    a = v.single_atom()
    if a is None:
        raise NotLinear(f"arithmetic (non bit-wise) expression {v!r}")
    if a == state_atom:
        return [(1 << i) if i < n else 0 for i in range(width)]
    if a[0] == "fn":
        name, args = a[1], a[2]
        if name in ("rshift", "lshift"):
            k = args[1].rational() if isinstance(args[1], Form) else None
            if k is None or k.denominator != 1 or k < 0:
                raise NotLinear(f"shift by non-constant {args[1]!r}")
            x = bits_of(args[0], n, state_atom, width)
            k = int(k)
            if name == "rshift":
                return x[k:] + [0] * min(k, width)
            return ([0] * k + x)[:width] if not any(x[width - k:]) or True else None
        if name == "bxor":
            x, y = bits_of(args[0], n, state_atom, width), bits_of(args[1], n, state_atom, width)
            return [p ^ q_ for p, q_ in zip(x, y)]
        if name == "band":
            x, y = args
            cx = x.rational() if isinstance(x, Form) else None
            cy = y.rational() if isinstance(y, Form) else None
            if cy is None and cx is not None:
                x, y, cy = y, x, cx
            if cy is None:
                raise NotLinear("AND of two non-constant values is not GF(2)-linear")
            xb = bits_of(x, n, state_atom, width)
            k = int(cy)
            return [xb[i] if (k >> i) & 1 else 0 for i in range(width)]
        if name == "bor":
            x, y = bits_of(args[0], n, state_atom, width), bits_of(args[1], n, state_atom, width)
            out = []
            for p, q_ in zip(x, y):
                if p and q_:
                    raise NotLinear("OR of overlapping bit fields is not GF(2)-linear")
                out.append(p | q_)
            return out
        if name == "mod":
            k = args[1].rational() if isinstance(args[1], Form) else None
            if k is not None and k.denominator == 1 and int(k) & (int(k) - 1) == 0:
                x = bits_of(args[0], n, state_atom, width)
                nb = int(k).bit_length() - 1
                return [x[i] if i < nb else 0 for i in range(width)]
    raise NotLinear(f"operation not in the GF(2)-linear domain: {v!r}")


def mat_vec_rows(T, n):
    return T


def row_times_mat(row, T, n):
    """row vector (int mask over n columns) times matrix T where T[i] = mask of row i: (row*T)_j = sum_i row_i T[i]_j"""
    out = 0
    for i in range(n):
        if row >> i & 1:
            out ^= T[i]
    return out


def mat_inverse(T, n):
    # rows as masks; Gauss-Jordan on [T | I]
    A = [T[i] | (1 << (n + i)) for i in range(n)]
    for col in range(n):
        piv = next((r for r in range(col, n) if A[r] >> col & 1), None)
        if piv is None:
            return None
        A[col], A[piv] = A[piv], A[col]
        for r in range(n):
            if r != col and A[r] >> col & 1:
                A[r] ^= A[col]
    return [a >> n for a in A]


def loop_register_init(it):
    """value of the register variable on entry to the generator loop: the variable updated inside the loop whose update shifts it"""
    for loop, envs in it.loop_envs.items():
        pre = envs[0]
        names = set()
        for n_ in ast.walk(loop):
            if isinstance(n_, ast.BinOp) and isinstance(n_.op, (ast.LShift, ast.RShift)):
                for x in ast.walk(n_.left):
                    if isinstance(x, ast.Name):
                        names.add(x.id)
        assigned = {t.id for n_ in ast.walk(loop) if isinstance(n_, ast.Assign) for t in n_.targets if isinstance(t, ast.Name)}
        cands = [nm for nm in names & assigned if nm in pre]
        if cands:
            return [pre[cands[0]]]
    return None


def run(ctx):
    pkg = ctx.pkg
    fi = pkg.func("devices.PRBS")
    # ---------------- C04.1 tap table
    it0 = Interp(pkg, assumptions={"seed": "notnone", "len": "notnone"})
    it0.run(fi)
    taps = None
    is_table = lambda val: isinstance(val, DictV) and len(val.items) >= 3 and all(isinstance(v, TupleV) and len(v.items) == 2 for _, v in val.items)
    for f, stmt, name, val, conds, depth in it0.assign_log:
        if is_table(val):
            taps, taps_stmt, taps_name = val, stmt, name
            break
    if taps is None:
        # a module-level table referenced by PRBS or one of its helpers
        scopes = [fi]
        for n_ in body_nodes(fi):
            if isinstance(n_, ast.Call) and isinstance(n_.func, ast.Name):
                r_ = pkg.resolve_name(fi.module, fi, n_.func.id)
                if r_ and r_.startswith("opticomlib.") and r_.count(".") == 2:
                    cal = pkg.module(r_.split(".")[1]).funcs.get(r_.split(".", 1)[1])
                    if cal is not None:
                        scopes.append(cal)
        for sc in scopes:
            for n_ in body_nodes(sc):
                if isinstance(n_, ast.Name) and isinstance(n_.ctx, ast.Load) and n_.id in sc.module.globals:
                    try:
                        val = Interp(pkg).eval(n_, State(), sc, 0)
                    except Exception:
                        val = None
                    if is_table(val):
                        taps, taps_stmt, taps_name = val, sc.module.globals[n_.id], n_.id
                        break
            if taps is not None:
                break
    if taps is None:
        ctx.unknown("C04.1", fi, fi.node, "PRBS tap table", "no dict literal of (n, t) pairs found")
        return
    table = {}
    for k, v in taps.items:
        kk = k.rational() if isinstance(k, Form) else None
        a, b = (x.rational() if isinstance(x, Form) else None for x in v.items)
        if kk is None or a is None or b is None:
            ctx.unknown("C04.1", fi, taps_stmt, "PRBS tap table", "non-constant entry")
            return
        table[int(kk)] = (int(a), int(b))
    for n, t in DOCUMENTED.items():
        cons = f"taps[{n}] = {list(table.get(n, ()))}"
        if n not in table:
            ctx.violation("C04.1", fi, taps_stmt, f"taps[{n}] missing", f"documented order {n} (x^{n}+x^{t}+1) is not in the table")
        elif table[n] != (n, t) and table[n] != (t, n):
            ctx.violation("C04.1", fi, taps_stmt, cons, f"documented polynomial for PRBS{n} is x^{n}+x^{t}+1 (taps ({n},{t}))")
        else:
            ctx.holds("C04.1", fi, taps_stmt, cons, f"x^{n}+x^{t}+1 as documented")
    extra = sorted(set(table) - set(DOCUMENTED))
    if extra:
        ctx.violation("C04.1", fi, taps_stmt, f"extra orders {extra}", "orders outside the documented set are accepted")
    # orders outside the table are rejected before the loop: decided by interpreting PRBS for members and non-members
    from ..rules import _concrete_run
    loop = next((n for n in fi.node.body if isinstance(n, (ast.While, ast.For))), None)
    probs, where = [], fi.node
    for od in sorted(set(table) | {8, 10, 1, 32}):
        rej, e, out, _i = _concrete_run(pkg, fi, {"order": Form.num(od)}, {"seed": "notnone", "len": "notnone"})
        if od in table and rej:
            probs.append(f"supported order {od} is rejected ({e})")
        elif od not in table and (not rej or e != "ValueError"):
            probs.append(f"order {od} (not in the table) " + ("is accepted" if not rej else f"raises {e}, documented ValueError"))
        if out is not None and rej:
            where = out.node
    ctx.check("C04.5", not probs, fi, where, "PRBS: unsupported order", "order not in taps -> ValueError before the loop", "; ".join(probs[:3]))
    # ---------------- per order
    reg_var = None
    for n in sorted(DOCUMENTED):
        if n not in table:
            continue
        tn, tt = max(table[n]), min(table[n])
        # C04.2 primitivity of the polynomial the code uses
        ok, why = is_primitive(tn, tt)
        ctx.check("C04.2", ok and tn == n, fi, taps_stmt, f"x^{tn}+x^{tt}+1 primitive over GF(2) (order {n})", why, f"tap polynomial of order {n} is not primitive: {why}; the period is not 2^{n}-1")
        # C04.3 the loop is that LFSR
        it = Interp(pkg, param_values={"order": Form.num(n)}, assumptions={"seed": "notnone", "len": "notnone", "return_seed": True})
        outs = it.run(fi)
        rets = [o for o in outs if o.kind == "return"]
        # loop-carried register: the variable whose loop atom appears in the stored output bit
        out_store = [x for x in it.store_log if x[5] == 0 and x[2][0] == "idx" and in_loop(x[1])]
        if len(out_store) != 1:
            ctx.unknown("C04.3", fi, fi.node, f"PRBS{n}: output store", f"{len(out_store)} subscript stores inside the loop")
            continue
        oval = out_store[0][3]
        loops = [a for a in oval.atoms() if a[0] == "loop"] if isinstance(oval, Form) else []
        if len(loops) != 1:
            ctx.unknown("C04.3", fi, out_store[0][1], f"PRBS{n}: output bit {oval!r}", "output does not depend on exactly one loop-carried variable")
            continue
        state = loops[0]
        var = state[1].split("@")[0]
        reg_var = var
        nxt = None
        for f, stmt, name, val, conds, depth in it.assign_log:
            if depth == 0 and name == var and in_loop(stmt):
                nxt = (val, stmt)
        if nxt is None:
            ctx.unknown("C04.3", fi, fi.node, f"PRBS{n}: register update", f"no assignment to `{var}` inside the loop")
            continue
        W = n + 4
        try:
            Tbits = bits_of(nxt[0], n, state, W)
            obits = bits_of(oval, n, state, W)
        except NotLinear as ex:
            ctx.unknown("C04.3", fi, nxt[1], f"PRBS{n}: {src_of(nxt[1])}", f"loop body leaves the GF(2)-linear domain: {ex}")
            continue
        const = 1 << n
        if any(b & const for b in Tbits) or any(b & const for b in obits):
            ctx.violation("C04.3", fi, nxt[1], f"PRBS{n}: {src_of(nxt[1])}", "the update is affine, not linear (a constant bit is injected): the zero/non-zero state structure of an LFSR is lost")
            continue
        # (c) width
        if any(Tbits[i] for i in range(n, W)):
            ctx.violation("C04.3", fi, nxt[1], f"PRBS{n} (c): register width", f"bits >= {n} of the register can become non-zero: the state is not confined to {n} bits (mask is not 2^{n}-1)")
            continue
        ctx.holds("C04.3", fi, nxt[1], f"PRBS{n} (c): register width", f"state confined to {n} bits")
        # state' = M s  with M rows = Tbits[i] (bit i of next state as mask over current bits)
        M = Tbits[:n]
        # output sequence a[m] = o . M^m s ; as row-vector recursion: r_0 = o, r_{m+1} = r_m * M  (r * M)_j = sum_i r_i M[i]_j
        o = 0
        for i in range(n):
            if obits[i]:
                # obits[i] is bit i of the *output value*; the emitted bit is the integer value, which must be 0/1
                if i > 0:
                    o = None
                    break
                o = obits[0]
        if o is None or any(obits[i] for i in range(1, W)):
            ctx.violation("C04.3", fi, out_store[0][1], f"PRBS{n}: output `{src_of(out_store[0][1])}`", "the stored value is not a single bit of the register")
            continue
        rows = [o]
        for _ in range(n):
            rows.append(row_times_mat(rows[-1], M, n))
        lhs = rows[n]
        rhs = rows[0] ^ rows[n - tt]
        ctx.check("C04.3", lhs == rhs, fi, nxt[1], f"PRBS{n} (a): o*T^{n} = o + o*T^{n - tt}", f"every output satisfies a[m] = a[m-{n}] xor a[m-{tt}]",
                  f"recurrence fails: o*T^{n} = {lhs:#x}, o + o*T^{n - tt} = {rhs:#x}: the emitted stream is not the LRS of x^{n}+x^{tt}+1")
        Minv = mat_inverse(M, n)
        if Minv is None:
            ctx.violation("C04.3", fi, nxt[1], f"PRBS{n} (b): T invertible", "the state transition is singular: distinct states merge, the generator is not a permutation of the non-zero states")
        else:
            r = o
            bad = None
            for j in range(n):
                if r != (1 << j):
                    bad = (j, r)
                    break
                r = row_times_mat(r, Minv, n)
            ctx.check("C04.3", bad is None, fi, nxt[1], f"PRBS{n} (b): o*T^-j = e_j for j < {n}", "seed bit j is the output j steps before the first (first output = LSB)",
                      f"seed convention broken at j={bad[0] if bad else ''}: o*T^-j = {bad[1] if bad else 0:#x}, expected bit {bad[0] if bad else ''}")
        # C04.4 resume
        if len(rets) == 1 and isinstance(rets[0].value, TupleV) and len(rets[0].value.items) == 2:
            second = rets[0].value.items[1]
            a2 = second.single_atom() if isinstance(second, Form) else None
            ok = a2 is not None and a2[0] == "loop" and a2[1].split("@")[0] == var
            ctx.check("C04.4", ok, fi, rets[0].node, f"PRBS{n}: return_seed returns `{src_of(rets[0].node.value.elts[1]) if isinstance(rets[0].node.value, ast.Tuple) else '?'}`", "the loop-carried register at loop exit",
                      "the value returned with return_seed is not the generator state after the last emitted bit: a resumed call does not continue the stream")
        else:
            ctx.unknown("C04.4", fi, fi.node, f"PRBS{n}: return_seed", "return is not (sequence, state)")
        init = None
        for f, stmt, name, val, conds, depth in it.assign_log:
            if depth == 0 and name == var and not in_loop(stmt):
                init = (val, stmt)
        red = mk_fn("mod", [S("seed"), Form.num(1 << n)])
        ok = init is not None and isinstance(init[0], Form) and (init[0] == red or any(a[0] == "phi" and red in a[2] for a in init[0].atoms()))
        ctx.check("C04.4", ok, fi, init[1] if init else fi.node, f"PRBS{n}: initial register = {init[0]!r}"[:200] if init else f"PRBS{n}: initial register", f"seed mod 2^{n} (identity on every reachable state 1..2^{n}-1)",
                  "the loop does not start from seed mod 2^order: a returned state fed back as seed does not resume the stream")
    # ---------------- C04.4 the loop performs exactly `len` emit+update steps (so the returned state is the state after len bits)
    if loop is not None:
        lenp = fi.params[1] if len(fi.params) > 1 else "len"
        early = [n_ for n_ in ast.walk(loop) if isinstance(n_, (ast.Break, ast.Return, ast.Continue))]
        if early:
            e0 = early[0]
            holder = e0
            while getattr(holder, "_parent", None) is not None and not isinstance(holder._parent, (ast.While, ast.For)):
                holder = holder._parent
            ctx.violation("C04.4", fi, holder, f"PRBS loop: early `{type(e0).__name__.lower()}` under `{src_of(holder.test) if isinstance(holder, ast.If) else src_of(holder)[:60]}`",
                          "the generator loop can stop (or skip the update) before `len` steps: the state returned with return_seed is then not the state after the last emitted bit, "
                          "so generating a+b bits in two resumed calls differs from one call")
        else:
            ctx.holds("C04.4", fi, loop, "PRBS loop: no early exit", "every iteration emits one bit and updates the register")
        top = loop.body

        def flat_targets(s_):
            out = []
            for t_ in (s_.targets if isinstance(s_, ast.Assign) else [s_.target] if isinstance(s_, (ast.AugAssign, ast.AnnAssign)) else []):
                out.extend(t_.elts if isinstance(t_, (ast.Tuple, ast.List)) else [t_])
            return out
        upd_top = [s_ for s_ in top if isinstance(s_, ast.Assign) and isinstance(s_.targets[0], ast.Name) and any(isinstance(x, ast.Name) and x.id == s_.targets[0].id for x in ast.walk(s_.value)) and "<<" in src_of(s_.value) or (isinstance(s_, ast.Assign) and isinstance(s_.targets[0], ast.Name) and ">>" in src_of(s_.value) and "|" in src_of(s_.value))]
        if reg_var is not None:
            # the register is known by its role (the loop-carried variable the output bit depends on, C04.3): any spelling of its update
            upd_top = [s_ for s_ in top if any(isinstance(t_, ast.Name) and t_.id == reg_var for t_ in flat_targets(s_))]
        out_top = [s_ for s_ in top if any(isinstance(t_, ast.Subscript) for t_ in flat_targets(s_))]
        out_sub = [t_ for s_ in out_top for t_ in flat_targets(s_) if isinstance(t_, ast.Subscript)]
        ok_struct = len(out_sub) == 1 and len(upd_top) >= 1
        if isinstance(loop, ast.While):
            t = loop.test
            ok_test = isinstance(t, ast.Compare) and len(t.ops) == 1 and isinstance(t.ops[0], ast.Lt) and isinstance(t.left, ast.Name) and src_of(t.comparators[0]) == lenp
            cnt = t.left.id if ok_test else None
            incs = [s_ for s_ in top if isinstance(s_, ast.AugAssign) and isinstance(s_.target, ast.Name) and s_.target.id == cnt and isinstance(s_.op, ast.Add) and src_of(s_.value) == "1"]
            all_incs = [s_ for s_ in ast.walk(loop) if isinstance(s_, (ast.AugAssign, ast.Assign)) and any(isinstance(x, ast.Name) and x.id == cnt and isinstance(x.ctx, ast.Store) for x in ast.walk(s_))]
            init = [s_ for s_ in fi.node.body if isinstance(s_, ast.Assign) and isinstance(s_.targets[0], ast.Name) and s_.targets[0].id == cnt and src_of(s_.value) == "0"]
            ok_cnt = ok_test and len(incs) == 1 and len(all_incs) == 1 and bool(init)
            idx_ok = len(out_sub) == 1 and src_of(out_sub[0].slice) == cnt
        else:
            ra = loop.iter.args if isinstance(loop.iter, ast.Call) and src_of(loop.iter.func) == "range" and not loop.iter.keywords else None
            ok_cnt = ra is not None and ((len(ra) == 1 and src_of(ra[0]) == lenp) or (len(ra) == 2 and src_of(ra[0]) == "0" and src_of(ra[1]) == lenp)
                                         or (len(ra) == 3 and src_of(ra[0]) == "0" and src_of(ra[1]) == lenp and src_of(ra[2]) == "1"))
            idx_ok = len(out_sub) == 1 and src_of(out_sub[0].slice) == src_of(loop.target)
        ctx.check("C04.4", ok_struct and ok_cnt and idx_ok, fi, loop, "PRBS loop: counter runs 0..len-1, one unconditional output store and register update per iteration", "exactly `len` steps",
                  "the loop does not perform exactly one unconditional emit+update per counter value 0..len-1: the number of generator steps differs from the number of bits requested")
    # ---------------- C04.5 remaining guards
    it = Interp(pkg, param_values={"order": Form.num(7)}, assumptions={"seed": "notnone", "len": "notnone"})
    outs = it.run(fi)
    from ..rules import check_type_guard
    check_type_guard(ctx, "C04.5", fi, "len", ("TypeError", "ValueError"), ["int"], ["float", "str"], samples={"int": 5}, base={"order": Form.num(7)}, assumptions={"seed": "notnone"})
    from ..rules import Reject, check_range_guard
    check_range_guard(ctx, "C04.5", fi, "len", Reject(lambda x: x <= 0, [0]), "ValueError", "PRBS: len <= 0", accept_sample=[1, 2, 127], base={"order": Form.num(7)},
                      assumptions={"seed": "notnone"}, integer=True)
    # zero seed -> 1 with a warning: seeds congruent to 0 modulo 2^order (0, 2^order) start the register at 1 and warn; others do not
    probs, where = [], fi.node
    for sd, zero in ((0, True), (128, True), (5, False), (127, False)):
        itz = Interp(pkg, param_values={"order": Form.num(7), "seed": Form.num(sd)}, assumptions={"len": "notnone"})
        itz.run(fi)
        warns = [r for r in itz.calls if r.callee == "warnings.warn"]
        inits = [val for f_, stmt, name, val, conds, depth in itz.assign_log if depth == 0 and isinstance(val, Form) and val.rational() is not None and name not in ("order",)]
        regs = [x for x in (loop_register_init(itz) or [])]
        reg0 = regs[0] if regs else None
        if zero:
            if not warns:
                probs.append(f"seed={sd} (0 mod 2^7) gives no warning")
            else:
                where = warns[0].node
                cat = warns[0].args[1] if len(warns[0].args) > 1 else warns[0].kwargs.get("category")
                if cat is not None and "UserWarning" not in repr(cat):
                    probs.append(f"seed={sd}: warning category {cat!r}, documented UserWarning")
            if reg0 is not None and reg0 != Form.num(1):
                probs.append(f"seed={sd} (0 mod 2^7) starts the register at {reg0!r}, not 1: the all-zero state locks the generator")
        else:
            if warns:
                probs.append(f"seed={sd} warns although it is not 0 mod 2^7")
            if reg0 is not None and reg0 != Form.num(sd % 128):
                probs.append(f"seed={sd} starts the register at {reg0!r}, not seed mod 2^7")
    ctx.check("C04.5", not probs, fi, where, "PRBS: zero seed -> 1 with a warning", "seed = 0 mod 2^order replaced by 1 with a UserWarning; other seeds used as given (classes 0, 2^n, interior, all-ones)", "; ".join(probs[:3]))
    # "for every call": the sequence, the returned state and the zero-seed warning depend on the arguments of THIS call only.  A
    # module-level container that PRBS both reads and updates (a warned-already set, a cache of registers) makes a later call
    # behave differently from the first - e.g. the documented warning issued once per order and never again.
    mod_tree = pkg.module("devices").tree if hasattr(pkg.module("devices"), "tree") else None
    if mod_tree is None:
        import ast as _ast
        mod_tree = _ast.parse(pkg.module("devices").source)
    containers = {}
    for st_ in mod_tree.body:
        if isinstance(st_, ast.Assign) and len(st_.targets) == 1 and isinstance(st_.targets[0], ast.Name):
            v_ = st_.value
            if isinstance(v_, (ast.Set, ast.List, ast.Dict)) or (isinstance(v_, ast.Call) and isinstance(v_.func, ast.Name) and v_.func.id in ("set", "list", "dict", "defaultdict", "OrderedDict", "deque")):
                containers[st_.targets[0].id] = st_
    local_names = {a_.arg for a_ in fi.node.args.args + fi.node.args.kwonlyargs} | {t_.id for n_ in ast.walk(fi.node) if isinstance(n_, ast.Assign) for t_ in n_.targets if isinstance(t_, ast.Name)}
    stateful = []
    for n_ in ast.walk(fi.node):
        nm = None
        if isinstance(n_, ast.Call) and isinstance(n_.func, ast.Attribute) and isinstance(n_.func.value, ast.Name) and n_.func.attr in ("add", "append", "update", "setdefault", "extend", "insert", "pop", "remove", "discard", "clear", "appendleft"):
            nm = n_.func.value.id
        elif isinstance(n_, (ast.Assign, ast.AugAssign)):
            for t_ in (n_.targets if isinstance(n_, ast.Assign) else [n_.target]):
                if isinstance(t_, ast.Subscript) and isinstance(t_.value, ast.Name):
                    nm = t_.value.id
        elif isinstance(n_, ast.Global):
            nm = n_.names[0]
        if nm and nm in containers and nm not in local_names:
            stateful.append((nm, n_))
    ctx.check("C04.5", not stateful, fi, stateful[0][1] if stateful else fi.node, "PRBS keeps no state between calls", "no module-level container is updated by a call",
              f"PRBS updates the module-level `{stateful[0][0]}` ({src_of(stateful[0][1])[:60]}): what a call does (here: whether the zero-seed warning is issued) depends on the calls made before it" if stateful else "")
    ctx.require_min("C04.1", 7)
    ctx.require_min("C04.2", 7)
    ctx.require_min("C04.3", 21)
    ctx.require_min("C04.4", 16)
    ctx.require_min("C04.5", 4)
