"""C05 - DAC waveforms are slot-exact and SAMPLER inverts them (devices.DAC, devices.SAMPLER)."""
from __future__ import annotations

import ast
from fractions import Fraction

from ..absint import Interp, ObjV
from ..forms import Const, Form, SliceV, TupleV, mk_fn
from ..rules import S, Reject, check_range_guard, check_type_guard, find_raise_guards, names_in, check_late_binding
from ..srcmodel import src_of

EXPLANATION = (
    "Value forms of devices.DAC per pulse shape and of devices.SAMPLER. C05.1: NRZ/rect is bias + Vout*kron(bits, ones(sps)) (np.repeat "
    "accepted) with sps read from gv at call time; RZ multiplies by the sps-periodic mask tile(zeros(sps) with [:sps//2]=1, len(bits)); "
    "the Gaussian branch convolves (mode='same', /2) a zeros(len*sps) train carrying the bits at offsets sps//2 and sps//2-1 with stride "
    "sps, so every branch yields len(bits)*sps samples; the Gaussian kernel equals exp(-(1+jc)/2*(t/(T/k))^(2m)), k = 2*(2 ln 2)^(1/(2m)), t over +-4 slots, as a normal form in (T, m, c, sps). C05.2: the only rescaling is x*Vout then +bias. C05.3: SAMPLER returns "
    "input[instant::gv.sps] through __getitem__ (same slice on signal and noise) and uses the same global sps as the DAC's expansion. "
    "C05.4: documented rejections: Vout, bias not int/float -> TypeError, |.|>=48 -> ValueError; c non-scalar -> TypeError; m non-int -> "
    "TypeError, m<=0 -> ValueError; T non-int -> TypeError, T<=0 or T>2*sps -> ValueError; unknown pulse_shape -> ValueError "
    "(comparison guards decided on every order class). Not decided: Gaussian peak position/height/width numerically.")
TRUSTED = ["numpy.kron/repeat/tile semantics", "scipy.signal.fftconvolve(mode='same') keeps the first operand's length", "gv.sps is an int (C14)"]

SPS = S("gv.sps")
BITS = S("input.data")


def nrz_core():
    return [mk_fn("kron", [BITS, mk_fn("ones", [SPS])]), mk_fn("repeat", [BITS, SPS])]


def run(ctx):
    pkg = ctx.pkg
    fi = pkg.func("devices.DAC")
    aff = lambda x: S("bias") + S("Vout") * x
    half = mk_fn("floordiv", [SPS, Form.num(2)])
    mask = mk_fn("tile", [mk_fn("setitem", [mk_fn("zeros", [SPS]), SliceV(Const(None), half, Const(None)), Form.num(1)]), mk_fn("size", [BITS])])
    for ps in ("nrz", "rect", "NRZ", "rz", "RZ", "gaussian", "GAUSSIAN"):
        it = Interp(pkg, assumptions={"pulse_shape": ps, "BW": None, "Vout": "notnone", "bias": "notnone"}, param_classes={"input": "binary_sequence"})
        outs = it.run(fi)
        rets = [o for o in outs if o.kind == "return"]
        if len(rets) != 1 or not isinstance(rets[0].value, ObjV):
            ctx.unknown("C05.1", fi, fi.node, f"DAC [{ps}]", f"{len(rets)} return paths")
            continue
        sig, node = rets[0].value.fields.get("signal"), rets[0].node
        low = ps.lower()
        if low in ("nrz", "rect"):
            ok = isinstance(sig, Form) and any(sig == aff(c) for c in nrz_core())
            ctx.check("C05.1", ok, fi, node, f"DAC [{ps}] = {sig!r}", "bias + Vout*kron(bits, ones(sps)): every sample of slot k equals bias+Vout*bits[k]",
                      "waveform is not the slot replication of the bits by gv.sps, scaled by Vout and offset by bias (operand order of kron and the factor matter)")
        elif low == "rz":
            slot = mk_fn("setitem", [mk_fn("zeros", [SPS]), SliceV(Const(None), half, Const(None)), Form.num(1)])
            # kron(bits, ones(sps)) * tile(slot, len(bits)) is kron(bits, slot): the slot pattern replicated per bit
            # or: one row of sps samples per bit, the first sps//2 columns set to the bit, read row by row
            allrows = SliceV(Const(None), Const(None), Const(None))
            table = mk_fn("setitem", [mk_fn("zeros", [TupleV([mk_fn("size", [BITS]), SPS])]), TupleV([allrows, SliceV(Const(None), half, Const(None))]),
                                      Form.atom(("idx", BITS, TupleV([allrows, Const(None)])))])
            by_rows = [mk_fn(f_, [table]) for f_ in ("ravel", "flatten")] + [mk_fn("reshape", [table, Form.num(-1)])]
            ok = isinstance(sig, Form) and (any(sig == aff(c * mask) for c in nrz_core()) or sig == aff(mk_fn("kron", [BITS, slot])) or any(sig == aff(r_) for r_ in by_rows))
            ctx.check("C05.1", ok, fi, node, f"DAC [{ps}] = {sig!r}", "NRZ times the sps-periodic mask with ones on [0, sps//2)",
                      f"RZ waveform is not bias + Vout*kron(bits, ones(sps))*{mask!r}")
        else:
            conv = [r for r in it.calls if r.callee == "scipy.signal.fftconvolve"]
            if len(conv) != 1:
                ctx.violation("C05.1", fi, node, f"DAC [{ps}]", "Gaussian branch does not convolve an impulse train with the pulse (scipy.signal.fftconvolve)")
                continue
            r = conv[0]
            ok_len = isinstance(sig, Form) and sig == aff(r.result / 2)
            mode = r.kwargs.get("mode", r.args[2] if len(r.args) > 2 else Const("full"))
            train = r.args[0]
            n_samples = SPS * mk_fn("size", [BITS])
            i1 = SliceV(mk_fn("int", [half]), Const(None), SPS)
            i2 = SliceV(mk_fn("int", [half - 1]), Const(None), SPS)
            z = mk_fn("zeros", [n_samples])
            want_a = mk_fn("setitem", [mk_fn("setitem", [z, i1, BITS]), i2, BITS])
            want_b = mk_fn("setitem", [mk_fn("setitem", [z, i2, BITS]), i1, BITS])
            probs = []
            if not ok_len:
                probs.append("output is not bias + Vout*conv/2")
            if mode != Const("same"):
                probs.append(f"mode={mode!r}: only 'same' keeps len(bits)*sps samples centred on the slots")
            if not (isinstance(train, Form) and train in (want_a, want_b)):
                probs.append(f"impulse train {train!r} is not zeros(len*sps) with the bits at offsets sps//2 and sps//2-1, stride sps")
            ctx.check("C05.1", not probs, fi, r.node, f"DAC [{ps}]: {src_of(r.node)}", "impulse pair per slot convolved with the pulse, same length", "; ".join(probs))
        # C05.2 nothing else rescales: covered by the equalities above; record the affine part explicitly
        if isinstance(sig, Form):
            lin = Form({m: c for m, c in sig.terms.items() if any(a == ("sym", "Vout") for a, _ in m)})
            rest = sig - lin
            ctx.check("C05.2", rest == S("bias"), fi, node, f"DAC [{ps}]: offset part = {rest!r}", "exactly + bias", "the waveform is offset by something other than `bias`")
    # the Gaussian kernel itself, as a closed form in (T, m, c, sps): exp(-(1+jc)/2 * (t/(T/k))^(2m)), k = 2*(2 ln 2)^(1/(2m)),
    # t = linspace(-4 sps, 4 sps, 8 sps) - the half-maximum width is T exactly because of that k
    import ast as _ast
    from ..absint import State
    from ..forms import DictV
    itg = Interp(pkg, assumptions={"pulse_shape": "gaussian", "BW": None, "Vout": "notnone", "bias": "notnone"}, param_classes={"input": "binary_sequence"},
                 param_values={"kwargs": DictV([(Const("m"), S("m")), (Const("c"), S("c")), (Const("T"), S("T"))])})
    itg.run(fi)
    convs = [r for r in itg.calls if r.callee == "scipy.signal.fftconvolve"]
    if len(convs) == 1 and len(convs[0].args) >= 2:
        env = {"sps": SPS, "T": S("T"), "m": S("m"), "c": S("c")}
        oracle_src = "np.exp(-(1 + 1j*c)/2 * (np.linspace(-4*sps, 4*sps, 8*sps) / (T / (2*(2*np.log(2))**(1/(2*m)))))**(2*m))"
        want_p = Interp(pkg).eval(_ast.parse(oracle_src, mode="eval").body, State(env), fi, 0)
        got_p = convs[0].args[1]
        ctx.check("C05.1", isinstance(got_p, Form) and got_p == want_p, fi, convs[0].node, f"DAC [gaussian]: pulse kernel = {got_p!r}"[:300],
                  "exp(-(1+jc)/2*(t/(T/k))^(2m)), k = 2*(2 ln2)^(1/(2m)), t over +-4 slots",
                  f"the Gaussian kernel differs from the documented pulse {want_p!r}: its half-maximum width is no longer T for every order m (or its support / chirp term changed)"[:600])
    else:
        ctx.unknown("C05.1", fi, fi.node, "DAC [gaussian]: pulse kernel", "convolution call not found")
    # a name is known only as a whole: pieces of the documented names (what a substring test `shape in "gaussian"` lets through) and
    # the empty string are unknown shapes too
    for frag in ("aussia", "ian", "g", "z", ""):            # pieces nobody would add as an alias
        itf = Interp(pkg, assumptions={"pulse_shape": frag, "BW": None}, param_classes={"input": "binary_sequence"})
        outs_f = itf.run(fi)
        acc = [o for o in outs_f if o.kind == "return"]
        if acc:
            ctx.violation("C05.4", fi, acc[0].node, f"DAC: pulse_shape={frag!r}", f"the fragment {frag!r} of a documented shape name is accepted as a pulse shape (a membership test against a string is a "
                          "substring test): unknown pulse shapes are not rejected with ValueError")
            break
    else:
        ctx.holds("C05.4", fi, fi.node, "DAC: fragments of the shape names", "rejected like any unknown shape")
    it = Interp(pkg, assumptions={"pulse_shape": "triangle", "BW": None}, param_classes={"input": "binary_sequence"})
    outs = it.run(fi)
    ctx.check("C05.4", bool(outs) and all(o.kind == "raise" for o in outs) and outs[-1].exc == "ValueError", fi, fi.node, "DAC: unknown pulse_shape", "raises ValueError", "an unknown pulse shape does not raise ValueError")
    # sps read from gv at call time
    it = Interp(pkg, assumptions={"pulse_shape": "nrz", "BW": None}, param_classes={"input": "binary_sequence"})
    it.run(fi)
    # ---------------- guards
    for p in ("Vout", "bias"):
        check_type_guard(ctx, "C05.4", fi, p, "TypeError", ["int", "float"], ["str", "complex", "list", "empty str", "empty list"])
        check_range_guard(ctx, "C05.4", fi, p, Reject(lambda x: abs(x) >= 48, [48, -48]), "ValueError", f"|{p}| >= 48", accept_sample=[0, Fraction(479, 10), -47])
    G = {"pulse_shape": "gaussian"}   # c, m, T parametrise the Gaussian pulse only
    check_type_guard(ctx, "C05.4", fi, "c", "TypeError", ["int", "float"], ["str", "list"], assumptions=G)
    check_type_guard(ctx, "C05.4", fi, "m", "TypeError", ["int"], ["float", "str"], assumptions=G)
    check_range_guard(ctx, "C05.4", fi, "m", Reject(lambda x: x <= 0, [0]), "ValueError", "m <= 0", accept_sample=[1, 4], assumptions=G, integer=True)
    check_type_guard(ctx, "C05.4", fi, "T", "TypeError", ["int"], ["float", "str"], assumptions=G, valuation=[(S("gv.sps"), 8)])
    for sps in (4, 25):
        check_range_guard(ctx, "C05.4", fi, "T", Reject(lambda x, s=sps: x <= 0 or x > 2 * s, [0, 2 * sps]), "ValueError", f"T <= 0 or T > 2*sps (sps={sps})", env={"sps": Fraction(sps)},
                          accept_sample=[1, sps, 2 * sps], assumptions=G, integer=True)
    # ---------------- SAMPLER
    fs_ = pkg.func("devices.SAMPLER")
    for noise in ("none", "notnone"):
        it = Interp(pkg, assumptions={"input.noise": noise}, param_classes={"input": "electrical_signal"})
        outs = it.run(fs_)
        rets = [o for o in outs if o.kind == "return"]
        if len(rets) != 1 or not isinstance(rets[0].value, ObjV):
            ctx.unknown("C05.3", fs_, fs_.node, f"SAMPLER [noise {noise}]", f"{len(rets)} return paths")
            continue
        o = rets[0].value
        sl = SliceV(S("instant"), Const(None), SPS)
        want_s = Form.atom(("idx", S("input.signal"), sl))
        ok = o.fields.get("signal") == want_s
        if noise == "notnone":
            ok = ok and o.fields.get("noise") == Form.atom(("idx", S("input.noise"), sl))
        else:
            ok = ok and isinstance(o.fields.get("noise"), Const)
        ctx.check("C05.3", ok, fs_, rets[0].node, f"SAMPLER [noise {noise}] -> signal {o.fields.get('signal')!r}", "input[instant::gv.sps] on signal and noise: stride = the DAC's expansion factor",
                  "SAMPLER is not input[instant::gv.sps] applied to signal and noise alike (start = instant, stride = gv.sps, no stop)")
    check_late_binding(ctx, "C05.5", ["devices.DAC", "devices.SAMPLER"])
    ctx.require_min("C05.1", 8)
    ctx.require_min("C05.3", 2)
    ctx.require_min("C05.4", 11)
