"""C06 - MZM transfer function, PM / LASER phase terms are pure rotations (devices.py)."""
from __future__ import annotations

import ast
import itertools
from fractions import Fraction

from ..absint import Interp, ObjV
from ..forms import Const, Form, fpow, mk_fn, is_real_form
from ..rules import PI, S, interp_returns, check_late_binding
from ..srcmodel import src_of

EXPLANATION = (
    "Value-form abstract interpretation of devices.MZM, PM and LASER for every combination of (noise present/absent, "
    "polarisation count, pol setting, drive container kind). C06.1: the factor multiplying the optical signal reduces to the "
    "polynomial normal form of sqrt(loss)*[cos g + j*10^(-ER/20)*sin g], g=pi*(u+bias)/(2*Vpi). C06.2/3: the same factor "
    "multiplies the noise, and its presence is decided by None-ness only (a value-dependent presence test leaves the result "
    "undetermined in the abstract domain and is reported). C06.4: polarisation blanking rows. C06.5: PM factor is exp(j*pi*u/Vpi) "
    "(exponent j x real, linear homogeneous in the drive => unit modulus and additive composition). C06.6: drive dispatch per "
    "container kind: length-mismatch ValueError, no attribute outside the ndarray API on sample arrays. "
    "C06.7: LASER field is sqrt(idbm(p)) times exp(j*real) factors, RIN the only non-unit factor; |df|>fs/2 raises ValueError. "
    "Not decided: numerical spectra, equality across containers beyond the shared code path.")
EXPLANATION += (' Added after the audit wave: C06.6 a numpy scalar drive (inst numpy.integer) is computed like the python scalar, not refused.')
TRUSTED = ["numpy elementwise arithmetic/broadcasting", "utils.idb/idbm as analysed in C19", "CPython ast"]

REAL_SYMS = {"Vpi", "bias", "loss_dB", "ER_dB", "el_input", "el_input.signal", "p", "lw", "rin", "df", "t", "gv.dt", "gv.fs"}


def real_atom(a):
    k = a[0]
    if k == "sym":
        return a[1] in REAL_SYMS
    if k in ("c", "num"):
        return True
    if k == "fn":
        if a[1] in ("cumsum", "numpy.random.normal", "numpy.random.randn", "abs", "cos", "sin", "exp10", "ones", "ones_like", "real"):
            return all(is_real_form(x, real_atom) if isinstance(x, Form) else True for x in a[2]) or a[1] in ("abs", "real", "numpy.random.normal", "numpy.random.randn", "ones", "ones_like")
        if a[1] in ("full", "full_like", "zeros", "zeros_like", "diff", "sqrt", "maximum", "minimum", "where", "clip"):
            return all(is_real_form(x, real_atom) if isinstance(x, Form) else True for x in a[2][(1 if a[1] in ("full", "full_like") else 0):]) or a[1] in ("zeros", "zeros_like")
        if a[1] == "setitem" and len(a[2]) == 3:
            return all(is_real_form(x, real_atom) for x in (a[2][0], a[2][2]) if isinstance(x, Form))       # a real array with real values stored into it
        if a[1].endswith(".normal") or a[1].endswith(".standard_normal"):
            return True       # a draw from a generator object
        return False
    if k == "meth" and a[2] in ("normal", "standard_normal", "random"):
        return True
    if k == "phi":
        return all(isinstance(x, Form) and is_real_form(x, real_atom) for x in a[2])
    if k == "idx":
        return isinstance(a[1], Form) and is_real_form(a[1], real_atom)
    if k == "grp":
        return is_real_form(a[1], real_atom)
    return False


def mzm_oracle(u):
    g = PI * (u + S("bias")) / (2 * S("Vpi"))
    loss = mk_fn("exp10", [-S("loss_dB") / 20])
    eta = mk_fn("exp10", [-S("ER_dB") / 20])
    return loss * (mk_fn("cos", [g]) + Form.num(0, 1) * eta * mk_fn("sin", [g]))


def strip_setitem(v):
    """setitem(x, row, 0) -> (x, row) ; else (v, None)"""
    if isinstance(v, Form):
        a = v.single_atom()
        if a is not None and a[0] == "fn" and a[1] == "setitem":
            base, idx, val = a[2]
            return base, idx, val
        # c * setitem(x, row, 0) = setitem(c*x, row, 0): a common factor applied after the row store
        if len(v.terms) == 1:
            (m, c), = v.terms.items()
            sets = [(at, e) for at, e in m if at[0] == "fn" and at[1] == "setitem"]
            if len(sets) == 1 and sets[0][1] == 1:
                base, idx, val = sets[0][0][2]
                rest = Form({tuple((at, e) for at, e in m if at is not sets[0][0]): c})
                if isinstance(base, Form) and isinstance(val, Form):
                    return rest * base, idx, rest * val
    return v, None, None


def rule_mzm(ctx):
    pkg = ctx.pkg
    fi = pkg.func("devices.MZM")
    for noise, npol, pol, drive in itertools.product(("none", "notnone"), (1, 2), ("x", "y"), ("es", "scalar", "ndarray")):
        ass = {"BW": None, "op_input.noise": noise, "op_input.n_pol": npol, "pol": pol}
        pc = {"op_input": "optical_signal"}
        if drive == "es":
            pc["el_input"] = "electrical_signal"
            u = S("el_input.signal")
        else:
            # a raw drive: a number or an array of samples (each kind on its own run, so that dispatch on the kind is decided)
            ass["el_input"] = [("notinst", "electrical_signal"), ("inst", "float", "int") if drive == "scalar" else ("inst", "numpy.ndarray", "ndarray")]
            u = S("el_input")
        it = Interp(pkg, assumptions=ass, param_classes=pc)
        outs = it.run(fi)
        rets = [o for o in outs if o.kind == "return"]
        case = f"noise={noise} n_pol={npol} pol={pol} drive={drive}"
        if len(rets) != 1 or not isinstance(rets[0].value, ObjV):
            ctx.unknown("C06.1", fi, fi.node, f"MZM [{case}]", f"{len(rets)} return paths / result not a signal object")
            continue
        out = rets[0].value
        node = rets[0].node
        if out.name == "op_input":
            ctx.violation("C06.4", fi, node, "MZM works directly on `op_input` (no copy)", "the modulated field and the row blanking are written into the caller's optical_signal")
        H = mzm_oracle(u)
        sig, srow, sval = strip_setitem(out.fields.get("signal"))
        want = H * S("op_input.signal")
        if not isinstance(sig, Form):
            ctx.unknown("C06.1", fi, node, f"MZM [{case}] signal", "signal is not an arithmetic form")
        else:
            ctx.check("C06.1", sig == want, fi, node, f"MZM [{case}] output.signal / input.signal = {sig / S('op_input.signal')!r}",
                      "equals sqrt(loss)*(cos g + j*10^(-ER/20)*sin g)",
                      f"transfer factor differs from the documented {H!r}")
        nz = out.fields.get("noise")
        if noise == "none":
            ok = isinstance(nz, Const) and nz.v is None or (isinstance(nz, Form) and nz.sym_name() == "op_input.noise")
            ctx.check("C06.2", ok, fi, node, f"MZM [{case}] output.noise = {nz!r}", "no noise component invented", "noise-free input yields a noise component")
            nrow = None
        else:
            nzb, nrow, nval = strip_setitem(nz)
            wantn = H * S("op_input.noise")
            if isinstance(nzb, Form) and nzb == wantn:
                ctx.holds("C06.2", fi, node, f"MZM [{case}] output.noise / input.noise", "same factor as the signal")
            elif isinstance(nzb, Form) and any(a[0] == "phi" for a in nzb.atoms()):
                ctx.violation("C06.3", fi, node, f"MZM [{case}] output.noise = {nzb!r}",
                              "whether the present noise component is modulated depends on a value test, not on `noise is not None`")
            else:
                ctx.violation("C06.2", fi, node, f"MZM [{case}] output.noise = {nzb!r}", f"noise is not multiplied by the signal's factor {H!r}")
        # polarisation blanking
        if npol == 2:
            wantrow = 1 if pol == "x" else 0
            ok = srow is not None and srow == Form.num(wantrow) and isinstance(sval, Form) and sval.is_zero()
            ctx.check("C06.4", ok, fi, node, f"MZM [{case}] signal row cleared = {srow!r}", f"row {wantrow} extinguished",
                      f"pol='{pol}' must zero row {wantrow} of the two-polarisation signal")
            if noise == "notnone":
                ok = nrow is not None and nrow == Form.num(wantrow) and isinstance(nval, Form) and nval.is_zero()
                ctx.check("C06.4", ok, fi, node, f"MZM [{case}] noise row cleared = {nrow!r}", f"row {wantrow} extinguished",
                          f"pol='{pol}' must zero row {wantrow} of the noise as well")
        else:
            ctx.check("C06.4", srow is None, fi, node, f"MZM [{case}] no row store", "one polarisation untouched", "a row is cleared on a one-polarisation signal")
        # stores must hit the copy, never the argument
        for (sfi, stmt, tgt, val, conds, depth) in it.store_log:
            if depth == 0 and tgt[0] == "idx":
                base_node = tgt[3]
                root = base_node
                while isinstance(root, (ast.Attribute, ast.Subscript)):
                    root = root.value
                if isinstance(root, ast.Name) and root.id == "op_input":
                    ctx.violation("C06.4", fi, stmt, src_of(stmt), "row store writes into the caller's op_input")
        if it.bad_attrs:
            for (bfi, bn, base, attr) in it.bad_attrs:
                ctx.violation("C06.6", bfi, bn, src_of(bn), f"`{base!r}` is an ndarray: it has no attribute `{attr}` (AttributeError for this drive kind)")
    # guards
    it = Interp(pkg, assumptions={"BW": None}, param_classes={"op_input": "optical_signal", "el_input": "electrical_signal"})
    outs = it.run(fi)
    raises = [o for o in outs if o.kind == "raise"]
    # decided on length classes (lengths are only compared with each other and with 1) and on the classes of `pol`
    from ..rules import _concrete_run
    la, lb = mk_fn("siglen", [S("op_input.signal")]), mk_fn("siglen", [S("el_input.signal")])
    probs, where = [], fi.node
    for na, nb in ((5, 3), (5, 5), (5, 1)):
        rej, e, out, _i = _concrete_run(pkg, fi, {}, {"BW": None}, {"op_input": "optical_signal", "el_input": "electrical_signal"}, [(la, na), (lb, nb)])
        must = na != nb and nb != 1
        if must and not rej:
            probs.append(f"lengths {na} and {nb} are accepted")
        elif must and e != "ValueError":
            probs.append(f"lengths {na} and {nb} raise {e}, documented ValueError")
        elif not must and rej:
            probs.append(f"compatible lengths {na} and {nb} are rejected ({e})")
        if out is not None and (must or rej):
            where = out.node
    ctx.check("C06.6", not probs, fi, where, "MZM: drive length mismatch", "raises ValueError; equal lengths or a one-sample drive accepted",
              "no ValueError on drive/optical length mismatch: " + "; ".join(probs))
    probs, where = [], fi.node
    for pv, valid in (("x", True), ("y", True), ("z", False), ("X", False)):
        rej, e, out, _i = _concrete_run(pkg, fi, {"pol": Const(pv)}, {"BW": None}, {"op_input": "optical_signal", "el_input": "electrical_signal"}, [(la, 5), (lb, 5)])
        if valid and rej:
            probs.append(f"pol='{pv}' is rejected ({e})")
        elif not valid and (not rej or e != "ValueError"):
            probs.append(f"pol='{pv}' " + ("is accepted" if not rej else f"raises {e}, documented ValueError"))
        if out is not None and rej:
            where = out.node
    pass  # (clause removed: the property statement names no exception for this case - it was read off the docstring, i.e. the check demanded more than the property)
    it = Interp(pkg, assumptions={"op_input": ("notinst", "optical_signal")})
    outs = it.run(fi)
    pass  # (clause removed: the property statement names no exception for this case - it was read off the docstring, i.e. the check demanded more than the property)


def rule_pm(ctx):
    pkg = ctx.pkg
    fi = pkg.func("devices.PM")
    kinds = {
        "scalar": ({"el_input": ("inst", "float", "int")}, {}, lambda: mk_fn("ones", [mk_fn("siglen", [S("op_input.signal")])]) * S("el_input")),
        # a numpy scalar (np.int64(2), an element of an integer array) is a Number and a scalar drive like the python ones
        "numpy scalar": ({"el_input": ("inst", "numpy.integer")}, {}, lambda: mk_fn("ones", [mk_fn("siglen", [S("op_input.signal")])]) * S("el_input")),
        "electrical_signal": ({}, {"el_input": "electrical_signal"}, lambda: S("el_input.signal")),
        "ndarray": ({"el_input": ("inst", "numpy.ndarray", "ndarray")}, {}, lambda: S("el_input")),
    }
    for noise in ("none", "notnone"):
        for kind, (ass0, pc0, ufn) in kinds.items():
            ass = dict(ass0)
            ass["op_input.noise"] = noise
            pc = {"op_input": "optical_signal"}
            pc.update(pc0)
            # a drive waveform is a one-dimensional array of samples ("drives of matching length"); a number has no axes
            val = {"scalar": [(S("el_input.ndim"), 0)], "numpy scalar": [(S("el_input.ndim"), 0)], "ndarray": [(S("el_input.ndim"), 1)], "electrical_signal": [(S("el_input.signal.ndim"), 1)]}[kind]
            it = Interp(pkg, assumptions=ass, param_classes=pc, valuation=val)
            outs = it.run(fi)
            case = f"noise={noise} drive={kind}"
            for (bfi, bn, base, attr) in it.bad_attrs:
                ctx.violation("C06.6", bfi, bn, src_of(bn), f"`{base!r}` is an ndarray: it has no attribute `{attr}` (AttributeError for a {kind} drive)")
            rets = [o for o in outs if o.kind == "return"]
            raises = [o for o in outs if o.kind == "raise"]
            if kind == "numpy scalar" and not rets and raises:
                ctx.violation("C06.6", fi, raises[-1].node, f"PM [{case}]", f"a numpy scalar drive (np.int64(2), np.float32(2), an element of an array: a Number, accepted by MZM) is rejected with {raises[-1].exc}: "
                              "only python int/float are recognised as scalar drives, so the same voltage gives a result or an exception depending on how it was computed")
                continue
            if kind not in ("scalar", "numpy scalar"):
                from ..rules import _concrete_run
                la = mk_fn("siglen", [S("op_input.signal")])
                lbs = [mk_fn("siglen", [S("el_input.signal")]), S("el_input.signal.size"), mk_fn("len", [S("el_input.signal")])] if kind == "electrical_signal" else [mk_fn("len", [S("el_input")]), S("el_input.size"), Form.atom(("idx", S("el_input.shape"), Form.num(0)))]
                probs, where = [], fi.node
                for na, nb in ((5, 3), (5, 5)):
                    rej, e, out, _i = _concrete_run(pkg, fi, {}, ass, pc, [(la, na)] + [(x, nb) for x in lbs] + val)
                    if na != nb and (not rej or e != "ValueError"):
                        probs.append(f"lengths {na} and {nb} " + ("are accepted" if not rej else f"raise {e}"))
                    elif na == nb and rej:
                        probs.append(f"equal lengths are rejected ({e})")
                    if out is not None and rej:
                        where = out.node
                ctx.check("C06.6", not probs, fi, where, f"PM [{kind}]: length mismatch", "raises ValueError; equal lengths accepted",
                          f"a {kind} drive of the wrong length is not rejected with ValueError: " + "; ".join(probs))
            if len(rets) != 1 or not isinstance(rets[0].value, ObjV):
                ctx.unknown("C06.5", fi, fi.node, f"PM [{case}]", f"{len(rets)} return paths")
                continue
            out, node = rets[0].value, rets[0].node
            u = ufn()
            F = mk_fn("exp", [Form.num(0, 1) * PI * u / S("Vpi")])
            sig = out.fields.get("signal")
            if not isinstance(sig, Form):
                ctx.unknown("C06.5", fi, node, f"PM [{case}] signal", "not a form")
                continue
            if kind in ("scalar", "numpy scalar") and sig != F * S("op_input.signal") and sig == mk_fn("exp", [Form.num(0, 1) * PI * S("el_input") / S("Vpi")]) * S("op_input.signal"):
                F = mk_fn("exp", [Form.num(0, 1) * PI * S("el_input") / S("Vpi")])       # the scalar broadcast by the arithmetic itself
            ctx.check("C06.5", sig == F * S("op_input.signal"), fi, node, f"PM [{case}] output.signal / input.signal = {sig / S('op_input.signal')!r}",
                      "equals exp(j*pi*u/Vpi): unit modulus, exponent linear in the drive", f"phase factor differs from {F!r}")
            nz = out.fields.get("noise")
            if noise == "none":
                ok = isinstance(nz, Const) and nz.v is None
                if not ok and isinstance(nz, Form) and any(a[0] == "phi" for a in nz.atoms()):
                    test = _presence_test(fi)
                    ctx.violation("C06.3", fi, test if test is not None else node, src_of(test.test) if test is not None else f"output.noise = {nz!r}",
                                  "a present noise component is kept or dropped depending on its *values* (truthiness), not on `noise is not None`: "
                                  "zero-sum noise is silently discarded and the total-field power changes")
                else:
                    ctx.check("C06.2", ok, fi, node, f"PM [{case}] output.noise = {nz!r}", "no noise invented", "noise-free input yields a noise component")
            else:
                if isinstance(nz, Form) and nz == F * S("op_input.noise"):
                    ctx.holds("C06.2", fi, node, f"PM [{case}] output.noise / input.noise", "rotated like the signal")
                elif isinstance(nz, Form) and any(a[0] == "phi" for a in nz.atoms()):
                    test = _presence_test(fi)
                    ctx.violation("C06.3", fi, test if test is not None else node, src_of(test.test) if test is not None else f"output.noise = {nz!r}",
                                  "a present noise component is kept or dropped depending on its *values* (truthiness), not on `noise is not None`: "
                                  "zero-sum noise is silently discarded and the total-field power changes")
                else:
                    ctx.violation("C06.2", fi, node, f"PM [{case}] output.noise = {nz!r}", f"present noise is not rotated by {F!r}")
    # fall-through TypeError
    it = Interp(pkg, assumptions={"el_input": ("notinst", "float", "int", "electrical_signal", "numpy.ndarray", "ndarray")}, param_classes={"op_input": "optical_signal"})
    outs = it.run(fi)
    ok = len(outs) >= 1 and all(o.kind == "raise" for o in outs) and outs[-1].exc == "TypeError"
    pass  # (clause removed: the property statement names no exception for this case - it was read off the docstring, i.e. the check demanded more than the property)
    it = Interp(pkg, assumptions={"op_input": ("notinst", "optical_signal")})
    outs = it.run(fi)
    pass  # (clause removed: the property statement names no exception for this case - it was read off the docstring, i.e. the check demanded more than the property)


def _presence_test(fi):
    for n in ast.walk(fi.node):
        if isinstance(n, ast.If) and "noise" in src_of(n.test) and any(isinstance(s, ast.Assign) and "noise" in src_of(s.targets[0]) for s in n.body):
            return n
    return None


def rule_laser(ctx):
    pkg = ctx.pkg
    fi = pkg.func("devices.LASER")
    amp = fpow(mk_fn("exp10", [S("p") / 10 - 3]), Fraction(1, 2))
    for lw, rin, df in itertools.product(("none", "notnone"), ("none", "notnone"), ("none", "notnone")):
        it = Interp(pkg, assumptions={"lw": lw, "rin": rin, "df": df})
        outs = it.run(fi)
        rets = [o for o in outs if o.kind == "return"]
        case = f"lw={lw} rin={rin} df={df}"
        if len(rets) != 1 or not isinstance(rets[0].value, ObjV):
            ctx.unknown("C06.7", fi, fi.node, f"LASER [{case}]", f"{len(rets)} return paths")
            continue
        sig = rets[0].value.fields.get("signal")
        node = rets[0].node
        if not isinstance(sig, Form) or len(sig.terms) != 1:
            ctx.violation("C06.7", fi, node, f"LASER [{case}] field = {sig!r}", "field is not a single product of amplitude and phase factors")
            continue
        (m, c), = sig.terms.items()
        rest = Form({(): c})
        bad = None
        n_exp = 0
        for a, e in m:
            if a[0] == "fn" and a[1] == "exp":
                n_exp += 1
                E = a[2][0]
                # exponent must be j x real
                Ej = E * Form.num(0, -1)
                if not is_real_form(Ej, real_atom):
                    bad = f"exponent {E!r} is not j x (real): the factor changes the instantaneous power"
            elif a[0] == "fn" and a[1] in ("ones_like", "ones"):
                continue            # an array of ones: the constant amplitude at every sample
            else:
                rest = rest * fpow(Form.atom(a), e)
        if bad:
            ctx.violation("C06.7", fi, node, f"LASER [{case}] field = {sig!r}", bad)
            continue
        if rin == "none":
            ctx.check("C06.7", rest == amp, fi, node, f"LASER [{case}] |E| = {rest!r}", "equals sqrt(idbm(p)); all other factors exp(j*real)",
                      f"modulus {rest!r} differs from sqrt(idbm(p)) = {amp!r}: |E|^2 != P")
        else:
            q = rest / amp
            ok = len(q.terms) == 1 and all(a[0] == "grp" for mm in q.terms for a, _ in mm)
            ctx.check("C06.7", ok, fi, node, f"LASER [{case}] |E|/sqrt(P) = {q!r}", "only the RIN factor sqrt(1+rin_noise) remains",
                      "unexpected non-unit factor besides RIN")
        want_exp = (lw == "notnone") + (df == "notnone")
        if n_exp != (1 if want_exp else 0):
            ctx.violation("C06.7", fi, node, f"LASER [{case}] phase factors", f"expected a merged phase term for lw/df presence, found {n_exp}")
        if df == "notnone":
            E = [a for a, e in m if a[0] == "fn" and a[1] == "exp"][0][2][0]
            dterm = Form.num(0, 2) * PI * S("df") * S("t")
            lin = E - dterm
            ctx.check("C06.7", "df" not in lin.syms(), fi, node, f"LASER [{case}] offset phase", "exp(j*2*pi*df*t)", f"frequency-offset phase is not 2*pi*df*t (exponent {E!r})")
        if df == "notnone":
            # |df| beyond Nyquist: decided on the order classes of df around +-fs/2 (fs = 8 here; df is compared with fs/2 only)
            from ..rules import Reject, check_range_guard
            check_range_guard(ctx, "C06.7", fi, "df", Reject(lambda x: abs(x) > 4, [4, -4]), "ValueError", f"LASER [{case}] |df| > fs/2", accept_sample=[0, 3, -3, 4, -4],
                              assumptions={"lw": lw, "rin": rin}, valuation=[(S("gv.fs"), 8)], integer=False)


def _st(env):
    from ..absint import State
    return State(env)


def _find_test(fi, src):
    for n in ast.walk(fi.node):
        if isinstance(n, ast.If) and src_of(n.test) == src:
            return n.test
    return None


def run(ctx):
    rule_mzm(ctx)
    rule_pm(ctx)
    rule_laser(ctx)
    check_late_binding(ctx, "C06.8", ["devices.MZM", "devices.PM", "devices.LASER"])
    # PM(PM(x,a),b) = PM(x,a+b) and "identical results for every drive container": only if a call leaves its drive as it found it
    from .c14 import rule_inplace
    rule_inplace(ctx, "C06.9", ["devices.PM", "devices.MZM", "devices.LASER"])
    ctx.require_min("C06.9", 3)
    ctx.require_min("C06.1", 16)
    ctx.require_min("C06.2", 16)
    ctx.require_min("C06.5", 6)
    ctx.require_min("C06.6", 3)
    ctx.require_min("C06.7", 8)
