"""C07 - linear propagation: DM and FIBER(gamma=0) are exact all-pass filters, additive in length."""
from __future__ import annotations

import ast
from fractions import Fraction

from ..absint import Interp, ObjV
from ..forms import Const, Form, TupleV, fpow, mk_fn, is_real_form
from ..rules import PI, S, body_nodes, check_late_binding
from ..srcmodel import src_of
from . import c08

EXPLANATION = (
    "Value-form abstract interpretation of devices.DM and devices.FIBER. C07.1: DM applies H=exp(E) with E = -j*w^2*(D*1e-24)/2, "
    "w = 2*pi*fftfreq(len)*gv.fs (exponent j x real => |H|=1), as ifft(H*fft(x)) on the last axis. C07.3: FIBER's dispersion "
    "operator reduces to -alpha'/2 - j/2*beta2*W^2 - j/6*beta3*W^3, W = w*1e-12, alpha' = alpha/(10/ln10 within 1e-3), and exp_L is "
    "exp(D_op*h) for the same h the step accounting adds up. C07.4: DM's exponent with D:=beta2*h equals FIBER's beta2 term "
    "(sibling agreement, unit scales 1e-24 = (1e-12)^2 included). C07.5: on every CFG path the steps applied sum to `length` "
    "(Karr affine-equality analysis with a ghost distance variable, shared with C08.1) and gamma==0 selects the single full step. "
    "C07.7: retH returns fftshift of the applied H. Not decided: rounding-level equality "
    "of compositions.")
EXPLANATION += (" Second audit wave: C07.3 the dB-to-neper constant of FIBER's loss term equals 10/ln(10) to 1e-9 (the rounded 4.343 had been tolerated; it leaves the output power off by 1.5e-4 after 50 dB).")
EXPLANATION += (' Wave 14: C07.10 no row of the field is singled out inside FIBER without a two-polarisation guard (the rank clause of C08.3 reported here: every polarisation is filtered alike).')
TRUSTED = ["numpy.fft conventions (fft/ifft inverse, fftfreq grid)", "electrical_signal.__call__/w as checked in C02", "CPython ast"]

REAL = {"D", "alpha", "beta_2", "beta_3", "gamma", "length", "gv.fs", "phi_max"}


def real_atom(a):
    k = a[0]
    if k == "sym":
        return a[1] in REAL
    if k in ("c", "num", "loop"):
        return True
    if k == "fn":
        if a[1] in ("fftshift", "ifftshift") and len(a[2]) == 1 and isinstance(a[2][0], Form):
            return is_real_form(a[2][0], real_atom)      # a reordering of real numbers
        return a[1] in ("fftfreq", "siglen", "abs", "max")
    if k == "grp":
        return is_real_form(a[1], real_atom)
    return False


def w_form():
    return 2 * PI * mk_fn("fftfreq", [mk_fn("siglen", [S("input.signal")])]) * S("gv.fs")


def _mark_shifted(f, mark=False):
    """the form with every fftshift removed and every frequency-grid atom under one renamed: an element-wise function of uniformly
    reordered arrays is the reordered function, so fftshift(g(w)) and g(fftshift(w)) get the same form"""
    if not isinstance(f, Form):
        return f

    def sub(a):
        if a[0] == "fn" and a[1] == "fftshift" and len(a[2]) == 1 and isinstance(a[2][0], Form) and not [k for k, v_ in a[3] if k not in ("axes",)]:
            return _mark_shifted(a[2][0], True)
        if a[0] == "fn" and a[1] == "fftfreq" and mark:
            return Form.atom(("fn", "fftfreq@shifted", a[2], a[3]))
        if a[0] == "fn" and mark and a[1] in ("exp", "cos", "sin", "abs", "conj", "real", "imag") and len(a[2]) == 1 and isinstance(a[2][0], Form):
            return Form.atom(("fn", a[1], (_mark_shifted(a[2][0], True),), a[3]))
        if a[0] == "fn" and not mark and a[1] in ("exp", "cos", "sin", "abs", "conj", "real", "imag") and len(a[2]) == 1 and isinstance(a[2][0], Form):
            return Form.atom(("fn", a[1], (_mark_shifted(a[2][0], False),), a[3]))
        return None
    return f.subst(sub)


def rule_dm(ctx, r_out="C07.1", r_h="C07.7"):
    pkg = ctx.pkg
    fi = pkg.func("devices.DM")
    w = w_form()
    E = Form.num(0, -1) * w * w * S("D") * Form.num(Fraction(1, 10 ** 24)) / 2
    H = mk_fn("exp", [E])
    for noise, reth in (("none", False), ("notnone", False), ("none", True), ("notnone", True)):
        it = Interp(pkg, assumptions={"retH": reth, "input.noise": noise}, param_classes={"input": "optical_signal"})
        outs = it.run(fi)
        rets = [o for o in outs if o.kind == "return"]
        if reth and len(rets) == 1 and isinstance(rets[0].value, TupleV) and len(rets[0].value.items) == 2 and isinstance(rets[0].value.items[0], ObjV):
            out, node = rets[0].value.items[0], rets[0].node          # the field returned next to the response is the same filtered field
        elif len(rets) != 1 or not isinstance(rets[0].value, ObjV):
            ctx.unknown(r_out, fi, fi.node, f"DM [noise={noise}{', retH' if reth else ''}]", f"{len(rets)} return paths")
            continue
        else:
            out, node = rets[0].value, rets[0].node
        noise = f"{noise}, retH" if reth else noise
        sig = out.fields.get("signal")
        want = mk_fn("ifft", [H * mk_fn("fft", [S("input.signal")], [("axis", Form.num(-1))])], [("axis", Form.num(-1))])
        if isinstance(sig, Form) and sig == want:
            ctx.holds(r_out, fi, node, f"DM [noise={noise}] output = ifft(H*fft(x)), H = {H!r}", "all-pass: exponent is j x real, coefficient -w^2*D*1e-24/2")
        else:
            # diagnose the exponent
            exps = [a for a in (sig.atoms() if isinstance(sig, Form) else []) if a[0] == "fn" and a[1] == "exp"]
            got = exps[0][2][0] if exps else None
            if got is not None and got != E:
                real = is_real_form(got * Form.num(0, -1), real_atom)
                why = "" if real else " and is not j x (real): |H| != 1, energy is not conserved"
                ctx.violation(r_out, fi, node, f"DM exponent = {got!r}", f"differs from -j*w^2*D*1e-24/2 = {E!r}{why}")
            else:
                ctx.violation(r_out, fi, node, f"DM [noise={noise}] output.signal", f"output is not ifft(H*fft(input, axis=-1), axis=-1) with the documented H")
    # retH
    it = Interp(pkg, assumptions={"retH": True, "input.noise": "none"}, param_classes={"input": "optical_signal"})
    outs = it.run(fi)
    rets = [o for o in outs if o.kind == "return"]
    if len(rets) == 1 and isinstance(rets[0].value, TupleV) and len(rets[0].value.items) == 2:
        Hret = rets[0].value.items[1]
        want = mk_fn("fftshift", [H])
        ctx.check(r_h, isinstance(Hret, Form) and (Hret == want or _mark_shifted(Hret) == _mark_shifted(want)), fi, rets[0].node, f"DM retH = {Hret!r}"[:300], "fftshift of the applied H",
                  f"the response returned by retH is not fftshift of the filter actually applied ({want!r})")
    else:
        ctx.unknown(r_h, fi, fi.node, "DM retH", "retH return not a (signal, H) pair")
    it = Interp(pkg, assumptions={"input": ("notinst", "optical_signal")})
    outs = it.run(fi)
    pass  # (clause removed: the property statement names no exception for this case - it was read off the docstring, i.e. the check demanded more than the property)
    return E


def fiber_forms(ctx):
    pkg = ctx.pkg
    fi = pkg.func("devices.FIBER")
    it = Interp(pkg, assumptions={"show_progress": False, "input.noise": "none"}, param_classes={"input": "optical_signal"})
    it.run(fi)
    c08.canonical_operator(it)
    return fi, it


def rule_fiber(ctx, E_dm):
    pkg = ctx.pkg
    fi, it = fiber_forms(ctx)
    w = w_form()
    W = w * Form.num(Fraction(1, 10 ** 12))
    got = c08.rule_dop(ctx, fi, it, "C07.3")
    if got is None:
        return
    b2, dop_stmt = got
    # C07.4 DM == FIBER(beta2): E_dm with D := beta_2*h  equals  b2 * h
    h = S("h")
    lhs = E_dm.subst(lambda a: S("beta_2") * h if a == ("sym", "D") else None)
    ctx.check("C07.4", lhs == b2 * h, fi, dop_stmt, "DM(D=beta2*h) exponent vs FIBER beta2 term * h", "equal forms (1e-24 = (1e-12)^2)",
              f"DM uses {lhs!r} but FIBER uses {b2 * h!r}: the two implementations of the same filter disagree")
    # C07.5 / C08.1 step accounting and C08.2 sites are shared with C08
    itn, gform = c08.fiber_interp(pkg, "nonzero")
    c08.rule_steps(ctx, fi, itn, rule_acc="C07.5", rule_site=None, dop=c08.find_dop(itn)[0], gamma=gform)
    # "act as the linear filter exp(...)" for every input: the field returned is the propagated (complex) field itself, not a copy cast to
    # the storage type of the input - a field given as real samples would lose the imaginary part the dispersion gives it
    c08.rule_returned_field(ctx, fi, itn, "C07.9")
    # C07.10 every polarisation is filtered alike: no row of the field is singled out inside FIBER (a row index on a rank-generic field)
    c08.rule_rank_guard(ctx, fi, "C07.10")
    # gamma == 0 -> single full-length step
    it0 = Interp(pkg, assumptions={"show_progress": False, "input.noise": "none", "gamma": 0}, param_classes={"input": "optical_signal"})
    it0.run(fi)
    first_h = None
    hname = c08.step_variable(fi, itn, c08.find_dop(itn)[0], gamma=gform)
    for f, stmt, name, val, conds, depth in it0.assign_log:
        if depth == 0 and name == hname:
            first_h = (val, stmt)
            break
    if first_h is None:
        ctx.unknown("C07.5", fi, fi.node, "FIBER first step", "no assignment to the step-size variable")
    else:
        ctx.check("C07.5", isinstance(first_h[0], Form) and first_h[0] == S("length"), fi, first_h[1], f"gamma=0: first step h = {first_h[0]!r}"[:200],
                  "single step of the full length", "with gamma == 0 the first step is not the whole length")
    itn = Interp(pkg, assumptions={"input": ("notinst", "optical_signal")})
    outs = itn.run(fi)
    pass  # (clause removed: the property statement names no exception for this case - it was read off the docstring, i.e. the check demanded more than the property)


def run(ctx):
    E = rule_dm(ctx)
    rule_fiber(ctx, E)
    check_late_binding(ctx, "C07.6", ["devices.DM", "devices.FIBER"])
    # DM(-D) undoes DM(D), DM(D1) after DM(D2) = DM(D1+D2): only if a call leaves its D (and its field) as it found them
    from .c14 import rule_inplace
    rule_inplace(ctx, "C07.8", ["devices.DM", "devices.FIBER"])
    ctx.require_min("C07.1", 2)
    ctx.require_min("C07.3", 4)
    ctx.require_min("C07.4", 1)
    ctx.require_min("C07.5", 2)
    ctx.require_min("C07.7", 1)
    ctx.require_min("C07.8", 2)
    ctx.require_min("C07.9", 1)
