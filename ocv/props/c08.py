"""C08 - nonlinear FIBER: step accounting (energy law), symmetric split step, polarisation rank guard, exact shortcut."""
from __future__ import annotations

import ast
from fractions import Fraction

from .. import karr
from ..absint import Interp, ObjV
from ..cfg import CFG
from ..forms import Const, Form, fpow, mk_fn, is_real_form, const_float
from ..rules import PI, S, body_nodes, parents, check_late_binding
from ..srcmodel import src_of

EXPLANATION = (
    "devices.FIBER. C08.1: Karr affine-equality analysis over the function's CFG with a ghost variable z (z:=0 at entry, z:=z+s at "
    "every split-step application with step s) proves z = length at every return, i.e. the steps applied always sum to the fibre "
    "length; with Re(D_op) = -alpha'/2 (C07.3) and unit-modulus nonlinear factors this is the energy law 10^(-alpha*L/10) whatever "
    "phi_max is. C08.2: each application has the normal form N*ifft(L*fft(N*A)), N = exp(j*gamma*(s/2)*|A|^2), L = exp(D_op*s) with "
    "one and the same s. C08.3: a constant subscript used as polarisation selector on the field (rank 1 or 2 depending on n_pol) must "
    "be dominated by a two-polarisation guard; otherwise it selects samples of a one-polarisation signal. C08.4: each disjunct of the "
    "single-step shortcut is gamma==0 or tests ==0 every parameter D_op depends on (alpha, beta_2, beta_3). C08.6: D_op is the NLSE's linear operator -alpha'/2 - j/2*beta2*W^2 - j/6*beta3*W^3 (shared with C07.3). C08.7: the returned field is the field the stepping loop ends with (not a cast copy stored into a buffer of the input's dtype). Not decided: convergence "
    "to the NLSE solution, finiteness.")
EXPLANATION += (' Added after the audit wave: C08.8 the first adaptive step is bounded by the fibre length before it is used (a weak field in a lossy fibre otherwise steps past the end: negative remainder, exp(+alpha*h/2) overflow, NaN output; an all-zero field never returned).')
EXPLANATION += (' Second audit wave: C08.6 the dB-to-neper constant equals 10/ln(10) to 1e-9 (constants written with log(10) are evaluated by forms.const_float).')
EXPLANATION += (" Wave 14: C08.10 the adaptive step is sized by the total power over the polarisation rows - no mean / average over the rows of atleast_2d(A) in the value assigned to the step variable (an empty second polarisation must not change the steps). C08.9 the in-place clause of C14 for FIBER's parameters.")
EXPLANATION += (' Wave 15: C08.11 with a noise component on the input, neither the returned signal nor the value the stepping loop starts from reads input.noise: the propagated field is the signal, the noise is carried beside it.')
TRUSTED = ["numpy.fft", "Karr's affine-relation domain as implemented in ocv/karr.py", "C07.3 (D_op form)"]


def split_step(A, s, dop, gamma):
    N = mk_fn("exp", [Form.num(0, 1) * gamma * (s / 2) * fpow(mk_fn("abs", [A]), 2)])
    L = mk_fn("exp", [dop * s])
    return N * mk_fn("ifft", [L * mk_fn("fft", [N * A])])


def _is_step_value(val, depth=0):
    """the value is a propagation step: a product with an ifft factor, or a merge of alternatives one of which is (a step that
    is bypassed on some path is still a propagation statement - and then not the symmetric split step on that path)"""
    if not isinstance(val, Form) or depth > 3:
        return False
    if any(x[0] == "fn" and x[1] == "ifft" for x in val.atoms(deep=False)):
        return True
    a = val.single_atom()
    if a is not None and a[0] == "phi":
        return any(_is_step_value(x, depth + 1) for x in a[2])
    return False


def find_sites(fi, it):
    """[(stmt, field var, value, env)] for every propagation statement at depth 0"""
    out = []
    for f, stmt, name, val, conds, depth in it.assign_log:
        if depth != 0 or not isinstance(val, Form) or not isinstance(stmt, ast.Assign):
            continue
        if _is_step_value(val):
            env = it.snapshots.get(stmt)
            if env is not None and name in env:
                out.append((stmt, name, val, env))
    return out


def find_dop(it):
    """the linear (dispersion) operator by its role: a top-level value polynomial in beta_2 and beta_3 - among several (temporaries
    holding parts of it) the one that also carries the loss term, else the last assigned before it is used.
    -> (value, statement, variable name)"""
    cands = []
    for f, stmt, name, val, conds, depth in it.assign_log:
        if depth == 0 and isinstance(val, Form):
            syms = {a[1] for a in val.atoms() if a[0] == "sym"}
            if "beta_2" in syms and "beta_3" in syms:
                cands.append((val, stmt, name, "alpha" in syms))
    if not cands:
        return None, None, None
    full = [c for c in cands if c[3]]
    best = (full or cands)[0]
    return best[0], best[1], best[2]


def step_variable(fi, it, dop=None, gamma=None):
    """name of the step-size variable by its role: the value s for which a propagation site is the symmetric split step of size s"""
    if dop is None:
        dop = find_dop(it)[0]
    if dop is None:
        return None
    gamma = S("gamma") if gamma is None else gamma
    for stmt, fvar, val, env in find_sites(fi, it):
        A = env[fvar]
        for nm, v in env.items():
            if nm == fvar or not isinstance(v, Form) or v.const_value() is not None:
                continue
            try:
                if split_step(A, v, dop, gamma) == val:
                    return nm
            except Exception:
                continue
    return None


def fiber_interp(pkg, gamma_class):
    """FIBER interpreted for one class of the nonlinear coefficient: the code only tests gamma against 0, and with gamma == 0 the
    nonlinear factor is exp(0) = 1 whatever power estimate it is given, so the two classes are analysed separately"""
    ass = {"show_progress": False, "input.noise": "none"}
    pv = {}
    if gamma_class == "zero":
        pv["gamma"] = Form.num(0)
    else:
        ass["gamma"] = ("truth", True)
    it = Interp(pkg, assumptions=ass, param_classes={"input": "optical_signal"}, param_values=pv)
    it.keep_cond_forms = True
    it.run(pkg.func("devices.FIBER"))
    canonical_operator(it)
    return it, (Form.num(0) if gamma_class == "zero" else S("gamma"))


def _valid_partial(it, dop, dop_name, alt):
    """alt differs from the full operator only by terms that the condition guarding the full assignment makes zero"""
    if not isinstance(alt, Form):
        return False
    if alt == dop:
        return True
    full_conds = [conds_ for f_, stmt_, name_, val_, conds_, depth_ in it.assign_log if depth_ == 0 and name_ == dop_name and isinstance(val_, Form) and val_ == dop]
    zeros = set()
    for src_, pol_ in (full_conds[0] if full_conds else ()):
        if pol_:
            zeros |= _names_zero_when_false(src_)
    missing = dop - alt
    return all(any(a[0] == "sym" and a[1] in zeros for a, _e in m) for m in missing.terms)


def canonical_operator(it):
    """a linear operator assembled conditionally (`D = -alpha/2; if beta_2 or beta_3: D = D - ...`) reaches the propagation statements as
    a merge of the full operator and a partial one.  When every partial alternative is the full operator with terms that are zero
    on its path (the guard says so), the merge denotes the full operator: it is replaced by it in the recorded values, so that the
    split-step, step-accounting and single-step clauses see one operator.  A merge with an alternative that is NOT justified stays
    as it is (and C07.3 / C08.6 report it)."""
    dop, _stmt, dop_name = find_dop(it)
    if not isinstance(dop, Form) or dop_name is None:
        return
    targets = {}

    def scan(v):
        if isinstance(v, Form):
            for a in v.atoms():
                if a[0] == "phi" and a[1].split("@")[0].lstrip("<") == dop_name and a not in targets:
                    alts = list(_phi_alternatives(Form.atom(a)))
                    targets[a] = all(_valid_partial(it, dop, dop_name, x) for x in alts)
    for f_, stmt_, name_, val_, conds_, depth_ in it.assign_log:
        scan(val_)
    for env in getattr(it, "snapshots", {}).values():
        for v in env.values():
            scan(v)
    good = {a for a, ok in targets.items() if ok}
    if not good:
        return
    fn = lambda a: dop if a in good else None
    it.assign_log[:] = [(f_, stmt_, name_, (val_.subst(fn) if isinstance(val_, Form) else val_), conds_, depth_) for f_, stmt_, name_, val_, conds_, depth_ in it.assign_log]
    for stmt_, env in list(getattr(it, "snapshots", {}).items()):
        for k_, v in list(env.items()):
            if isinstance(v, Form):
                env[k_] = v.subst(fn)
    fe = getattr(it, "final_env", None)
    if isinstance(fe, dict):
        for k_, v in list(fe.items()):
            if isinstance(v, Form):
                fe[k_] = v.subst(fn)
    for o in getattr(it, "outcomes", []):
        from ..absint import ObjV
        if isinstance(getattr(o, "value", None), ObjV):
            for k_, v in list(o.value.fields.items()):
                if isinstance(v, Form):
                    o.value.fields[k_] = v.subst(fn)


def rule_steps(ctx, fi, it, rule_acc="C08.1", rule_site="C08.2", dop=None, gamma=None, label=""):
    dop_name = None
    if dop is None:
        dop, _, dop_name = find_dop(it)
    sites = find_sites(fi, it)
    if len(sites) < 1 or dop is None:
        ctx.unknown(rule_acc or rule_site, fi, fi.node, "FIBER propagation sites", "no split-step application found")
        return
    gamma = S("gamma") if gamma is None else gamma
    stepvar = {}
    for stmt, fvar, val, env in sites:
        A = env[fvar]
        found = None
        for nm, v in env.items():
            if nm == fvar or not isinstance(v, Form):
                continue
            if v.const_value() is not None:
                continue
            try:
                if split_step(A, v, dop, gamma) == val:
                    found = nm
                    break
            except Exception:
                continue
        stepvar[stmt] = found
        where = "inside the stepping loop" if any(isinstance(p, (ast.While, ast.For)) for p in parents(stmt)) else "after the loop (final partial step)"
        if rule_site:
            if found is not None:
                ctx.holds(rule_site, fi, stmt, src_of(stmt) + " " + where + label, f"symmetric split step N*ifft(L*fft(N*A)) with N=exp(j*gamma*({found}/2)*|A|^2), L=exp(D_op*{found})")
            else:
                ctx.violation(rule_site, fi, stmt, src_of(stmt) + " " + where + label + " [with exp_NL/exp_L as assigned before it]",
                              "not the symmetric split step N*ifft(L*fft(N*A)) with N=exp(j*gamma*(s/2)*|A|^2), L=exp(D_op*s) for one step size s "
                              "(half-step, full step and accounting must use the same s)")
    if rule_acc is None:
        return
    # Karr
    g = CFG(fi.node)
    length = fi.params[1] if len(fi.params) > 1 else "length"
    assigned = set()
    for n in body_nodes(fi):
        if isinstance(n, ast.Name) and isinstance(n.ctx, ast.Store):
            assigned.add(n.id)
    names = ["z"] + sorted((assigned | {length}) - {"z"})
    ghost = {}
    for stmt, fvar, val, env in sites:
        node = g.node_of(stmt)
        if node is None:
            ctx.unknown(rule_acc, fi, stmt, src_of(stmt), "site not in CFG")
            return
        sv = stepvar[stmt]
        if sv is None:
            # fall back to the variable multiplying D_op in the most recent exp_L (keeps accounting decidable)
            sv = _step_from_ast(fi, stmt, dop_name or find_dop(it)[2])
        ghost[node.id] = sv if sv is not None else "?"
    try:
        st = karr.analyse(g, names, ghost)
    except RuntimeError as ex:
        ctx.unknown(rule_acc, fi, fi.node, "FIBER step accounting", str(ex))
        return
    zi, li = names.index("z"), names.index(length)
    coeffs = [Fraction(0)] * len(names)
    coeffs[zi] = Fraction(1)
    coeffs[li] = Fraction(-1)
    nret = 0
    for n in g.nodes:
        if n.kind != "return":
            continue
        nret += 1
        s = st.get(n.id)
        if s is None or s.is_bottom():
            continue
        if s.entails(coeffs, Fraction(0)):
            ctx.holds(rule_acc, fi, n.ast, f"at `{src_of(n.ast)}`: sum of applied steps = {length}", "affine invariant z = length holds on every path")
        else:
            rel = s.describe(names)
            ctx.violation(rule_acc, fi, n.ast, f"at `{src_of(n.ast)}`: sum of applied steps = {length}",
                          f"not implied on every path to this return; strongest affine relation there: {rel[:300]} -- a step is applied but not "
                          "accounted (or vice versa), so the propagated distance differs from the fibre length")
    if nret == 0:
        ctx.unknown(rule_acc, fi, fi.node, "FIBER returns", "no return statement")


def _step_from_ast(fi, stmt, dop_name="D_op"):
    """the variable multiplying the linear operator in the most recent exp(D_op * s) before `stmt`"""
    prev = None
    for n in body_nodes(fi):
        if isinstance(n, ast.Assign) and n.lineno < stmt.lineno and isinstance(n.targets[0], ast.Name):
            if any(isinstance(x, ast.BinOp) and isinstance(x.op, ast.Mult) and any(isinstance(y, ast.Name) and y.id == dop_name for y in (x.left, x.right))
                   for x in ast.walk(n.value)):
                if prev is None or n.lineno > prev.lineno:
                    prev = n
    if prev is None:
        return None
    for x in ast.walk(prev.value):
        if isinstance(x, ast.BinOp) and isinstance(x.op, ast.Mult):
            pair = (x.left, x.right)
            if any(isinstance(y, ast.Name) and y.id == dop_name for y in pair):
                other = [y for y in pair if not (isinstance(y, ast.Name) and y.id == dop_name)]
                if other and isinstance(other[0], ast.Name):
                    return other[0].id
    return None


def rule_rank_guard(ctx, fi, rule="C08.3"):
    """constant subscripts on the field variable used as polarisation selectors need a 2-pol guard"""
    field_vars = set()
    for n in body_nodes(fi):
        if isinstance(n, ast.Assign) and isinstance(n.targets[0], ast.Name):
            s = src_of(n.value)
            if s.endswith(".signal") or "ifft(" in s:
                field_vars.add(n.targets[0].id)
    hits = 0
    for n in body_nodes(fi):
        if isinstance(n, ast.Subscript) and isinstance(n.value, ast.Name) and n.value.id in field_vars and isinstance(n.ctx, ast.Load):
            idx = n.slice
            if isinstance(idx, ast.Constant) and isinstance(idx.value, int):
                hits += 1
                if _two_pol_guarded(n):
                    ctx.holds(rule, fi, n, f"{src_of(n)} under a two-polarisation guard", "row selection only when the field has two rows")
                else:
                    st = n
                    while not isinstance(st, ast.stmt):
                        st = st._parent
                    ctx.violation(rule, fi, n, f"{src_of(n)} in `{src_of(st)[:160]}`",
                                  f"`{src_of(n)}` selects a polarisation row only if the field is two-dimensional; for a one-polarisation "
                                  "signal (rank 1) it selects a *sample*, so the step size is computed from two samples (division by zero when they vanish)")
    if hits == 0:
        ctx.holds(rule, fi, fi.node, "no constant-index polarisation selection on the field", "total power computed rank-generically")


def _two_pol_guarded(n):
    child = n
    for p in parents(n):
        test = None
        if isinstance(p, ast.If) and any(child is s for s in p.body):
            test = p.test
        elif isinstance(p, ast.IfExp) and child is p.body:
            test = p.test
        if test is not None:
            s = src_of(test)
            if ("n_pol" in s and "2" in s) or ("ndim" in s and "2" in s) or ("ndim" in s and "> 1" in s):
                return True
        if isinstance(p, (ast.If,)) and any(child is s for s in p.orelse):
            s = src_of(p.test)
            if ("n_pol" in s and "== 1" in s) or ("ndim" in s and "== 1" in s):
                return True
        if isinstance(p, ast.IfExp) and child is p.orelse:
            s = src_of(p.test)
            if ("n_pol" in s and "== 1" in s) or ("ndim" in s and "== 1" in s):
                return True
        if isinstance(p, (ast.FunctionDef, ast.Lambda)):
            break
        child = p
    return False


def _vanishes_only_with_field(P, depth=0):
    """P >= 0 by construction and P == 0 only if every sample of the field is 0: a positive constant times nested max / sum / mean
    reductions of |field|**k"""
    if not isinstance(P, Form) or depth > 6 or len(P.terms) != 1:
        return False
    (m, c), = P.terms.items()
    if c[1] != 0 or c[0] <= 0 or len(m) != 1:
        return False
    a, e = m[0]
    if not (e > 0 and a[0] == "fn" and len(a[2]) == 1):
        return False
    if a[1] in ("max", "amax", "sum", "mean", "nanmax"):
        return _vanishes_only_with_field(a[2][0], depth + 1)
    if a[1] in ("abs", "absolute"):
        x = a[2][0]
        while isinstance(x, Form) and x.single_atom() and x.single_atom()[0] == "fn" and x.single_atom()[1] in ("atleast_2d", "atleast_1d", "asarray") and len(x.single_atom()[2]) == 1:
            x = x.single_atom()[2][0]
        return isinstance(x, Form) and x.sym_name() is not None
    return False


def _on_nonzero_field(h):
    """the step as chosen for a field that is not identically zero: a branch taken only when the peak power is 0 is dropped (on
    a zero field every step size is exact - the output is zero)"""
    for _ in range(4):
        a = h.single_atom() if isinstance(h, Form) else None
        if not (a and a[0] == "fn" and a[1] == "ifexp" and len(a[2]) == 3):
            break
        c = a[2][0].single_atom() if isinstance(a[2][0], Form) else None
        if not (c and c[0] == "fn" and c[1] in ("gt", "ne", "le", "eq") and len(c[2]) == 2 and isinstance(c[2][1], Form) and c[2][1] == Form.num(0)
                and _vanishes_only_with_field(c[2][0])):
            break
        h = a[2][1] if c[1] in ("gt", "ne") else a[2][2]
    return h


def rule_shortcut(ctx, fi, it):
    """The pre-loop shortcut takes one step of the whole length.  The parameters are only compared with 0, so each has two
    order classes (zero / non-zero): all 16 combinations of (alpha, beta_2, beta_3, gamma) are evaluated abstractly and the
    shortcut may be taken only where one symmetric step is exact: gamma == 0, or the whole linear operator vanishes."""
    import itertools
    pkg = ctx.pkg
    names = [p for p in ("alpha", "beta_2", "beta_3", "gamma") if p in fi.params]
    if len(names) != 4:
        ctx.unknown("C08.4", fi, fi.node, "FIBER single-step shortcut", "parameters alpha, beta_2, beta_3, gamma not found")
        return
    length = fi.params[1]
    hname = step_variable(fi, it)
    if hname is None:
        itn, gform = fiber_interp(pkg, "nonzero")
        hname = step_variable(fi, itn, gamma=gform)
    if hname is None:
        ctx.unknown("C08.4", fi, fi.node, "FIBER single-step shortcut", "step-size variable not identified (no site is the symmetric split step of one variable)")
        return
    first_stmt = None
    bad, undecided, taken_ok = [], [], 0
    for combo in itertools.product((0, 7), repeat=4):
        pv = {n: Form.num(v) for n, v in zip(names, combo)}
        sub = Interp(pkg, assumptions={"show_progress": False, "input.noise": "none"}, param_classes={"input": "optical_signal"}, param_values=pv)
        sub.run(fi)
        h0 = None
        for f, stmt, name, val, conds, depth in sub.assign_log:
            if depth == 0 and name == hname:
                h0, first_stmt = val, stmt
                break
        if h0 is None:
            ctx.unknown("C08.4", fi, fi.node, "FIBER single-step shortcut", "initial step assignment not found")
            return
        h0 = _on_nonzero_field(h0)
        zero = dict(zip(names, (c == 0 for c in combo)))
        exact = zero["gamma"] or (zero["alpha"] and zero["beta_2"] and zero["beta_3"])
        if isinstance(h0, Form) and h0 == S(length):
            if exact:
                taken_ok += 1
            else:
                bad.append(zero)
        elif isinstance(h0, Form) and any(a[0] in ("phi",) or (a[0] == "fn" and a[1] == "ifexp") for a in h0.atoms()):
            undecided.append(zero)
    label = lambda z: ", ".join(f"{k}{'=0' if v else '!=0'}" for k, v in z.items())
    if undecided:
        ctx.unknown("C08.4", fi, first_stmt, "FIBER single-step shortcut", f"initial step not decided for [{label(undecided[0])}]")
    elif bad:
        ctx.violation("C08.4", fi, first_stmt, "FIBER: one full-length step taken although the step is not exact",
                      f"for [{label(bad[0])}]" + (f" (and {len(bad) - 1} more combinations)" if len(bad) > 1 else "") + " the first step is the whole fibre: with gamma != 0 and a "
                      "non-zero linear operator (loss or dispersion) a single symmetric step is not exact (SPM with loss needs L_eff = (1-exp(-a L))/a; one step gives (1+exp(-a L))/2*L)")
    else:
        ctx.holds("C08.4", fi, first_stmt, f"FIBER single-step shortcut: taken in {taken_ok} of 16 zero/non-zero combinations", "only when gamma == 0 or alpha = beta_2 = beta_3 = 0 (one step exact)")
    # with gamma == 0 the shortcut must be taken (linear propagation is a single exact step)
    miss = []
    for combo in itertools.product((0, 7), repeat=3):
        pv = {n: Form.num(v) for n, v in zip(names[:3], combo)}
        pv["gamma"] = Form.num(0)
        sub = Interp(pkg, assumptions={"show_progress": False, "input.noise": "none"}, param_classes={"input": "optical_signal"}, param_values=pv)
        sub.run(fi)
        h0 = next((val for f, stmt, name, val, conds, depth in sub.assign_log if depth == 0 and name == hname), None)
        if not (isinstance(h0, Form) and h0 == S(length)):
            miss.append(combo)
    ctx.check("C08.4", not miss, fi, first_stmt, "FIBER: gamma == 0 takes the single full-length step", "linear case handled in one exact step",
              "with gamma == 0 the initial step is not the whole length (the adaptive formula divides by gamma)")


def rule_dop(ctx, fi, it, rule):
    """the linear operator of the NLSE: D = -alpha'/2 - j/2*beta2*W^2 - j/6*beta3*W^3, W = w*1e-12 (shared with C07.3)"""
    w = 2 * PI * mk_fn("fftfreq", [mk_fn("siglen", [S("input.signal")])]) * S("gv.fs")
    W = w * Form.num(Fraction(1, 10 ** 12))
    dop, dop_stmt, _dop_name = find_dop(it)
    if not isinstance(dop, Form):
        ctx.unknown(rule, fi, fi.node, "FIBER D_op", "dispersion operator `D_op` not found")
        return None
    loss = Form({m: c for m, c in dop.terms.items() if any(a == ("sym", "alpha") for a, _ in m)})
    b2 = Form({m: c for m, c in dop.terms.items() if any(a == ("sym", "beta_2") for a, _ in m)})
    b3 = Form({m: c for m, c in dop.terms.items() if any(a == ("sym", "beta_3") for a, _ in m)})
    rest = dop - loss - b2 - b3
    want2 = Form.num(0, -1) / 2 * S("beta_2") * W * W
    want3 = Form.num(0, -1) / 6 * S("beta_3") * W * W * W
    ctx.check(rule, b2 == want2, fi, dop_stmt, f"D_op beta_2 term = {b2!r}", "-j/2*beta2*(w*1e-12)^2", f"differs from {want2!r}")
    ctx.check(rule, b3 == want3, fi, dop_stmt, f"D_op beta_3 term = {b3!r}", "-j/6*beta3*(w*1e-12)^3", f"differs from {want3!r}")
    ctx.check(rule, rest.is_zero(), fi, dop_stmt, f"D_op other terms = {rest!r}", "none", "dispersion operator has terms besides loss, beta2, beta3")
    q = const_float(loss / S("alpha"))
    if q is None or q == 0:
        ctx.violation(rule, fi, dop_stmt, f"D_op loss term = {loss!r}", "loss term is not a real constant times alpha")
    else:
        k = -1 / (2 * q)   # loss = -alpha/(2k)
        # exact to rounding: the rounded 4.343 is 1.3e-5 off, i.e. 1.5e-4 in the power left after 50 dB of loss - three orders
        # of magnitude above anything the "times 10^(-alpha*L/10)" of the statement can mean by equality
        ok = abs(float(k) / 4.342944819032518 - 1) < 1e-9
        ctx.check(rule, ok, fi, dop_stmt, f"D_op loss term = {loss!r}", f"-alpha/(2*{float(k):.4f}), 10/ln10 = 4.3429",
                  f"loss term is -alpha/(2*{float(k):.7g}); the dB->neper constant must be 10/ln(10) = 4.342944819 (a rounded 4.343 leaves the output power off by 1.3e-5 per neper: 1.5e-4 after 50 dB)")
    # ... and it is THAT operator which is applied: where the propagation statements use the variable, every value it can hold there
    # is the full operator, or differs from it only by terms a branch condition has made zero (`if beta_2 or beta_3:` around the
    # dispersive part is fine; `if beta_2 != 0:` around a part that also carries beta_3 drops the cubic phase of a fibre with
    # beta_2 == 0, beta_3 != 0)
    full_conds = [conds_ for f_, stmt_, name_, val_, conds_, depth_ in it.assign_log if depth_ == 0 and name_ == _dop_name and isinstance(val_, Form) and val_ == dop]
    zeros = set()
    if full_conds:
        for src_, pol_ in full_conds[0]:
            if pol_:
                zeros |= _names_zero_when_false(src_)
    seen_alt = set()
    for stmt_, fvar_, val_, env_ in find_sites(fi, it):
        used = env_.get(_dop_name)
        for alt in _phi_alternatives(used):
            if not isinstance(alt, Form) or alt == dop or repr(alt) in seen_alt:
                continue
            seen_alt.add(repr(alt))
            missing = dop - alt
            lost = [m for m in missing.terms if not any(a[0] == "sym" and a[1] in zeros for a, _e in m)]
            ctx.check(rule, not lost, fi, stmt_, f"D_op as applied can also be {alt!r}"[:160], "differs from the full operator only by terms its branch condition makes zero",
                      f"on a path where the propagation uses D_op = {alt!r} the terms {Form({m: missing.terms[m] for m in lost})!r} of the operator are missing although nothing makes them zero "
                      f"(the guard only establishes {sorted(zeros) or 'nothing'} == 0): e.g. a fibre with beta_2 == 0 and beta_3 != 0 loses its cubic phase"[:700])
    return b2, dop_stmt


def _phi_alternatives(v, depth=0):
    a = v.single_atom() if isinstance(v, Form) else None
    if a and a[0] == "phi" and v == Form.atom(a) and depth < 6:
        for x in a[2]:
            yield from _phi_alternatives(x, depth + 1)
    else:
        yield v


def _names_zero_when_false(src):
    """names that are zero whenever the condition `src` is false: the operands of an `or` of truth tests / `!= 0` comparisons"""
    try:
        e = ast.parse(src.split(" #")[0], mode="eval").body
    except SyntaxError:
        return set()
    def one(x):
        if isinstance(x, ast.Name):
            return {x.id}
        if isinstance(x, ast.Compare) and len(x.ops) == 1 and isinstance(x.ops[0], ast.NotEq) and isinstance(x.left, ast.Name) \
                and isinstance(x.comparators[0], ast.Constant) and x.comparators[0].value == 0:
            return {x.left.id}
        return None
    parts = e.values if isinstance(e, ast.BoolOp) and isinstance(e.op, ast.Or) else [e]
    got = [one(x) for x in parts]
    if any(g is None for g in got):
        return set() if len(parts) > 1 and all(g is None for g in got) else set().union(*[g for g in got if g])
    return set().union(*got)


def rule_returned_field(ctx, fi, itn, rule):
    from ..absint import ObjV
    # C08.7 the returned field IS the propagated field: a store of it into a buffer that has the input's dtype (output = input.copy();
    # output.signal[:] = A) casts the complex result - for a field given as real samples the imaginary part is dropped
    sites = find_sites(fi, itn)
    outs = [o for o in itn.outcomes if o.kind == "return" and isinstance(o.value, ObjV)]
    if sites and len(outs) == 1 and isinstance(getattr(itn, "final_env", None), dict):
        fvar = sites[-1][1]
        final = itn.final_env.get(fvar)
        got = outs[0].value.fields.get("signal")
        ga = got.single_atom() if isinstance(got, Form) else None
        if ga is not None and ga[0] == "fn" and ga[1] == "setitem":
            ctx.violation(rule, fi, outs[0].node, f"FIBER: output.signal = {got!r}"[:200],
                          "the propagated field is stored element-wise into an existing buffer (a copy of the input): numpy casts it to that buffer's dtype, so for an input built from real or "
                          "integer samples the imaginary part of the result is dropped (energy law, SPM closed form and convergence all fail for such inputs)")
        elif isinstance(final, Form) and isinstance(got, Form):
            from ..forms import vkey
            ctx.check(rule, vkey(got) == vkey(final), fi, outs[0].node, "FIBER: output.signal is the propagated field", f"the final value of `{fvar}`",
                      f"the returned signal {got!r} is not the field the stepping loop ends with ({final!r})"[:500])
        else:
            ctx.unknown(rule, fi, fi.node, "FIBER: output field", "returned signal or final field not determined")
    else:
        ctx.unknown(rule, fi, fi.node, "FIBER: output field", "no propagation site / single return")


def _at_most_length(v, length, depth=0, conds=()):
    """the value cannot exceed the fibre length: the length itself, min(.., length), or alternatives that all are; `conds`: the value
    forms of the branch conditions met on the way (an `if length < h: h = length` statement is a min written as a statement)"""
    if not isinstance(v, Form) or depth > 5:
        return False
    if v == length:
        return True
    a = v.single_atom()
    if a is None:
        return False
    if a[0] == "fn" and a[1] in ("min", "minimum") and any(isinstance(x, Form) and x == length for x in a[2]):
        return True
    if a[0] == "fn" and a[1] == "ifexp" and len(a[2]) == 3:
        c, x, y = a[2]
        ca = c.single_atom() if isinstance(c, Form) else None
        if ca and ca[0] == "fn" and ca[1] in ("gt", "ge") and len(ca[2]) == 2 and all(isinstance(z_, Form) for z_ in ca[2]):
            big, small = ca[2]            # the test is big > small (lt / le are stored with swapped operands)
            # `length if length < h else h` and `h if h < length else length`: the smaller of the two, written as a conditional
            if isinstance(x, Form) and isinstance(y, Form) and ((x == small and y == big and x == length) or (x == small and y == big and y == length)):
                return True
        return _at_most_length(x, length, depth + 1, conds) and _at_most_length(y, length, depth + 1, conds)
    if a[0] == "phi":
        if len(a[2]) == 2 and conds:
            for x, y in (a[2], a[2][::-1]):
                if isinstance(x, Form) and x == length and isinstance(y, Form) and any(isinstance(c, Form) and (c == mk_fn("gt", [y, length]) or c == mk_fn("ge", [y, length])) for c in conds):
                    return True            # replaced by the length exactly when it exceeded it
        return all(_at_most_length(x, length, depth + 1, conds) for x in a[2])
    return False


def rule_field_is_signal(ctx, fi, rule="C08.11"):
    """the field that is propagated is the input's signal component, whatever noise the input carries: the energy law, the SPM
    closed form and the convergence are all stated for the signal.  A field taken as signal + noise (a shared `_total_samples`
    helper) drives the Kerr phase and the step control by |signal + noise|^2 and returns the noise twice - once folded into the
    signal, once as the carried noise component.  Decided on the returned signal of a run with a noise component present."""
    from ..absint import ObjV
    pkg = ctx.pkg
    it = Interp(pkg, assumptions={"show_progress": False, "input.noise": "notnone", "gamma": ("truth", True)}, param_classes={"input": "optical_signal"})
    try:
        outs = [o for o in it.run(fi) if o.kind == "return" and isinstance(o.value, ObjV)]
    except Exception as ex:
        ctx.unknown(rule, fi, fi.node, "FIBER [noise present]: propagated field", f"not interpreted ({type(ex).__name__})")
        return
    if not outs:
        ctx.unknown(rule, fi, fi.node, "FIBER [noise present]: propagated field", "no returning path")
        return
    for o in outs:
        got = o.value.fields.get("signal")
        if not isinstance(got, Form):
            ctx.unknown(rule, fi, o.node, "FIBER [noise present]: propagated field", "returned signal not determined")
            continue
        dep = sorted(x for x in got.syms() if x == "input.noise" or x.startswith("input.noise."))
        # the stepping loop carries the field from pass to pass: what it STARTS from is read off the assignments ahead of the loop
        from ..rules import in_loop
        sites = find_sites(fi, it)
        fvar = sites[-1][1] if sites else None
        for f_, st_, nm_, v_, c_, d_ in it.assign_log:
            if fvar is not None and nm_ == fvar and d_ == 0 and not in_loop(st_) and isinstance(v_, Form):
                dep += sorted(x for x in v_.syms() if x == "input.noise" or x.startswith("input.noise."))
        ctx.check(rule, not dep, fi, o.node, "FIBER [noise present]: the propagated field is the input signal", "the returned signal does not read input.noise",
                  "the returned signal is computed from input.noise as well: the noise component enters the nonlinear phase and the step control, the energy of the output is not the "
                  "signal's energy times exp(-alpha L), and the noise is returned twice (in the signal and as the noise component)")


def rule_first_step(ctx, fi, it):
    """C08.8: the step the stepping loop STARTS with is at most the fibre length.  The accounting `x_length = h; ... if x_length + h >
    length: break; ...; h = length - x_length` keeps the distance covered below the length only if it starts below it: a weak signal
    (phi_max/(gamma*P) > L - microwatts in a lossy fibre) makes the adaptive first step overshoot, the remainder is negative, and the
    linear operator applied backwards over that distance (exp(+alpha*|h|/2)) overflows: every sample comes out NaN"""
    length = S(fi.params[1])
    hname = step_variable(fi, it)
    loops = [n for n in fi.node.body if isinstance(n, ast.While)]
    if hname is None or not loops or loops[0] not in it.loop_envs:
        ctx.unknown("C08.8", fi, fi.node, "FIBER: first step", "step variable or stepping loop not identified")
        return
    pre = it.loop_envs[loops[0]][0]
    h0 = pre.get(hname)
    ctx.check("C08.8", _at_most_length(h0, length, conds=tuple(getattr(it, "cond_forms", {}).values())), fi, loops[0], f"FIBER: step at loop entry = {h0!r}"[:200], "at most the fibre length",
              "the first step is the adaptive phi_max/(gamma*P_peak) with no upper limit: for a weak signal it exceeds the fibre length, the distance already covered then exceeds "
              "the length, the final 'remainder' step is negative and the field is propagated backwards through the loss (overflow: non-finite output)")


def rule_total_power(ctx, fi, it):
    """C08.10: a one-polarisation signal propagates exactly like the x polarisation of a two-polarisation signal whose y is empty: the
    adaptive step is sized by the peak of the TOTAL power - the sum over the polarisation rows.  An average over the rows (np.mean over
    axis 0 of the two-row field) halves it when a second, empty row is present: every step doubles and the two runs differ"""
    hname = step_variable(fi, it)
    vals = [(val, stmt) for f_, stmt, name, val, conds, depth in it.assign_log if depth == 0 and name == hname and isinstance(val, Form)] if hname else []
    seen = 0
    for val, stmt in vals:
        for a in val.atoms():
            if a[0] == "fn" and a[1].split(".")[-1] in ("mean", "average", "nanmean", "median") and a[2] and isinstance(a[2][0], Form) and \
                    any(x[0] == "fn" and x[1].split(".")[-1] == "atleast_2d" for x in a[2][0].atoms()):
                seen += 1
                ctx.violation("C08.10", fi, stmt, f"FIBER: step sized by {a[1].split('.')[-1]}(|A|^2) over the polarisation rows",
                              "the power that sizes the adaptive step is averaged over the rows of the field instead of summed: with an empty second polarisation it is half the power of "
                              "the same field given as one polarisation, every step is twice as long and the x polarisation no longer propagates like the one-polarisation signal "
                              "(relative difference 2.3e-2 at 10 rad of nonlinear phase)")
    if not seen:
        if vals:
            ctx.holds("C08.10", fi, vals[0][1], "FIBER: step sized by the total power over the polarisation rows", "no average over the rows of the field in the step size")
        else:
            ctx.unknown("C08.10", fi, fi.node, "FIBER: step size", "no assignment to the step variable")


def run(ctx):
    pkg = ctx.pkg
    fi = pkg.func("devices.FIBER")
    it = Interp(pkg, assumptions={"show_progress": False, "input.noise": "none"}, param_classes={"input": "optical_signal"})
    it.run(fi)
    canonical_operator(it)
    itn, gform = fiber_interp(pkg, "nonzero")
    rule_steps(ctx, fi, itn, "C08.1", "C08.2", gamma=gform, label=" [gamma != 0]")
    itz, gz = fiber_interp(pkg, "zero")
    rule_steps(ctx, fi, itz, None, "C08.2", gamma=gz, label=" [gamma == 0]")
    rule_rank_guard(ctx, fi)
    rule_shortcut(ctx, fi, it)
    rule_dop(ctx, fi, it, "C08.6")       # the scheme converges to the NLSE only with the NLSE's own linear operator
    rule_returned_field(ctx, fi, itn, "C08.7")
    rule_first_step(ctx, fi, itn)
    rule_total_power(ctx, fi, itn)
    rule_field_is_signal(ctx, fi)
    check_late_binding(ctx, "C08.5", ["devices.FIBER"])
    # C08.9: the energy law is stated per call: FIBER called twice with the same arguments gives the same output.  A parameter
    # rescaled in place (alpha *= ln(10)/10 on a 0-d or one-element array the caller keeps) makes the second call a different fibre
    from .c14 import rule_inplace
    rule_inplace(ctx, "C08.9", ["devices.FIBER"])
    ctx.require_min("C08.8", 1)
    ctx.require_min("C08.1", 1)
    ctx.require_min("C08.2", 2)
    ctx.require_min("C08.3", 1)
    ctx.require_min("C08.4", 2)
    ctx.require_min("C08.6", 4)
    ctx.require_min("C08.7", 1)
    ctx.require_min("C08.11", 1)
