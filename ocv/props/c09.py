"""C09 - PD: square-law detection, documented noise powers, selection table, guards (devices.PD)."""
from __future__ import annotations

import ast
import itertools
from fractions import Fraction

from ..absint import Interp, ObjV
from ..forms import Const, Form, fpow, mk_fn
from ..rules import S, pull_scalars, check_range_guard, check_type_guard, Reject, check_late_binding
from ..srcmodel import src_of

EXPLANATION = (
    "Value-form abstract interpretation of devices.PD (LPF inlined) for each of the seven include_noise selections (lower and upper "
    "case), one/two polarisations, optical noise present/absent. C09.2: the standard deviations passed to numpy.random.normal reduce "
    "to sqrt(4*kB*T*10^(Fn/10)*(fs/2)/R_load) and sqrt(2*e*(r*mean|E|^2 + r*sum power(noise) + i_dark)*(fs/2)), N = input length. "
    "C09.3: the noise current is exactly i_dark plus the terms the option names (beating terms for 'ase', thermal, shot; all for 'all'); "
    "any other string raises ValueError. C09.4: the signal part contains no random source and depends on the field only through |.|^2 "
    "(summed over axis 0 for two polarisations), times r*R_load; beating terms are r*2Re(E n*) and r*|n|^2. C09.5: documented "
    "TypeError/ValueError guards (comparison guards decided on every order class of the parameter). C09.6: the result passes LPF(., BW). "
    "Not decided: measured variances after filtering, six-sigma clauses.")
EXPLANATION += (" Second audit wave: C09.8 (open known finding) the thermal / shot draws pass through sosfiltfilt with its default odd edge extension: the end samples of the filtered noise are unfiltered draws and the measured variance exceeds variance*NEB for narrow filters; holds when padtype is not 'odd' or the draws are not handed to sosfiltfilt.")
TRUSTED = ["numpy.random.normal(loc, scale, size) semantics", "scipy.constants k, e", "LPF as checked in C11", "utils.idb (C19)"]

KB = Form.atom(("c", "scipy.constants.k"))
QE = Form.atom(("c", "scipy.constants.e"))
OPTIONS = ["ase-only", "thermal-only", "shot-only", "ase-thermal", "ase-shot", "thermal-shot", "all"]
SCAL = {"r", "R_load", "T", "i_dark", "Fn", "BW", "gv.fs"}


def scalar_atom(a):
    return (a[0] == "sym" and a[1] in SCAL) or a[0] in ("c", "num") or (a[0] == "fn" and a[1] == "exp10")


def unfilter(v):
    """real(sosfiltfilt(sos, X)) -> X"""
    if isinstance(v, Form):
        a = v.single_atom()
        if a and a[0] == "fn" and a[1] == "real":
            v = a[2][0]
            a = v.single_atom() if isinstance(v, Form) else None
        if a and a[0] == "fn" and a[1] == "scipy.signal.sosfiltfilt" and len(a[2]) >= 2:
            return a[2][1], a[2][0]
    return None, None


def _scales_with_rate(v, depth=0):
    """the value is built arithmetically (through min/max/int/ceil/round) from the bandwidth or the sampling rate - not merely from
    the number of filter sections, which depends on the order alone"""
    if not isinstance(v, Form) or depth > 6:
        return False
    for m in v.terms:
        for a, _e in m:
            if a[0] == "sym" and a[1] in ("BW", "gv.fs", "fs"):
                return True
            if a[0] == "fn" and a[1].split(".")[-1] in ("min", "max", "int", "ceil", "floor", "round", "minimum", "maximum") and any(_scales_with_rate(x, depth + 1) for x in a[2]):
                return True
            if a[0] == "grp" and _scales_with_rate(a[1], depth + 1):
                return True
    return False


def short_(v, n=90):
    r = repr(v)
    return r if len(r) <= n else r[:n] + "..."


def noise_draws(it, current):
    """the Gaussian noise terms of a detector current: [(std, loc, size, term, call record)].  A draw is normal(loc, scale, size) or,
    equivalently, loc + scale * standard_normal(size) (the scale is then read off the current as the coefficient of the draw)"""
    draws = []
    for r in it.calls:
        if r.callee == "numpy.random.normal":          # at any depth: the draw may sit in a private helper or closure
            draws.append((pull_scalars(r.arg(1, "scale"), scalar_atom) if isinstance(r.arg(1, "scale"), Form) else None, r.arg(0, "loc"), r.arg(2, "size"), r.result, r))
    for r in it.calls:
        if r.callee in ("numpy.random.standard_normal", "numpy.random.randn") or (r.callee or "").endswith(">.standard_normal"):
            R = r.result
            ra = R.single_atom() if isinstance(R, Form) else None
            if ra is None or current is None:
                continue
            part = Form({m: c for m, c in current.terms.items() if any(a == ra and e == 1 for a, e in m)})
            if part.is_zero():
                continue
            try:
                coeff = part / R
            except Exception:
                continue
            draws.append((pull_scalars(coeff, scalar_atom), Form.num(0), r.arg(0, "size"), coeff * R, r))
    return draws


def run(ctx):
    pkg = ctx.pkg
    fi = pkg.func("devices.PD")
    sig, nz = S("input.signal"), S("input.noise")
    fs2 = S("gv.fs") / 2
    std_T = fpow(4 * KB * S("T") * fs2 * mk_fn("exp10", [S("Fn") / 10]) / S("R_load"), Fraction(1, 2))
    N = mk_fn("siglen", [sig])
    for opt, npol, noise in itertools.product(OPTIONS + ["ALL", "Thermal-Shot"], (1, 2), ("none", "notnone")):
        case = f"include_noise='{opt}' n_pol={npol} noise={noise}"
        low = opt.lower()
        it = Interp(pkg, assumptions={"include_noise": opt, "input.noise": noise, "input.n_pol": npol}, param_classes={"input": "optical_signal"})
        it.tag_draws = True
        outs = it.run(fi)
        rets = [o for o in outs if o.kind == "return"]
        if not rets and outs and all(o.kind == "raise" for o in outs):
            ctx.violation("C09.3", fi, outs[-1].node, f"PD: documented option '{opt}' is rejected ({outs[-1].exc})", "every documented include_noise selection must be accepted in any letter case")
            continue
        if len(rets) != 1 or not isinstance(rets[0].value, ObjV):
            ctx.unknown("C09.3", fi, fi.node, f"PD [{case}]", f"{len(rets)} return paths")
            continue
        out, node = rets[0].value, rets[0].node
        # ---------------- signal part
        X, sos = unfilter(out.fields.get("signal"))
        p_inst = fpow(mk_fn("abs", [sig]), 2)
        isig = mk_fn("sum", [p_inst], [("axis", Form.num(0))]) if npol == 2 else p_inst
        want_sig = S("r") * S("R_load") * isig
        if X is None:
            ctx.violation("C09.6", fi, node, f"PD [{case}] output.signal", "signal part is not the LPF-filtered detector voltage")
            continue
        Xn = pull_scalars(X, scalar_atom)
        ctx.check("C09.4", Xn == want_sig, fi, node, f"PD [n_pol={npol}] signal before the filter = {Xn!r}", "R_load*r*sum_pol |E|^2: deterministic, phase-blind",
                  f"signal part differs from R_load*r*|E|^2{' summed over axis 0' if npol == 2 else ''} = {want_sig!r}")
        # ---------------- noise part
        Y, sos2 = unfilter(out.fields.get("noise"))
        if Y is None:
            ctx.violation("C09.6", fi, node, f"PD [{case}] output.noise", "noise part is not LPF-filtered")
            continue
        ctx.check("C09.6", sos is not None and sos == sos2, fi, node, f"PD [{case}] same filter for signal and noise", "one sos for both", "signal and noise are filtered by different filters")
        normals = [r for r in it.calls if r.callee == "numpy.random.normal"]     # at any depth: the draw may sit in a private helper or closure
        # expected terms
        i_sig_mean = pull_scalars(mk_fn("mean", [S("r") * isig]), scalar_atom)
        if noise == "notnone":
            pn = mk_fn("sum", [mk_fn("mean", [fpow(mk_fn("abs", [nz]), 2)], [("axis", Form.num(-1))])])
            i_ase = S("r") * pn
        else:
            i_ase = Form()
        std_N = fpow(2 * QE * (i_sig_mean + i_ase + S("i_dark")) * fs2, Fraction(1, 2))
        want = S("i_dark")
        kinds = set()
        if "thermal" in low or low == "all":
            kinds.add("thermal")
        if "shot" in low or low == "all":
            kinds.add("shot")
        if "ase" in low or low == "all":
            kinds.add("ase")
        used = {}
        # a draw is normal(loc, scale, size) or, equivalently, loc + scale * standard_normal(size): both are read as (std, loc, size)
        draws = noise_draws(it, Y / S("R_load") if isinstance(Y, Form) else None)
        for std, loc, size, result_, r in draws:
            which = "thermal" if std == std_T else ("shot" if std == std_N else None)
            okmeta = isinstance(loc, Form) and loc.is_zero() and isinstance(size, Form) and size == N
            if which is None:
                # which one was meant?  thermal has kB, shot has e
                meant = "thermal" if (std is not None and any(a == ("c", "scipy.constants.k") for a in std.atoms())) else "shot"
                ref = std_T if meant == "thermal" else std_N
                ctx.violation("C09.2", fi, r.node, f"{meant} noise std = {std!r}"[:400],
                              f"differs from the documented {'sqrt(4 kB T Fn (fs/2)/R_load)' if meant == 'thermal' else 'sqrt(2 e (r*mean|E|^2 + r*P_noise + i_dark)(fs/2))'} = {ref!r}")
                used[meant] = result_
            else:
                ctx.check("C09.2", okmeta, fi, r.node, f"{which} noise [{'n_pol=%d noise=%s' % (npol, noise)}]: normal(0, {std!r}, N)"[:400], "zero-mean, documented variance, N samples",
                          "normal draw is not zero-mean with one sample per input sample")
                used[which] = result_
        for k in ("thermal", "shot"):
            if k in kinds:
                if k in used:
                    want = want + used[k]
                else:
                    ctx.violation("C09.3", fi, node, f"PD [{case}] {k} term", f"option '{opt}' selects {k} noise but no such draw is made")
        if "ase" in kinds and noise == "notnone":
            s_n = S("r") * mk_fn("real", [sig * mk_fn("conj", [nz]) + nz * mk_fn("conj", [sig])])
            n_n = S("r") * fpow(mk_fn("abs", [nz]), 2)
            if npol == 2:
                s_n = mk_fn("sum", [s_n], [("axis", Form.num(0))])
                n_n = mk_fn("sum", [n_n], [("axis", Form.num(0))])
            want = want + s_n + n_n
        elif "ase" in kinds:
            want = want + 2 * mk_fn("zeros", [N])
        def flat(f):
            # an array filled with one value is that value at every sample: c*ones(N) -> c, zeros(N) -> 0 (N the record length)
            return f.subst(lambda a_: (Form.num(1) if a_[1] == "ones" else Form.num(0)) if a_[0] == "fn" and a_[1] in ("ones", "zeros") and len(a_[2]) == 1 and not a_[3] and a_[2][0] == N else None)
        got = pull_scalars(flat(Y / S("R_load")), scalar_atom)
        wantn = pull_scalars(flat(want), scalar_atom)
        if got == wantn:
            ctx.holds("C09.3", fi, node, f"PD [{case}] noise current", f"i_dark + {sorted(kinds)} terms, times R_load")
        else:
            diff = got - wantn
            ctx.violation("C09.3", fi, node, f"PD [{case}] noise current - expected = {diff!r}"[:500],
                          f"the noise part is not exactly i_dark plus the terms selected by '{low}' ({sorted(kinds)})")
        # C09.8 white draws and the filter's edges.  sosfiltfilt pads the record with its ODD extension about the end samples (scipy's
        # default): the padded record minus x[0] is an odd function of the distance to the edge, a zero-phase filter keeps it odd, so
        # the first output sample IS x[0] - right for the deterministic voltage (the filter settles on it), wrong for white noise:
        # the first sample is an unfiltered draw, tens of filtered sigmas high, and decays over ~fs/BW samples (a longer odd padding
        # changes nothing).  For narrow filters the measured variance of thermal/shot noise then exceeds variance * NEB.
        if npol == 1 and noise == "none" and opt in ("thermal-only", "shot-only"):
            ya = out.fields.get("noise")
            ya = ya.single_atom() if isinstance(ya, Form) else None
            if ya and ya[0] == "fn" and ya[1] == "real":
                ya = ya[2][0].single_atom() if isinstance(ya[2][0], Form) else None
            drawn = [d for d in draws if isinstance(d[3], Form)]
            label = f"PD [{opt}]: white draws do not pass the odd edge extension of the zero-phase filter"
            if ya and ya[0] == "fn" and ya[1] == "scipy.signal.sosfiltfilt" and drawn:
                kw = dict(ya[3])
                padtype = kw.get("padtype")
                odd = padtype is None or (isinstance(padtype, Const) and padtype.v == "odd")
                if not odd:
                    ctx.holds("C09.8", fi, node, label, f"padtype = {padtype!r}")
                else:
                    ctx.violation("C09.8", fi, node, label,
                                  f"the {opt.split('-')[0]} draws pass through sosfiltfilt with its default odd extension (padlen = {short_(kw.get('padlen'))}): the first and last output samples are "
                                  "UNFILTERED draws and the transient lasts ~fs/BW samples: for BW = 1e-3*fs/2 the variance of a 2^18-sample record is 3 to 6 times thermal variance * NEB (23 to 56 sigma "
                                  "in 4 of 8 seeds); at BW = 0.1*fs/2 the end samples carry 13 times the expected variance"[:900])
            else:
                ctx.holds("C09.8", fi, node, label, "the draws are not handed to sosfiltfilt")
        # determinism of the signal part
        rnd = [a for a in X.atoms() if a[0] == "fn" and a[1].startswith("numpy.random")]
        ctx.check("C09.4", not rnd, fi, node, f"PD [n_pol={npol}] signal part has no random source", "deterministic", "a random draw reaches the signal component")
        # LPF
        lpf = [r for r in it.calls if r.callee == "opticomlib.devices.LPF" and r.depth == 0]
        ok = len(lpf) == 1 and isinstance(lpf[0].arg(1, "BW"), Form) and lpf[0].arg(1, "BW") == S("BW")
        ctx.check("C09.6", ok, fi, lpf[0].node if lpf else node, "PD output passes LPF(output, BW)", "filtered with the BW argument", "the detector output is not passed through LPF with the `BW` argument")
    # ---------------- unknown option
    it = Interp(pkg, assumptions={"include_noise": "everything", "input.noise": "notnone", "input.n_pol": 1}, param_classes={"input": "optical_signal"})
    outs = it.run(fi)
    last = outs
    ok = bool(outs) and outs[-1].kind == "raise" and outs[-1].exc == "ValueError" and not any(o.kind == "return" for o in outs)
    ctx.check("C09.3", ok, fi, last[-1].node if last else fi.node, "PD: unknown include_noise string", "raises ValueError", "an unknown include_noise string does not end in ValueError")
    # ---------------- guards
    for p in ("r", "T", "R_load"):
        check_type_guard(ctx, "C09.5", fi, p, "TypeError", must_accept=["int", "float"], must_reject=["str", "list", "np.ndarray"], samples={"int": 1, "float": Fraction(1, 2)})
    check_range_guard(ctx, "C09.5", fi, "r", Reject(lambda x: x <= 0 or x > 1, [0, 1]), "ValueError", "r outside (0, 1]", accept_sample=[Fraction(1, 2), 1])
    check_range_guard(ctx, "C09.5", fi, "T", Reject(lambda x: x < 0, [0]), "ValueError", "T < 0", accept_sample=[0, 300])
    check_range_guard(ctx, "C09.5", fi, "R_load", Reject(lambda x: x < 0, [0]), "ValueError", "R_load < 0", accept_sample=[50])
    check_type_guard(ctx, "C09.5", fi, "include_noise", "TypeError", must_accept=["str"], must_reject=["int", "list"], samples={"str": Const("all")})
    it = Interp(pkg, assumptions={"input": ("notinst", "optical_signal")})
    outs = it.run(fi)
    ctx.check("C09.5", bool(outs) and outs[0].kind == "raise" and outs[0].exc == "TypeError", fi, fi.node, "PD: non-optical input", "raises TypeError", "non-optical input is not rejected with TypeError first")
    check_late_binding(ctx, "C09.7", ["devices.PD"])
    ctx.require_min("C09.8", 2)
    ctx.require_min("C09.2", 4)
    ctx.require_min("C09.3", 20)
    ctx.require_min("C09.4", 4)
    ctx.require_min("C09.5", 8)
