"""C10 - EDFA: gain on all of the input, ASE of the documented power (devices.EDFA)."""
from __future__ import annotations

import itertools
from fractions import Fraction

from ..absint import Interp, ObjV
from ..forms import Const, Form, SliceV, TupleV, fpow, mk_fn
from ..rules import S, check_late_binding
from ..srcmodel import src_of
from .c06 import strip_setitem

EXPLANATION = (
    "Value-form abstract interpretation of devices.EDFA (with electrical_signal.__mul__ and BPF inlined) for the four cases "
    "(input noise absent/present) x (one/two polarisations). C10.1: the output signal and the input-derived part of the output "
    "noise each carry the factor 10^(G/20) (the path through the __mul__ branch that leaves a component unscaled is reported). "
    "C10.2: output built with two polarisations; for a one-polarisation input row 1 of signal AND of the input-derived noise is "
    "cleared before ASE is added. C10.3: P_ase normal form = 10^(NF/10)*h*f0*(10^(G/10)-1)*fs; ASE = sqrt(P_ase/4)*randn(4,N) "
    "combined as rows[:2] + j*rows[2:], added to the noise component only. C10.4: TypeError on non-optical input; BW routes the "
    "whole output through BPF. Not decided: measured ASE power / OSNR numerically.")
EXPLANATION += (" Wave 14: every return path of EDFA is judged by the same clauses (an early exit for a 'trivial' gain must still clear the y row and carry a noise component).")
TRUSTED = ["numpy broadcasting and numpy.random.randn independence", "scipy.constants.h", "utils.idb (C19)"]

C_H = Form.atom(("c", "scipy.constants.h"))


def split_terms(f: Form, pred):
    """(part whose monomials satisfy pred(monomial-form), rest)"""
    a, b = Form(), Form()
    for m, c in f.terms.items():
        t = Form({m: c})
        if pred(t):
            a = a + t
        else:
            b = b + t
    return a, b


def has_sym(f, name):
    return isinstance(f, Form) and name in f.syms()


def has_fn(f, fname):
    return isinstance(f, Form) and any(a[0] == "fn" and a[1] == fname for a in f.atoms())


def _gain_at_least_one(d):
    """sign of a difference on the statement's domain G >= 0 dB: 10^(c*G) - 1 >= 0 for c > 0 (the linear gain is at least 1)"""
    if not isinstance(d, Form) or len(d.terms) != 2:
        return None
    # P * (10^(c*G) - 1) with P a product of positive physical quantities (noise figure, h, f0, fs): two monomials whose quotient is 10^(c*G)
    (m1, c1), (m2, c2) = list(d.terms.items())
    if c1[1] == 0 and c2[1] == 0 and c1[0] * c2[0] < 0:
        pos, neg = (Form({m1: c1}), Form({m2: (-c2[0], c2[1])})) if c1[0] > 0 else (Form({m2: c2}), Form({m1: (-c1[0], c1[1])}))
        positive = all(a[0] in ("c", "num") or (a[0] == "fn" and a[1] in ("exp10", "exp")) or (a[0] == "sym" and a[1] != "G") for m_ in (m1, m2) for a, e_ in m_ if e_.denominator == 1 or a[0] != "sym" or True)
        for num_, den_, res in ((pos, neg, "ge0"), (neg, pos, "le0")):
            try:
                ratio = num_ / den_
            except Exception:
                continue
            ra = ratio.single_atom() if isinstance(ratio, Form) else None
            if positive and ra and ra[0] == "fn" and ra[1] == "exp10" and ratio == Form.atom(ra) and isinstance(ra[2][0], Form):
                q = (ra[2][0] / S("G")).rational()
                if q is not None and q > 0:
                    return res
    for sign in (1, -1):
        e = d * sign + 1
        a = e.single_atom() if isinstance(e, Form) else None
        if a and a[0] == "fn" and a[1] == "exp10" and len(a[2]) == 1 and isinstance(a[2][0], Form):
            k = a[2][0] / S("G")
            q = k.rational() if isinstance(k, Form) else None
            if q is not None and q > 0:
                return "ge0" if sign == 1 else "le0"
    return None


def _ase_layouts(rargs, N):
    """accepted ways of drawing the four real quadratures (x/y polarisation x in-phase/quadrature, N samples each) in one call and
    pairing them: (re index, im index) per draw shape"""
    al = SliceV(Const(None), Const(None), Const(None))
    two = Form.num(2)
    if len(rargs) == 2 and rargs[0] == Form.num(4) and rargs[1] == N:
        return [(SliceV(Const(None), two, Const(None)), SliceV(two, Const(None), Const(None)))]            # randn(4, N): rows[:2] + j*rows[2:]
    if len(rargs) == 3 and rargs[0] == two and rargs[1] == N and rargs[2] == two:
        return [(TupleV([Const(Ellipsis), Form.num(0)]), TupleV([Const(Ellipsis), Form.num(1)])),           # randn(2, N, 2): [..., 0] + j*[..., 1]
                (TupleV([al, al, Form.num(0)]), TupleV([al, al, Form.num(1)]))]
    if len(rargs) == 3 and rargs[0] == two and rargs[1] == two and rargs[2] == N:
        return [(Form.num(0), Form.num(1))]                                                                  # randn(2, 2, N): [0] + j*[1]
    return []


def _ase_matches(ase, P_ase, r):
    """ase is sqrt(P_ase/4) * (re part + j * im part) of ONE standard-normal draw of four independent N-sample quadratures"""
    ra = r.result.single_atom() if isinstance(r.result, Form) else None
    rargs = list(ra[2]) if ra and ra[0] == "fn" and ra[1] == "numpy.random.randn" and not ra[3] else []
    N = mk_fn("siglen", [S("input.signal")])
    X = fpow(P_ase / 4, Fraction(1, 2)) * r.result
    for re_i, im_i in _ase_layouts(rargs, N):
        if ase == Form.atom(("idx", X, re_i)) + Form.num(0, 1) * Form.atom(("idx", X, im_i)):
            return True
    return False


def run(ctx):
    pkg = ctx.pkg
    fi = pkg.func("devices.EDFA")
    g = mk_fn("exp10", [S("G") / 20])
    P_ase = mk_fn("exp10", [S("NF") / 10]) * C_H * S("gv.f0") * (mk_fn("exp10", [S("G") / 10]) - 1) * S("gv.fs")
    for noise, npol in itertools.product(("none", "notnone"), (1, 2)):
        case = f"noise={noise} n_pol={npol}"
        it = Interp(pkg, assumptions={"BW": None, "input.noise": noise, "input.n_pol": npol}, param_classes={"input": "optical_signal"})
        it.domain_sign = _gain_at_least_one
        outs = it.run(fi)
        rets = [o for o in outs if o.kind == "return"]
        if not rets or not all(isinstance(o.value, ObjV) for o in rets):
            ctx.unknown("C10.1", fi, fi.node, f"EDFA [{case}]", f"{len(rets)} return paths / not a signal object")
            continue
        base_case = case
        for k_, ret_ in enumerate(rets):
            # every return path is an output of the amplifier: an early exit for a "trivial" gain has to satisfy the same clauses
            case = base_case if len(rets) == 1 else f"{base_case}, return path {k_ + 1} of {len(rets)}"
            out, node = ret_.value, ret_.node
            # ---- two polarisations
            cons = [r for r in it.calls if r.depth == 0 and r.callee == "opticomlib.typing.optical_signal"]
            two = [r for r in cons if (r.kwargs.get("n_pol") == Form.num(2)) or (len(r.args) > 2 and r.args[2] == Form.num(2))]
            ctx.check("C10.2", bool(two), fi, two[0].node if two else node, f"EDFA [{case}] output built with n_pol=2", "always two polarisations",
                      "output is not constructed with two polarisations")
            # ---- signal
            sig, srow, sval = strip_setitem(out.fields.get("signal"))
            if not isinstance(sig, Form):
                ctx.unknown("C10.1", fi, node, f"EDFA [{case}] signal", "not a form")
                continue
            ctx.check("C10.1", sig == g * S("input.signal"), fi, node, f"EDFA [{case}] output.signal = {sig!r}", "input.signal * 10^(G/20)",
                      f"signal part is not the input signal times sqrt(G)={g!r}")
            if has_fn(sig, "numpy.random.randn") or has_fn(sig, "numpy.random.normal"):
                ctx.violation("C10.3", fi, node, f"EDFA [{case}] output.signal = {sig!r}", "ASE is added to the signal component instead of the noise component")
            if npol == 1:
                ok = srow is not None and srow == Form.num(1) and _is_zero(sval)
                ctx.check("C10.2", ok, fi, node, f"EDFA [{case}] signal row cleared: {srow!r}", "y row of the signal cleared", "y-polarisation of a one-polarisation input carries signal")
            else:
                ctx.check("C10.2", srow is None, fi, node, f"EDFA [{case}] signal rows kept", "both rows amplified", "a polarisation row of a two-polarisation input is cleared")
            # ---- noise
            nz = out.fields.get("noise")
            if not isinstance(nz, Form):
                ctx.violation("C10.3", fi, node, f"EDFA [{case}] output.noise = {nz!r}", "output carries no ASE noise component")
                continue
            inpart, ase = split_terms(nz, lambda t: has_sym(t, "input.noise"))
            if noise == "none":
                ctx.check("C10.1", inpart.is_zero(), fi, node, f"EDFA [{case}] input-derived noise = {inpart!r}", "none", "noise-free input produces input-derived noise")
            else:
                base, nrow, nval = strip_setitem(inpart)
                if not isinstance(base, Form) or not has_sym(base, "input.noise"):
                    ctx.unknown("C10.1", fi, node, f"EDFA [{case}] noise part {inpart!r}", "cannot isolate the input-derived noise term")
                else:
                    if base == g * S("input.noise"):
                        ctx.holds("C10.1", fi, node, f"EDFA [{case}] input noise gain", "input.noise * 10^(G/20)")
                    else:
                        via = _mul_branch(it)
                        ctx.violation("C10.1", fi, _mul_node(fi) or node, f"EDFA input noise reaches the output as {base!r}",
                                      f"the input's noise component is not amplified by sqrt(G)={g!r}{via}: output OSNR exceeds input OSNR")
                    if npol == 1:
                        ok = nrow is not None and nrow == Form.num(1) and _is_zero(nval)
                        ctx.check("C10.2", ok, fi, _row_node(fi) or node, "EDFA one-polarisation input: y row of the input-derived noise",
                                  "cleared like the signal row", "the y row is cleared for the signal only: the input's noise appears in the y polarisation")
                    else:
                        ctx.check("C10.2", nrow is None, fi, node, f"EDFA [{case}] noise rows kept", "both rows amplified", "a noise row of a two-polarisation input is cleared")
            # ---- ASE
            randn = [r for r in it.calls if r.callee in ("numpy.random.randn", "numpy.random.standard_normal", "numpy.random.normal")]
            if len(randn) != 1:
                ctx.violation("C10.3", fi, node, f"EDFA [{case}] ASE draws", f"expected one randn(4, N) draw, found {len(randn)}")
                continue
            r = randn[0]
            ra = r.result.single_atom() if isinstance(r.result, Form) else None   # canonical form: standard_normal((4, N)) == randn(4, N)
            rargs = list(ra[2]) if ra and ra[0] == "fn" and ra[1] == "numpy.random.randn" and not ra[3] else []
            n_arg = rargs[1] if len(rargs) > 1 else None
            ok = bool(_ase_layouts(rargs, mk_fn("siglen", [S("input.signal")])))
            ctx.check("C10.3", ok, fi, r.node, src_of(r.node), "four independent real N-sample quadratures in one draw", "ASE draw is not randn(4, N) (or (2, N, 2) / (2, 2, N)): the four quadratures are not independent arrays of the input length")
            X = fpow(P_ase / 4, Fraction(1, 2)) * r.result
            want = Form.atom(("idx", X, SliceV(Const(None), Form.num(2), Const(None)))) + Form.num(0, 1) * Form.atom(("idx", X, SliceV(Form.num(2), Const(None), Const(None))))
            if ase == want or _ase_matches(ase, P_ase, r):
                ctx.holds("C10.3", fi, node, f"EDFA [{case}] ASE = rows[:2] + j*rows[2:], rows = sqrt(P_ase/4)*randn(4,N)", f"P_ase = {P_ase!r}")
            else:
                # diagnose P_ase
                pa = it.final_env.get("P_ase") if it.final_env else None
                if isinstance(pa, Form) and pa != P_ase:
                    ctx.violation("C10.3", fi, node, f"P_ase = {pa!r}", f"ASE power differs from NF*h*f0*(G-1)*fs = {P_ase!r}")
                else:
                    ctx.violation("C10.3", fi, node, f"EDFA [{case}] ASE term = {ase!r}", f"ASE is not sqrt(P_ase/4)*randn rows combined as rows[:2]+j*rows[2:] (expected {want!r})")
    # ---- C10.5: ASE (complex) must not be accumulated in place into a component whose dtype is the input's
    import ast
    it = Interp(pkg, assumptions={"BW": None, "input.noise": "notnone", "input.n_pol": 2}, param_classes={"input": "optical_signal"})
    it.run(fi)
    n_acc = 0
    for (sfi, stmt, tgt, val, conds, depth) in it.store_log:
        if depth != 0 or tgt[0] != "attr" or tgt[2] not in ("noise", "signal"):
            continue
        if not (isinstance(val, Form) and has_fn(val, "numpy.random.randn")):
            continue
        n_acc += 1
        if isinstance(stmt, ast.AugAssign):
            cplx = any(c[1] != 0 for m, c in val.terms.items())
            ctx.check("C10.5", not cplx, fi, stmt, src_of(stmt), "accumulation keeps the dtype",
                      "complex ASE is added in place (`+=`) to a component whose dtype is inherited from the input: for a real-typed input "
                      "with noise numpy cannot cast complex128 into float64 and raises instead of returning the amplified field")
        else:
            ctx.holds("C10.5", fi, stmt, src_of(stmt), "ASE added out of place (result dtype promoted)")
    if n_acc == 0:
        ctx.unknown("C10.5", fi, fi.node, "ASE accumulation", "no store of the ASE term into a component found")
    # ---- C10.4
    it = Interp(pkg, assumptions={"input": ("notinst", "optical_signal")})
    outs = it.run(fi)
    ctx.check("C10.4", bool(outs) and outs[0].kind == "raise" and outs[0].exc == "TypeError", fi, fi.node, "EDFA: non-optical input", "raises TypeError", "non-optical input is not rejected with TypeError")
    it = Interp(pkg, assumptions={"BW": "notnone", "input.noise": "notnone", "input.n_pol": 2}, param_classes={"input": "optical_signal"})
    it.domain_sign = _gain_at_least_one
    outs = it.run(fi)
    rets = [o for o in outs if o.kind == "return"]
    if len(rets) == 1 and isinstance(rets[0].value, ObjV):
        o = rets[0].value
        ok = all(isinstance(o.fields.get(k), Form) and o.fields[k].single_atom() and o.fields[k].single_atom()[1] == "scipy.signal.sosfiltfilt" for k in ("signal", "noise"))
        bpf = [r for r in it.calls if r.callee == "opticomlib.devices.BPF"]
        ctx.check("C10.4", ok and len(bpf) == 1, fi, rets[0].node, "EDFA with BW: output through BPF", "signal and noise both band-limited", "with a bandwidth argument the whole output is not passed through the optical filter")
        # the field handed to the filter is the BW=None output: white ASE of power NF*h*f0*(G-1)*fs over the whole simulated band
        # (the filter then keeps the in-band part; scaling the total by BW/fs as well would lower the in-band density)
        pre = bpf[0].args[0] if len(bpf) == 1 and bpf[0].args else None
        randn = [r for r in it.calls if r.callee in ("numpy.random.randn", "numpy.random.standard_normal", "numpy.random.normal")]
        if isinstance(pre, ObjV) and isinstance(pre.fields.get("noise"), Form) and len(randn) == 1:
            inpart, ase = split_terms(pre.fields["noise"], lambda t: has_sym(t, "input.noise"))
            X = fpow(P_ase / 4, Fraction(1, 2)) * randn[0].result
            want = Form.atom(("idx", X, SliceV(Const(None), Form.num(2), Const(None)))) + Form.num(0, 1) * Form.atom(("idx", X, SliceV(Form.num(2), Const(None), Const(None))))
            ctx.check("C10.3", ase == want or _ase_matches(ase, P_ase, randn[0]), fi, bpf[0].node, "EDFA with BW: ASE handed to the filter", f"white ASE of power P_ase = {P_ase!r} (as without BW), band-limited afterwards",
                      f"with a bandwidth argument the ASE generated before the filter is {ase!r}, not the BW=None noise {want!r}: the output is not the band-limited version of the documented output")
        else:
            ctx.unknown("C10.3", fi, fi.node, "EDFA with BW: ASE handed to the filter", "field passed to BPF not resolved")
    else:
        ctx.unknown("C10.4", fi, fi.node, "EDFA with BW", "return not resolved")
    check_late_binding(ctx, "C10.6", ["devices.EDFA"])
    ctx.require_min("C10.1", 6)
    ctx.require_min("C10.2", 8)
    ctx.require_min("C10.3", 5)


def _is_zero(v):
    if isinstance(v, Form):
        if v.is_zero():
            return True
        # every monomial carries a zeros()/zeros_like() factor
        return all(any(a[0] == "fn" and a[1] in ("zeros_like", "zeros") and e > 0 for a, e in m) for m in v.terms)
    return False


def _mul_branch(it):
    for r in it.calls:
        if r.callee and r.callee.endswith("electrical_signal.__mul__"):
            return " (it passes through electrical_signal.__mul__, whose `other.noise is None` branch scales only .signal)"
    return ""


def _mul_node(fi):
    import ast
    for n in ast.walk(fi.node):
        if isinstance(n, ast.Assign) and isinstance(n.value, ast.BinOp) and isinstance(n.value.op, ast.Mult) and "optical_signal" in src_of(n.value.left):
            return n
    return None


def _row_node(fi):
    import ast
    for n in ast.walk(fi.node):
        if isinstance(n, ast.If) and "n_pol" in src_of(n.test):
            return n
    return None
